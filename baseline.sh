#!/bin/bash
# Runs the repository's pinned test command (guard off) and prints pass/fail totals.
# usage: baseline.sh [repo-dir]
R="${1:-/repo}"
cd "$R" || exit 2
out=$(mktemp -p /dev/shm junit.XXXXXX.xml)
env -u YAMLPATH_VERIF PYTHONPATH="$R" /venv/bin/python -m pytest -ra -q -p no:cacheprovider --timeout=900 --continue-on-collection-errors --junitxml="$out" 2>&1 | tail -3
rm -f "$out"
