#!/usr/bin/env python
"""
Demonstrations of inputs for which yamlpath's set_value() violates the property

  "A set changes exactly the matched nodes (and their aliases), nothing else
   ... and the edited document always serializes to YAML which reloads (with
   yamlpath's own strict loader) to the same data."

Run as:  cd /tmp/wt5-C03 && PYTHONPATH=/tmp/wt5-C03 /venv/bin/python demo.py
Only public entry points are used:  yamlpath.Processor, yamlpath.common.Parsers,
yamlpath.wrappers.ConsolePrinter, yamlpath.enums.YAMLValueFormats and the
yaml-set / yaml-get command modules.
Exit status:  1 when at least one case violates the property, 0 otherwise.
"""
import contextlib
import io
import os
import subprocess
import sys
import tempfile
from collections import OrderedDict
from types import SimpleNamespace

from yamlpath import Processor
from yamlpath.common import Parsers
from yamlpath.enums import YAMLValueFormats
from yamlpath.wrappers import ConsolePrinter

LOG = ConsolePrinter(SimpleNamespace(quiet=True, verbose=False, debug=False))
RESULTS = []


# --------------------------------------------------------------------------
# helpers
# --------------------------------------------------------------------------
def load(text):
    """Load with yamlpath's own (strict) loader; returns (editor, data, ok, msgs)."""
    editor = Parsers.get_yaml_editor()
    err = io.StringIO()
    data, ok = None, False
    with contextlib.redirect_stderr(err), contextlib.redirect_stdout(err):
        try:
            data, ok = Parsers.get_yaml_data(editor, LOG, text, literal=True)
        except SystemExit:
            ok = False
        except Exception as ex:  # loader let an exception escape
            ok = False
            err.write("{}: {}".format(type(ex).__name__, ex))
    return editor, data, ok, " ".join(err.getvalue().split())


def dump(editor, data):
    buf = io.StringIO()
    editor.dump(data, buf)
    return buf.getvalue()


def plain(node):
    """Reduce ruamel.yaml nodes to plain Python data (keeps order of maps)."""
    if isinstance(node, dict):
        return OrderedDict((plain_key(k), plain(v)) for k, v in node.items())
    if isinstance(node, (list, tuple)):
        return [plain(v) for v in node]
    if isinstance(node, (set, frozenset)) or type(node).__name__ == "CommentedSet":
        return ("set", sorted(repr(plain(v)) for v in node))
    if hasattr(node, "value") and hasattr(node, "tag") and not isinstance(
            node, (str, int, float)):
        return ("tagged", str(node.tag.value), plain(node.value))
    if type(node).__name__ == "ScalarBoolean" or isinstance(node, bool):
        return bool(node)
    if isinstance(node, int):
        return int(node)
    if isinstance(node, float):
        return float(node)
    if isinstance(node, str):
        return str(node)
    return node


def plain_key(key):
    pkey = plain(key)
    if isinstance(pkey, (list, dict)):
        return repr(pkey)
    return pkey


def show(obj):
    if isinstance(obj, OrderedDict):
        return "{" + ", ".join(
            "{!r}: {}".format(k, show(v)) for k, v in obj.items()) + "}"
    if isinstance(obj, list):
        return "[" + ", ".join(show(v) for v in obj) + "]"
    return repr(obj)


def indent(text, pad="      | "):
    return "\n".join(pad + line for line in text.rstrip("\n").split("\n"))


def report(label, clause, inp, demand, observed, violated):
    RESULTS.append((label, violated))
    print("=" * 78)
    print("CASE {}".format(label))
    print("  property clause : {}".format(clause))
    print("  input           :")
    print(indent(inp))
    print("  property demands: {}".format(demand))
    print("  code did        :")
    print(indent(observed))
    print("  verdict         : {}".format(
        "VIOLATION" if violated else "ok (property holds)"))


def edit(text, edits):
    """
    Apply [(path, value, kwargs)] to text.

    Returns (memory_after, text_after, reload_ok, reloaded, messages, error)
    """
    editor, data, ok, msgs = load(text)
    assert ok, "demo input does not load: " + msgs
    proc = Processor(LOG, data)
    error = None
    for path, value, kwargs in edits:
        try:
            proc.set_value(path, value, **kwargs)
        except Exception as ex:  # pylint: disable=broad-except
            error = "{} raised by set_value({!r}, {!r}): {}".format(
                type(ex).__name__, path, value, ex)
            break
    try:
        out = dump(editor, proc.data)
    except Exception as ex:  # pylint: disable=broad-except
        return (plain(proc.data), None, False, None, "",
                "{} raised while serializing: {}".format(
                    type(ex).__name__, ex))
    _, redata, reok, remsgs = load(out)
    return (plain(proc.data), out, reok, plain(redata) if reok else None,
            remsgs, error)


def observed_text(mem, out, reok, redata, remsgs, error):
    lines = []
    if error:
        lines.append("EXCEPTION: " + error)
    if out is not None:
        lines.append("serialized document:")
        lines.extend("    " + l for l in out.rstrip("\n").split("\n"))
    if out is not None and not reok:
        lines.append("RELOAD with yamlpath's loader FAILED: " + remsgs[:300])
    elif redata is not None:
        lines.append("reloaded data : " + show(redata))
    lines.append("in-memory data: " + show(mem))
    return "\n".join(lines)


# --------------------------------------------------------------------------
# CASE 1 -- whole-number floats are written as a different number
# Clause violated: "every node the path matched ... holds the new value" and
# "serializes to YAML which reloads ... to the same data".
# --------------------------------------------------------------------------
def case_float_whole():
    text = "a: 1.5\nb: x\n"
    for label, value, kwargs in [
            ("1a float 10.0 (python float, default format)", 10.0, {}),
            ("1b float '1000.0' (text, value_format=FLOAT)", "1000.0",
             {"value_format": YAMLValueFormats.FLOAT}),
            ("1c float -100.0 (python float, default format)", -100.0, {}),
    ]:
        res = edit(text, [("a", value, kwargs)])
        mem, out, reok, redata, _, _ = res
        want = float(value)
        bad = (not reok) or redata["a"] != want
        report(
            label,
            "matched node holds the new value; reloads to the same data",
            text + "set_value('a', {!r}, {})".format(value, kwargs),
            "a == {!r} in memory and after reload; b untouched".format(want),
            observed_text(*res), bad)


# --------------------------------------------------------------------------
# CASE 2 -- small whole-number floats serialize to YAML which the strict
# loader cannot load at all.
# Clause violated: "the edited document always serializes to YAML which
# reloads (with yamlpath's own strict loader) to the same data".
# --------------------------------------------------------------------------
def case_float_unloadable():
    text = "a: 1.5\nb: x\n"
    res = edit(text, [("a", 2.0, {})])
    mem, out, reok, redata, _, _ = res
    bad = (not reok) or redata["a"] != 2.0
    report("2a float 2.0 -> unloadable document",
           "serializes to YAML which reloads to the same data",
           text + "set_value('a', 2.0)",
           "a document which reloads with a == 2.0",
           observed_text(*res), bad)

    # The same through the command-line tools
    tmpd = tempfile.mkdtemp(prefix="demo-c03-")
    fname = os.path.join(tmpd, "f.yaml")
    with open(fname, "w", encoding="utf-8") as fhnd:
        fhnd.write(text)
    env = dict(os.environ)
    setres = subprocess.run(
        [sys.executable, "-W", "ignore", "-m", "yamlpath.commands.yaml_set",
         "--change=a", "--value=2.0", fname],
        env=env, capture_output=True, text=True, check=False)
    with open(fname, "r", encoding="utf-8") as fhnd:
        written = fhnd.read()
    getres = subprocess.run(
        [sys.executable, "-W", "ignore", "-m", "yamlpath.commands.yaml_get",
         "--query=a", fname],
        env=env, capture_output=True, text=True, check=False)
    bad = getres.returncode != 0 or getres.stdout.strip() not in ("2.0", "2")
    last_err = (getres.stderr.strip().split("\n") or [""])[-1]
    report("2b yaml-set --change=a --value=2.0, then yaml-get --query=a",
           "serializes to YAML which reloads to the same data",
           text + "yaml-set --change=a --value=2.0 FILE; yaml-get --query=a FILE",
           "yaml-get prints 2.0",
           "yaml-set exit={}\nfile now:\n{}\nyaml-get exit={} stdout={!r}\n"
           "yaml-get last stderr line: {}".format(
               setres.returncode, indent(written, "    "), getres.returncode,
               getres.stdout.strip(), last_err),
           bad)


# --------------------------------------------------------------------------
# CASE 3 -- a YAML !!set anywhere in the document loses a member which merely
# compares equal to the old value (and gains the new value).
# Clause violated: "every other key, value, element ... is exactly as before,
# including scalars that merely compare equal to the old value".
# --------------------------------------------------------------------------
def case_set_member_equal():
    text = "a: old\ns: !!set\n  ? old\n  ? other\n"
    res = edit(text, [("a", "new", {})])
    mem, out, reok, redata, _, _ = res
    bad = mem["s"] != ("set", sorted(["'old'", "'other'"])) or mem["a"] != "new"
    report("3 unrelated !!set member equal to the old value",
           "scalars that merely compare equal to the old value are untouched",
           text + "set_value('a', 'new')",
           "a == 'new'; s is still the set {old, other}",
           observed_text(*res), bad)


# --------------------------------------------------------------------------
# CASE 4 -- a YAML !!set anywhere in the document which does NOT hold the old
# value makes every set_value raise KeyError; when the set precedes the
# target, the target is not changed.
# Clause violated: "every node the path matched ... holds the new value".
# --------------------------------------------------------------------------
def case_set_crash():
    text = "s: !!set\n  ? x\n  ? y\na: 1\n"
    res = edit(text, [("a", 2, {})])
    mem, out, reok, redata, _, error = res
    bad = error is not None or mem["a"] != 2
    report("4 unrelated !!set elsewhere in the document",
           "matched node holds the new value (and nothing else changes)",
           text + "set_value('a', 2)",
           "a == 2; s untouched; no exception",
           observed_text(*res), bad)


# --------------------------------------------------------------------------
# CASE 5 -- an alias of the matched anchored scalar which lives in an inline
# Hash of a YAML merge key is not updated; the document then carries the
# anchor twice and cannot be reloaded.
# Clauses violated: "every alias of a matched anchored node holds the new
# value"; "serializes to YAML which reloads ...".
# --------------------------------------------------------------------------
def case_alias_in_inline_merge():
    text = "a: &A old\nm:\n  <<: {k: *A}\n  z: 1\n"
    res = edit(text, [("a", "new", {})])
    mem, out, reok, redata, _, _ = res
    bad = (not reok) or redata["m"].get("k") != "new" or mem["m"]["k"] != "new"
    report("5 alias inside an inline merge-key Hash",
           "every alias holds the new value; document reloads",
           text + "set_value('a', 'new')",
           "a == 'new' and m.k (alias *A) == 'new'; document reloads",
           observed_text(*res), bad)


# --------------------------------------------------------------------------
# CASE 6 -- an alias of the matched anchored scalar which lives inside a
# complex (sequence) mapping key is not updated; duplicate anchor on dump.
# Clauses violated: same as case 5.
# --------------------------------------------------------------------------
def case_alias_in_complex_key():
    text = "a: &A old\n? [*A, x]\n: v\n"
    res = edit(text, [("a", "new", {})])
    mem, out, reok, redata, _, _ = res
    bad = not reok
    report("6 alias inside a complex (sequence) key",
           "every alias holds the new value; document reloads",
           text + "set_value('a', 'new')",
           "a == 'new', the key becomes [new, x]; document reloads",
           observed_text(*res), bad)


# --------------------------------------------------------------------------
# CASE 7 -- an aliased KEY which, after the set, is spelled like a sibling key
# silently swallows that sibling (one entry of the map is lost).
# Clause violated: "every other key, value ... is exactly as before ... and
# keys that are spelled like it".
# --------------------------------------------------------------------------
def case_alias_key_collision():
    text = "a: &A old\nm:\n  *A : 1\n  new: 2\n  z: 3\n"
    res = edit(text, [("a", "new", {})])
    mem, out, reok, redata, _, error = res
    values = sorted(repr(v) for v in mem["m"].values())
    bad = error is None and values != ["1", "2", "3"]
    report("7 aliased key collides with a sibling key after the set",
           "every other key/value exactly as before (or a refusal, as the "
           "[name()] rename does with DuplicateKeyYAMLPathException)",
           text + "set_value('a', 'new')",
           "m keeps three entries with values 1, 2 and 3 (or the edit is "
           "refused)",
           observed_text(*res), bad)


# --------------------------------------------------------------------------
# CASE 8 -- replacing an aliased key in a map which also has a YAML merge key
# turns all merged-in keys into own keys of that map, so the next edit of the
# merge source no longer reaches the map.
# Clauses violated: "every other key ... of the document is exactly as
# before"; "This remains true after any sequence of such edits".
# --------------------------------------------------------------------------
def case_merge_materialized():
    text = ("names: &K thekey\nbase: &B {p: 1, q: 2}\n"
            "m:\n  <<: *B\n  *K : val\n  last: 2\n")
    res = edit(text, [("names", "renamed", {}), ("base.p", 5, {})])
    mem, out, reok, redata, _, _ = res
    bad = (not reok) or redata["m"].get("p") != 5 or (
        "  p: 1" in (out or ""))
    report("8 aliased key replaced in a map with a merge key; then edit the "
           "merge source",
           "other keys exactly as before; holds over sequences of edits",
           text + "set_value('names', 'renamed'); set_value('base.p', 5)",
           "m still only has '<<: *B', its aliased key and 'last'; after the "
           "2nd edit m.p == 5 on reload",
           observed_text(*res), bad)


# --------------------------------------------------------------------------
# CASE 9 -- a path which matches a scalar THROUGH a YAML merge key is accepted
# (mustexist=True, no error) but nothing at all is changed.
# Clause violated: "every node the path matched ... holds the new value".
# --------------------------------------------------------------------------
def case_set_through_merge():
    text = "base: &base\n  y: old\nderived:\n  <<: *base\n  z: 1\n"
    editor, data, _, _ = load(text)
    proc = Processor(LOG, data)
    matched = [str(n.node) for n in proc.get_nodes("derived.y", mustexist=True)]
    error = None
    try:
        proc.set_value("derived.y", "new", mustexist=True)
    except Exception as ex:  # pylint: disable=broad-except
        error = "{}: {}".format(type(ex).__name__, ex)
    after = [str(n.node) for n in proc.get_nodes("derived.y", mustexist=True)]
    out = dump(editor, proc.data)
    _, redata, reok, _ = load(out)
    bad = error is None and after != ["new"]
    report("9 set through a YAML merge key",
           "every node the path matched holds the new value",
           text + "set_value('derived.y', 'new', mustexist=True)",
           "get_nodes('derived.y') matched {} before; afterwards it (and the "
           "reload) must give 'new' -- or the edit must be refused".format(
               matched),
           "exception: {}\nget_nodes('derived.y') afterwards: {}\n"
           "serialized document:\n{}\nreloaded derived.y: {!r}".format(
               error, after, indent(out, "    "),
               plain(redata)["derived"].get("y") if reok else None),
           bad)


# --------------------------------------------------------------------------
# CASE 10 -- with a Collector path the requested value_format / tag are
# dropped, so the text '5' demanded as a quoted string arrives as integer 5.
# Clause violated: "every node the path matched ... holds the new value"
# (new values of each scalar type; the type of the stored value is wrong).
# --------------------------------------------------------------------------
def case_collector_format_lost():
    text = "a: x\nb: y\nc: z\n"
    ref = edit(text, [("a", "5", {"value_format": YAMLValueFormats.SQUOTE,
                                   "mustexist": True})])
    res = edit(text, [("(a)+(b)", "5",
                       {"value_format": YAMLValueFormats.SQUOTE,
                        "mustexist": True})])
    mem, out, reok, redata, _, _ = res
    bad = (not reok) or redata["a"] != "5" or redata["b"] != "5"
    report("10 Collector path loses value_format (and tag)",
           "matched nodes hold the new value (a string, as demanded)",
           text + "set_value('(a)+(b)', '5', value_format=SQUOTE, "
           "mustexist=True)",
           "a == '5' and b == '5' (strings), exactly as the plain path 'a' "
           "does: reloaded a == {!r}".format(ref[3]["a"]),
           observed_text(*res), bad)


# --------------------------------------------------------------------------
# CASE 11 -- after setting a value in a merge source, the in-memory document
# still answers the old value through the merge key, while the serialized
# document reloads with the new one.
# Clause violated: "serializes to YAML which reloads ... to the same data".
# --------------------------------------------------------------------------
def case_stale_merged_copy():
    text = "base: &base\n  y: old\nderived:\n  <<: *base\n  z: 1\n"
    editor, data, _, _ = load(text)
    proc = Processor(LOG, data)
    proc.set_value("base.y", "new", mustexist=True)
    inmem = [str(n.node) for n in proc.get_nodes("derived.y", mustexist=True)]
    out = dump(editor, proc.data)
    _, redata, reok, _ = load(out)
    reproc = Processor(LOG, redata)
    rel = [str(n.node) for n in reproc.get_nodes("derived.y", mustexist=True)]
    bad = inmem != rel
    report("11 in-memory document differs from its own serialization after "
           "editing a merge source",
           "edited document reloads to the same data",
           text + "set_value('base.y', 'new'); get_nodes('derived.y')",
           "the edited in-memory document and its reload agree on derived.y",
           "edited in-memory document: derived.y -> {}\n"
           "serialized document:\n{}\nreloaded document: derived.y -> {}"
           .format(inmem, indent(out, "    "), rel),
           bad)


# --------------------------------------------------------------------------
# CASE 12 -- plain Python data (dict / OrderedDict, which Processor supports
# with dedicated branches): a KEY elsewhere which is merely spelled like the
# old value is renamed to the new value.
# Clause violated: "... and keys that are spelled like it" stay as before.
# --------------------------------------------------------------------------
def case_plain_dict_key():
    data = {"a": "old", "c": {"old": 1, "z": 2}}
    before = repr(data)
    proc = Processor(LOG, data)
    proc.set_value("a", "new", mustexist=True)
    bad = "old" not in proc.data["c"]
    report("12 plain dict: key spelled like the old value",
           "keys spelled like the old value are untouched",
           "data = {}\nset_value('a', 'new')".format(before),
           "{'a': 'new', 'c': {'old': 1, 'z': 2}}",
           "data = {!r}".format(proc.data), bad)


# --------------------------------------------------------------------------
# CASE 13 -- text values in the block formats:  FOLDED with a trailing space
# makes the document impossible to serialize; LITERAL with a leading space
# serializes to YAML the strict loader rejects.
# Clause violated: "the edited document always serializes to YAML which
# reloads ... to the same data" (new values of each scalar type).
# --------------------------------------------------------------------------
def case_block_formats():
    text = "a: old\nz: end\n"
    res = edit(text, [("a", "trail ", {"value_format": YAMLValueFormats.FOLDED})])
    mem, out, reok, redata, _, error = res
    bad = out is None or not reok or redata["a"] != "trail "
    report("13a FOLDED text with a trailing space",
           "edited document always serializes and reloads to the same data",
           text + "set_value('a', 'trail ', value_format=FOLDED)",
           "a document which reloads with a == 'trail '",
           observed_text(*res), bad)

    res = edit(text, [("a", " lead", {"value_format": YAMLValueFormats.LITERAL})])
    mem, out, reok, redata, _, error = res
    bad = out is None or not reok or redata["a"] != " lead"
    report("13b LITERAL text with a leading space",
           "edited document always serializes and reloads to the same data",
           text + "set_value('a', ' lead', value_format=LITERAL)",
           "a document which reloads with a == ' lead'",
           observed_text(*res), bad)


# --------------------------------------------------------------------------
# CASE 14 -- floats are cut to 15 decimals on the way out.
# Clause violated: "reloads ... to the same data" (weakest case: arguably a
# presentation choice).
# --------------------------------------------------------------------------
def case_float_precision():
    text = "a: 1.5\n"
    value = 0.1 + 0.2
    res = edit(text, [("a", value, {})])
    mem, out, reok, redata, _, _ = res
    bad = (not reok) or redata["a"] != value
    report("14 float 0.30000000000000004 loses precision",
           "reloads to the same data",
           text + "set_value('a', 0.1 + 0.2)",
           "a == 0.30000000000000004 after reload (as it is in memory)",
           observed_text(*res), bad)


def main():
    for case in (
            case_float_whole,
            case_float_unloadable,
            case_set_member_equal,
            case_set_crash,
            case_alias_in_inline_merge,
            case_alias_in_complex_key,
            case_alias_key_collision,
            case_merge_materialized,
            case_set_through_merge,
            case_collector_format_lost,
            case_stale_merged_copy,
            case_plain_dict_key,
            case_block_formats,
            case_float_precision,
    ):
        try:
            case()
        except Exception as ex:  # pylint: disable=broad-except
            RESULTS.append((case.__name__, True))
            print("=" * 78)
            print("CASE {} aborted with {}: {}".format(
                case.__name__, type(ex).__name__, ex))

    print("=" * 78)
    print("SUMMARY")
    for label, violated in RESULTS:
        print("  {:9s} {}".format("VIOLATION" if violated else "ok", label))
    violations = sum(1 for _, violated in RESULTS if violated)
    print("{} of {} cases violate the property".format(
        violations, len(RESULTS)))
    return 1 if violations else 0


if __name__ == "__main__":
    sys.exit(main())
