#!/usr/bin/env python
"""
Demonstration of violations of the property

  "Multi-document merges combine documents as the selected mode defines":
  condense-all folds every document of both streams, in order, into one
  result; merge-across merges the i-th right document into the i-th left
  document and appends surplus right documents; matrix merges every right
  document into every left document; EACH PAIRWISE STEP IS THE C05 MERGE.

Run as:  cd /tmp/wt7-C18 && PYTHONPATH=/tmp/wt7-C18 /venv/bin/python demo.py

Only public entry points are used:
  * the yaml-merge command (python -m yamlpath.commands.yaml_merge), and
  * yamlpath.merger.Merger / MergerConfig (the C05 pairwise merge itself),
    which supplies the expected value of every pairwise step.

Exit status:  1 when at least one case violates the property, else 0.
"""
import io
import os
import subprocess
import sys
import tempfile
from types import SimpleNamespace

from ruamel.yaml import YAML

from yamlpath.common import Parsers
from yamlpath.merger import Merger, MergerConfig
from yamlpath.wrappers import ConsolePrinter

TMPDIR = tempfile.mkdtemp(prefix="c18demo_")
_COUNTER = [0]


def write_file(text):
    _COUNTER[0] += 1
    path = os.path.join(TMPDIR, "in{}.yaml".format(_COUNTER[0]))
    with open(path, "w", encoding="utf-8") as fhnd:
        fhnd.write(text)
    return path


def stream(docs):
    """Join single-document texts into one multi-document stream."""
    return "".join("---\n{}\n".format(doc) for doc in docs)


def yaml_merge(mode, lhs_stream, rhs_stream):
    """Run the real yaml-merge command on two multi-document streams."""
    proc = subprocess.run(
        [sys.executable, "-m", "yamlpath.commands.yaml_merge",
         "--nostdin", "--multi-doc-mode=" + mode,
         write_file(lhs_stream), write_file(rhs_stream)],
        stdin=subprocess.DEVNULL, stdout=subprocess.PIPE,
        stderr=subprocess.PIPE, universal_newlines=True,
        env=dict(os.environ))
    return proc.returncode, proc.stdout, proc.stderr


def load_rt(text):
    """Round-trip load one document (keeps anchors, aliases, merge keys)."""
    return Parsers.get_yaml_editor().load(text)


def dump_rt(data):
    buf = io.StringIO()
    editor = Parsers.get_yaml_editor()
    editor.explicit_start = True
    editor.dump(data, buf)
    return buf.getvalue()


def plain(text):
    """What any YAML reader makes of a document (merge keys resolved)."""
    return YAML(typ="safe", pure=True).load(text)


def plain_all(text):
    return list(YAML(typ="safe", pure=True).load_all(text))


def c05(lhs_text, rhs_text):
    """THE pairwise (C05) merge, default policies:  returns YAML text."""
    args = SimpleNamespace(quiet=True, verbose=False, debug=False)
    log = ConsolePrinter(args)
    merger = Merger(log, load_rt(lhs_text), MergerConfig(log, args))
    merger.merge_with(load_rt(rhs_text))
    return dump_rt(merger.data)


def expected_matrix(lhs_docs, rhs_docs):
    """Matrix mode as the property states it, built from C05 steps only."""
    results = []
    for lhs in lhs_docs:
        acc = "---\n{}\n".format(lhs)
        for rhs in rhs_docs:
            acc = c05(acc, "---\n{}\n".format(rhs))
        results.append(acc)
    return results


def banner(title):
    print("=" * 78)
    print(title)
    print("=" * 78)


def show_inputs(lhs_docs, rhs_docs):
    print("LEFT stream ({} document(s)):".format(len(lhs_docs)))
    print(stream(lhs_docs))
    print("RIGHT stream ({} document(s)):".format(len(rhs_docs)))
    print(stream(rhs_docs))


# ---------------------------------------------------------------------------
# CASE 1
# Clause violated:  "matrix merges every right document into every left
# document; each pairwise step is the C05 merge."
# With one document per stream all three modes are one and the same single
# C05 step.  The right document takes `x` only THROUGH a YAML Merge Key
# (`<<: *d`), so the C05 merge leaves the left document's own `u.x: 4` alone.
# matrix_merge turns the merge-key reference into a concrete `x: 1` before
# merging and thereby overwrites the left value.
# ---------------------------------------------------------------------------
def case_1():
    banner("CASE 1: matrix_merge, 1 x 1 documents, right document uses a "
           "YAML Merge Key")
    lhs_docs = ["u: {x: 4}"]
    rhs_docs = ["d: &d {x: 1}\nu:\n  <<: *d\n  z: 3"]
    show_inputs(lhs_docs, rhs_docs)

    want_text = expected_matrix(lhs_docs, rhs_docs)
    want = [plain(t) for t in want_text]
    print("Property demands (the C05 merge of right doc into left doc):")
    print(want_text[0])
    print("  as data: {}".format(want))

    violated = False
    for mode in ("condense_all", "merge_across", "matrix_merge"):
        rcode, out, err = yaml_merge(mode, stream(lhs_docs), stream(rhs_docs))
        got = plain_all(out) if rcode == 0 else None
        verdict = "as demanded" if got == want else "VIOLATION"
        print("--multi-doc-mode={}: exit {} -> {}   [{}]".format(
            mode, rcode, got, verdict))
        if mode == "matrix_merge":
            print("matrix_merge output was:")
            print(out + err)
            violated = got != want
    print("CASE 1 verdict: {}".format(
        "VIOLATION (u.x must stay 4; matrix_merge made it 1)" if violated
        else "ok"))
    return violated


# ---------------------------------------------------------------------------
# CASE 2
# Clause violated:  "matrix merges every right document into every left
# document; each pairwise step is the C05 merge"  (a fold of C05 steps:
# (L1 + R1) + R2).
# R1 defines `defs: &d {x: 1}` and `use: {<<: *d}`;  R2 then deep-merges
# `defs: {x: 9}`.  After the C05 merge of R1 the merge key still refers to
# the anchored Hash, so the C05 merge of R2 shows through `use` (x: 9).
# matrix_merge has severed the reference, so `use.x` stays 1 and the anchor
# is gone.  (With a single left document matrix_merge and condense_all are the
# very same fold, yet they print different documents.)
# ---------------------------------------------------------------------------
def case_2():
    banner("CASE 2: matrix_merge, 1 x 2 documents, second right document "
           "updates the Hash the first one's Merge Key refers to")
    lhs_docs = ["top: 1"]
    rhs_docs = ["defs: &d {x: 1}\nuse:\n  <<: *d\n  z: 3", "defs: {x: 9}"]
    show_inputs(lhs_docs, rhs_docs)

    want_text = expected_matrix(lhs_docs, rhs_docs)
    want = [plain(t) for t in want_text]
    print("Property demands ((L1 + R1) + R2, each + being the C05 merge):")
    print(want_text[0])
    print("  as data: {}".format(want))

    rcode, out, err = yaml_merge(
        "matrix_merge", stream(lhs_docs), stream(rhs_docs))
    got = plain_all(out) if rcode == 0 else None
    print("matrix_merge did (exit {}):".format(rcode))
    print(out + err)
    print("  as data: {}".format(got))

    rcode_c, out_c, _ = yaml_merge(
        "condense_all", stream(lhs_docs), stream(rhs_docs))
    got_c = plain_all(out_c) if rcode_c == 0 else None
    print("(condense_all, the same fold for a single left document, gives: {}"
          "  [{}])".format(got_c, "as demanded" if got_c == want else "differs"))

    violated = got != want
    print("CASE 2 verdict: {}".format(
        "VIOLATION (use.x must be 9; matrix_merge left it 1)" if violated
        else "ok"))
    return violated


# ---------------------------------------------------------------------------
# CASE 3
# Clause violated:  "matrix merges every right document into every left
# document; each pairwise step is the C05 merge"  -- here at the level of the
# document's structure rather than its resolved data.
# The C05 merge carries the right document's `<<: *d` over as a reference to
# the anchored Hash, and `use` owns only `z`.  matrix_merge writes, into every
# left document, an inline copy (`<<: {x: 1, y: 2}`) PLUS concrete `x` and `y`
# keys:  the reference that the C05 merge preserves is lost in all outputs.
# ---------------------------------------------------------------------------
def case_3():
    banner("CASE 3: matrix_merge, 2 x 1 documents, Merge Key reference is "
           "replaced by copies in every output document")
    lhs_docs = ["a: 1", "b: 2"]
    rhs_docs = ["defs: &d {x: 1, y: 2}\nuse:\n  <<: *d\n  z: 3"]
    show_inputs(lhs_docs, rhs_docs)

    def structure(text):
        doc = load_rt(text)
        use = doc["use"]
        own = [key for key, _ in use.non_merged_items()]
        linked = any(ref is doc["defs"] for _, ref in use.merge)
        return {"own keys of use": own, "<< refers to defs": linked}

    want_text = expected_matrix(lhs_docs, rhs_docs)
    want = [structure(t) for t in want_text]
    print("Property demands (C05 merge of R1 into each left document):")
    for text in want_text:
        print(text)
    print("  structure: {}".format(want))

    rcode, out, err = yaml_merge(
        "matrix_merge", stream(lhs_docs), stream(rhs_docs))
    print("matrix_merge did (exit {}):".format(rcode))
    print(out + err)
    got = None
    if rcode == 0:
        got = [structure(dump_rt(doc))
               for doc in Parsers.get_yaml_editor().load_all(out)]
    print("  structure: {}".format(got))

    rcode_a, out_a, _ = yaml_merge(
        "merge_across", stream(lhs_docs[:1]), stream(rhs_docs))
    if rcode_a == 0:
        print("(merge_across of L1 and R1 -- one C05 step -- keeps the "
              "reference: {})".format(structure(out_a)))

    violated = got != want
    print("CASE 3 verdict: {}".format(
        "VIOLATION (use must own only z and keep <<: *d)" if violated
        else "ok"))
    return violated


def main():
    results = [case_1(), case_2(), case_3()]
    banner("SUMMARY")
    for idx, bad in enumerate(results, 1):
        print("case {}: {}".format(idx, "VIOLATION" if bad else "ok"))
    sys.exit(1 if any(results) else 0)


if __name__ == "__main__":
    main()
