#!/usr/bin/env python
"""
Demonstrations for the property

  "Every result locates its node: coordinates and reported path re-resolve"

Run as:  cd /tmp/wt7-C02 && PYTHONPATH=/tmp/wt7-C02 /venv/bin/python demo.py

Only public entry points are used:  yamlpath.common.Parsers (to load the
documents), yamlpath.Processor.get_nodes (to query) and yamlpath.YAMLPath.
Every case builds its own document, runs one query and hands every result
which designates a real document node to one generic checker of the clauses
of the property:

  (P) indexing result.parent by result.parentref gives the very node
      returned (Set member:  the parent Set contains it)
  (A) result.ancestry walks from the document root down to the node
  (R) evaluating str(result.path) against the same document returns that
      node and no other (once; once per alias when the path holds an &anchor)

Exit status is 1 when at least one case violates the property, else 0.
"""
import sys
from types import SimpleNamespace

from ruamel.yaml.comments import CommentedSet

from yamlpath import Processor, YAMLPath
from yamlpath.common import Parsers
from yamlpath.wrappers import ConsolePrinter, NodeCoords

LOG = ConsolePrinter(SimpleNamespace(quiet=True, verbose=False, debug=False))


def load(text):
    """Load one YAML document with the project's own loader."""
    editor = Parsers.get_yaml_editor()
    (data, loaded) = Parsers.get_yaml_data(editor, LOG, text, literal=True)
    assert loaded, "document did not load"
    return data


def is_scalar(node):
    return not isinstance(node, (dict, list, set, CommentedSet))


def same_node(one, other):
    """Identity; scalars (which Python may intern or copy) by type+value."""
    if one is other:
        return True
    return is_scalar(one) and is_scalar(other) \
        and type(one) is type(other) and one == other


def short(value, width=60):
    text = repr(value) if not isinstance(value, str) else value
    return text if len(text) <= width else text[:width - 3] + "..."


def norm_ref(parent, ref):
    if isinstance(parent, list) and isinstance(ref, int) and ref < 0:
        return ref + len(parent)
    return ref


def check_result(data, result):
    """Return the list of clauses of the property this result violates."""
    problems = []
    node, parent, ref = result.node, result.parent, result.parentref

    # (P) parent[parentref] is the node
    if parent is None:
        problems.append("(P) the result carries no parent")
    elif isinstance(parent, (set, CommentedSet)):
        if not any(same_node(member, node) for member in parent):
            problems.append("(P) the parent Set does not contain the node")
    else:
        try:
            got = parent[ref]
            if not same_node(got, node):
                problems.append(
                    "(P) parent[{}] is {}, not the node returned".format(
                        short(ref, 30), short(got)))
        except Exception as ex:  # pylint: disable=broad-except
            problems.append("(P) parent[{}] raises {}".format(
                short(ref, 30), type(ex).__name__))
        if not hasattr(parent, "ca"):
            problems.append(
                "(P) the parent is a plain Python {} which is no node of the"
                " document".format(type(parent).__name__))

    # (A) the ancestry chain walks from the root to the node
    ancestry = result.ancestry
    if not ancestry:
        problems.append("(A) the ancestry chain is empty")
    elif ancestry[0][0] is not data:
        problems.append("(A) the ancestry chain does not start at the"
                        " document root")
    else:
        try:
            current = None
            for step, (anc_parent, anc_ref) in enumerate(ancestry):
                if step > 0 and anc_parent is not current:
                    problems.append(
                        "(A) ancestry step {} starts from a container which"
                        " is not what step {} arrived at".format(
                            step, step - 1))
                    break
                if isinstance(anc_parent, (set, CommentedSet)):
                    if anc_ref not in anc_parent:
                        raise KeyError(anc_ref)
                    current = anc_ref
                else:
                    current = anc_parent[anc_ref]
            else:
                if not same_node(current, node):
                    problems.append(
                        "(A) the ancestry chain arrives at {}, not at the"
                        " node returned".format(short(current)))
        except Exception as ex:  # pylint: disable=broad-except
            problems.append(
                "(A) walking the ancestry chain raises {}".format(
                    type(ex).__name__))

    # (R) the reported path re-resolves to that node and no other
    if result.path is None:
        problems.append("(R) the result carries no path")
    else:
        reported = str(result.path)
        try:
            again = list(Processor(LOG, data).get_nodes(
                YAMLPath(reported), mustexist=True))
        except Exception as ex:  # pylint: disable=broad-except
            problems.append("(R) evaluating the reported path '{}' raises"
                            " {}".format(reported, type(ex).__name__))
            again = None
        if again is not None:
            flat = []
            for again_nc in again:
                flat.extend(real_results(again_nc))
            others = [nc for nc in flat if not same_node(nc.node, node)]
            if others:
                problems.append(
                    "(R) the reported path '{}' returns other node(s): {}"
                    .format(reported, ", ".join(
                        short(nc.node, 40) for nc in others)))
            elif "&" not in reported:
                if len(flat) != 1:
                    problems.append(
                        "(R) the reported path '{}' returns {} results"
                        .format(reported, len(flat)))
                elif hasattr(parent, "ca") and (
                        flat[0].parent is not parent
                        or norm_ref(flat[0].parent, flat[0].parentref)
                        != norm_ref(parent, ref)):
                    problems.append(
                        "(R) the reported path '{}' resolves to other"
                        " coordinates than the result carries".format(
                            reported))
    return problems


def real_results(result):
    """Unwrap slices / Collector lists down to the results naming nodes."""
    node = result.node
    if isinstance(node, NodeCoords):
        yield from real_results(node)
    elif isinstance(node, list) and not hasattr(node, "ca"):
        for element in node:
            if isinstance(element, NodeCoords):
                yield from real_results(element)
    else:
        yield result


def run_case(label, clause_note, document, query, expect):
    """Run one case; return True when the property is violated."""
    print("=" * 78)
    print("CASE {}".format(label))
    print("  violates: {}".format(clause_note))
    print("  document:")
    for line in document.rstrip("\n").split("\n"):
        print("      " + line)
    print("  query:    {}".format(query))
    print("  property demands: {}".format(expect))
    data = load(document)
    violated = False
    results = list(Processor(LOG, data).get_nodes(query, mustexist=True))
    print("  the code did:")
    for result in results:
        node = result.node
        if isinstance(node, NodeCoords) or (
                isinstance(node, list) and not hasattr(node, "ca")):
            print("    (virtual result skipped: {})".format(short(node)))
            continue
        problems = check_result(data, result)
        print("    result node={} parentref={} parent-type={} path='{}'"
              .format(short(node, 40), short(result.parentref, 30),
                      type(result.parent).__name__, result.path))
        print("           ancestry={}".format(
            [(type(p).__name__, short(r, 25)) for (p, r) in result.ancestry]))
        if problems:
            violated = True
            for problem in problems:
                print("      VIOLATION " + problem)
        else:
            print("      ok")
    print("  => {}".format("PROPERTY VIOLATED" if violated else "holds"))
    return violated


def main():
    verdicts = []

    # ---------------------------------------------------------------------
    # Case 1.  min()/max() applied to a slice of an Array-of-Hashes.
    # Clauses violated:  parent[parentref] is the node (the parent is the
    # virtual list of the slice and holds NodeCoords wrappers); the ancestry
    # chain (its last step starts from the virtual list); and -- for the
    # one-element slice -- the reported path, which does not resolve at all.
    # unique()/distinct() over the very same slice report the elements' own
    # coordinates (l, 1, 'l[1]'), as does l[max(v)] without the slice.
    # ---------------------------------------------------------------------
    doc1 = "l:\n  - {v: 1}\n  - {v: 2}\n"
    verdicts.append(run_case(
        "1a  max() over a slice of an Array-of-Hashes",
        "parent[ref] is the node; ancestry walks from the root",
        doc1, "l[0:2][max(v)]",
        "node {v: 2} with parent = the Array l, parentref 1, ancestry"
        " [(root,'l'), (l,1)], path l[1] (what l[max(v)] and"
        " l[0:2][unique(v)] report)"))
    verdicts.append(run_case(
        "1b  max() over a one-element slice",
        "as 1a, and the reported path re-resolves",
        doc1, "l[1:1][max(v)]",
        "node {v: 2} at path l[1]; whatever path is reported must evaluate"
        " to that node"))
    verdicts.append(run_case(
        "1c  !min() (inverted) over a slice",
        "parent[ref] is the node; ancestry walks from the root",
        doc1, "l[0:2][!min(v)]",
        "node {v: 2} with parent l, parentref 1, path l[1]"))

    # ---------------------------------------------------------------------
    # Case 2.  A YAML Merge Key reference selected by its Anchor, and
    # everything reached through it.
    # Clauses violated:  parent[parentref] is the node (d['b'] does not
    # exist); the ancestry chain (its step is (d, <the merged Hash itself>),
    # which cannot index d).  The same broken step is inherited by every
    # node below (d[&b].k) and parent() then hands out the Hash as its own
    # parentref.
    # ---------------------------------------------------------------------
    doc2 = "base: &b\n  k: 1\nd:\n  <<: *b\n  own: 2\n"
    verdicts.append(run_case(
        "2a  Hash merged in via <<, selected by its Anchor",
        "parent[ref] is the node; ancestry walks from the root",
        doc2, "d[&b]",
        "the Hash &b with a parent and a key-or-index under which that"
        " parent holds it, and an ancestry chain which can be walked from"
        " the root (e.g. root['base'])"))
    verdicts.append(run_case(
        "2b  scalar below the merge reference",
        "ancestry walks from the root",
        doc2, "d[&b].k",
        "scalar 1 with an ancestry chain that can be walked from the root"
        " to it"))
    verdicts.append(run_case(
        "2c  parent() back up to the merge reference",
        "parent[ref] is the node; ancestry walks from the root",
        doc2, "d[&b].k[parent()]",
        "the Hash &b with a usable parentref (a key or index)"))

    # ---------------------------------------------------------------------
    # Case 3.  Segments which follow a Collector.  The Collector's own
    # result is virtual (excluded), yet the single real nodes selected from
    # it by later segments carry wrong coordinates:
    #  3a  (l) is flattened to elements which all keep the coordinates of
    #      the Array (path 'l', ancestry [(root,'l')]):  the reported path
    #      l.n names BOTH n nodes and the ancestry chain skips a level.
    #  3b  parent() then returns element l[0] described as (root, 'l', 'l').
    #  3c  (a)+(l):  the added elements' ancestry starts at l, not at the
    #      document root.
    # Clauses violated:  reported path returns that node and no other;
    # ancestry walks from the root; parent[ref] is the node (3b).
    # ---------------------------------------------------------------------
    doc3 = "a: 0\nl:\n  - {n: 1}\n  - {n: 2}\n"
    verdicts.append(run_case(
        "3a  key segment after a Collector of one Array",
        "reported path returns that node and no other; ancestry",
        doc3, "(l).n",
        "two results, paths l[0].n and l[1].n, ancestry"
        " [(root,'l'), (l,i), (l[i],'n')]"))
    verdicts.append(run_case(
        "3b  parent() after it",
        "parent[ref] is the node; ancestry; reported path",
        doc3, "(l).n[parent()]",
        "the Hashes l[0] and l[1] with parent l, parentref 0 / 1, paths"
        " l[0] / l[1]"))
    verdicts.append(run_case(
        "3c  key segment after a Collector addition",
        "ancestry walks from the document root",
        doc3, "(a)+(l).n",
        "ancestry chains which start at the document root"))

    # ---------------------------------------------------------------------
    # Case 4.  Set with integer members.
    # Clause violated:  evaluating the reported path returns that node (it
    # matches nothing:  the Set lookup compares the text '1' with the
    # integer 1, whereas the same lookup in a Hash falls back to int keys).
    # ---------------------------------------------------------------------
    verdicts.append(run_case(
        "4   members of a Set of integers",
        "reported path re-resolves to the node",
        "s: !!set {1, 2}\n", "s.*",
        "paths which evaluate to the members 1 and 2 (as m.1 does for a"
        " Hash {1: x})"))

    # ---------------------------------------------------------------------
    # Case 5.  Key which is the empty string (the path syntax has no
    # spelling for it; the segment is silently dropped from the path).
    # Clauses violated:  reported path returns that node (it returns the
    # parent Hash); and parent() then climbs one level too many in the
    # PATH (not in the node), so an ordinary node (top.k) is reported at
    # path 'top'.
    # ---------------------------------------------------------------------
    doc5 = "top:\n  k:\n    \"\": deep\n"
    verdicts.append(run_case(
        "5a  value under an empty-string key",
        "reported path returns that node and no other",
        doc5, "top.k.*",
        "a path which evaluates to the scalar 'deep'"))
    verdicts.append(run_case(
        "5b  parent() of that value",
        "reported path returns that node and no other",
        doc5, "top.k.*[parent()]",
        "the Hash top.k reported at path top.k"))

    # ---------------------------------------------------------------------
    # Case 6.  Anchored KEY whose Alias is used as a value in the same Hash.
    # Clause violated:  the reported path returns that node and no other --
    # m[&k] is reported for two different nodes ('val' and 'key') and
    # returns both.
    # ---------------------------------------------------------------------
    verdicts.append(run_case(
        "6   anchored key aliased as a sibling's value",
        "reported path returns that node and no other",
        "m:\n  &k key: val\n  other: *k\n", "m[&k]",
        "every reported path to evaluate to one node only (however often"
        " aliased)"))

    print("=" * 78)
    print("{} of {} cases violate the property".format(
        sum(1 for v in verdicts if v), len(verdicts)))
    return 1 if any(verdicts) else 0


if __name__ == "__main__":
    sys.exit(main())
