#!/usr/bin/env python
"""
Stand-alone demonstration of inputs for which yamlpath's Differ / yaml-diff
violate the property

  "A diff is truthful and complete; it is empty of changes iff the data are
   equal"

Run as:  cd /tmp/wt5-C06 && PYTHONPATH=/tmp/wt5-C06 /venv/bin/python demo.py

Only public entry points are used:  yamlpath.common.Parsers, yamlpath.wrappers.
ConsolePrinter, yamlpath.differ.Differ / DifferConfig, yamlpath.Processor (to
read "what the document holds at the entry's path") and the yaml-diff command
(python -m yamlpath.commands.yaml_diff).

Exit status:  1 when at least one case violates the property, 0 otherwise.
"""
import os
import subprocess
import sys
import tempfile
from types import SimpleNamespace

from yamlpath import Processor, YAMLPath
from yamlpath.common import Parsers
from yamlpath.differ import Differ, DifferConfig
from yamlpath.differ.enums import DiffActions
from yamlpath.wrappers import ConsolePrinter

QUIET = SimpleNamespace(quiet=True, verbose=False, debug=False)
TMPDIR = tempfile.mkdtemp(prefix="c06demo")
VIOLATIONS = []
PASSES = []


def load(text):
    """Load one YAML document from text."""
    (data, loaded) = Parsers.get_yaml_data(
        Parsers.get_yaml_editor(), ConsolePrinter(QUIET), text, literal=True)
    assert loaded, "cannot load: " + text
    return data


def tmpfile(name, text):
    path = os.path.join(TMPDIR, name)
    with open(path, "w", encoding="utf-8") as fhnd:
        fhnd.write(text)
    return path


def diff(lhs_text, rhs_text, arrays=None, aoh=None, config=None):
    """Diff two YAML texts through the library; return (lhs, rhs, entries)."""
    args = SimpleNamespace(
        quiet=True, verbose=False, debug=False,
        arrays=arrays, aoh=aoh, config=config)
    log = ConsolePrinter(args)
    lhs = load(lhs_text)
    rhs = load(rhs_text)
    differ = Differ(DifferConfig(log, args), log, lhs)
    differ.compare_to(rhs)
    return lhs, rhs, list(differ.get_report())


def cli(*cli_args):
    """Run the yaml-diff command; return (exit code, stdout+stderr)."""
    proc = subprocess.run(
        [sys.executable, "-m", "yamlpath.commands.yaml_diff"] + list(cli_args),
        stdout=subprocess.PIPE, stderr=subprocess.STDOUT,
        universal_newlines=True, env=os.environ.copy(), check=False)
    return proc.returncode, proc.stdout


def resolve(document, path):
    """What the document holds at a YAML Path."""
    proc = Processor(ConsolePrinter(QUIET), document)
    try:
        return [nc.node for nc in proc.get_nodes(
            YAMLPath(str(path)), mustexist=True)]
    except Exception as ex:  # pylint: disable=broad-except
        return "<{}: {}>".format(type(ex).__name__, ex)


def render(entries):
    if not entries:
        return "    (no entries at all)"
    out = []
    for entry in entries:
        text = str(entry).rstrip("\n").replace("\n", " | ")
        out.append("    {:<7} {}".format(entry.action.name, text))
    return "\n".join(out)


def non_same(entries):
    return [e for e in entries if e.action is not DiffActions.SAME]


def report(label, inputs, demanded, observed, violated):
    print("=" * 78)
    print("CASE {}".format(label))
    print("  input:    {}".format(inputs))
    print("  demanded: {}".format(demanded))
    print("  observed:\n{}".format(observed))
    print("  verdict:  {}".format("VIOLATION" if violated else "ok"))
    (VIOLATIONS if violated else PASSES).append(label)


###############################################################################
# CASE 1 -- clause violated:  "a document compared with itself shows no
# difference" / "CHANGE values differ" / "the diff contains a non-SAME entry
# exactly when the two documents differ as data".
# A scalar (or Hash key, or Set member) which carries a custom YAML tag is
# never equal to its own twin from a second load of the very same text.
###############################################################################
def case_tagged_scalar_self_diff():
    for (sub, text, kwargs) in (
        ("1a tagged scalar value", "a: !foo bar\n", {}),
        ("1b tagged Hash key", "!foo k: v\n", {}),
        ("1c tagged Array element, --arrays value", "a: [!foo x, y]\n",
         {"arrays": "value"}),
        ("1d tagged value within an AoH record, --aoh key",
         "r: [{id: 1, t: !foo x}]\n", {"aoh": "key"}),
        ("1e tagged Set member", "s: !!set {!foo x}\n", {}),
    ):
        (_, _, entries) = diff(text, text, **kwargs)
        report(
            sub,
            "LHS = RHS = {!r} {}".format(text, kwargs),
            "identical documents -> no CHANGE/ADD/DELETE entry",
            render(entries), bool(non_same(entries)))

    # The same through the command, comparing one file with itself
    path = tmpfile("tagged.yaml", "a: !foo bar\n")
    (code, out) = cli(path, path)
    report(
        "1f yaml-diff FILE FILE (one file against itself)",
        "FILE = 'a: !foo bar'",
        "exit status 0 and no output",
        "    exit={}\n    {}".format(code, out.strip().replace("\n", "\n    ")),
        code != 0)


###############################################################################
# CASE 2 -- clause violated:  "a document compared with itself shows no
# difference" / "CHANGE values differ".  A NaN is never the same as itself.
###############################################################################
def case_nan_self_diff():
    text = "a: .nan\n"
    (_, _, entries) = diff(text, text)
    report(
        "2 NaN value",
        "LHS = RHS = {!r}".format(text),
        "identical documents -> no CHANGE/ADD/DELETE entry",
        render(entries), bool(non_same(entries)))


###############################################################################
# CASE 3 -- clause violated:  "In every array mode ... the diff contains a
# non-SAME entry exactly when the two documents differ as data - sequence
# order disregarded in the synchronised modes".
# With --arrays value the order of an Array is disregarded when that Array is
# the child of a Hash, but NOT when the Array is an element of another Array
# nor when it lives in an Array-of-Hashes record that is compared as one unit
# (--aoh position | value | key):  there, elements are paired by a strictly
# positional deep comparison.
###############################################################################
def case_nested_arrays_in_value_mode():
    (_, _, control) = diff("a: [1, 2]\n", "a: [2, 1]\n", arrays="value")
    report(
        "3-control  Array beneath a Hash, --arrays value",
        "LHS='a: [1, 2]'  RHS='a: [2, 1]'",
        "order disregarded -> only SAME entries",
        render(control), bool(non_same(control)))

    for (sub, lhs, rhs, kwargs) in (
        ("3a Array within an Array, --arrays value",
         "[[1, 2]]\n", "[[2, 1]]\n", {"arrays": "value"}),
        ("3b Array in an AoH record, --arrays value --aoh key",
         "[{id: 1, v: [1, 2]}]\n", "[{id: 1, v: [2, 1]}]\n",
         {"arrays": "value", "aoh": "key"}),
        ("3c Array in an AoH record, --arrays value --aoh value",
         "[{id: 1, v: [1, 2]}]\n", "[{id: 1, v: [2, 1]}]\n",
         {"arrays": "value", "aoh": "value"}),
        ("3d Array in an AoH record, --arrays value (default --aoh position)",
         "[{id: 1, v: [1, 2]}]\n", "[{id: 1, v: [2, 1]}]\n",
         {"arrays": "value"}),
    ):
        (_, _, entries) = diff(lhs, rhs, **kwargs)
        report(
            sub, "LHS={!r}  RHS={!r}  {}".format(lhs, rhs, kwargs),
            "the documents are equal once the order of (scalar) Arrays is"
            " disregarded -> only SAME entries (as --aoh deep / dpos report"
            " for the very same input)",
            render(entries), bool(non_same(entries)))


###############################################################################
# CASE 4 -- clause violated:  "SAME values are equal" / "the diff contains a
# non-SAME entry exactly when the two documents differ as data" (type clash).
# An integer and a boolean are reported to be the same value.
###############################################################################
def case_int_vs_bool():
    for (sub, lhs, rhs) in (
        ("4a integer 1 against boolean true", "a: 1\n", "a: true\n"),
        ("4b integer 0 against boolean false", "[0]\n", "[false]\n"),
    ):
        (_, _, entries) = diff(lhs, rhs)
        report(
            sub, "LHS={!r}  RHS={!r}".format(lhs, rhs),
            "an integer is not a boolean -> a CHANGE entry",
            render(entries), not non_same(entries))


###############################################################################
# CASE 5 -- clause violated:  "a SAME/CHANGE/DELETE entry's left value is what
# the left document holds at the entry's path" (and the same for the right).
# A Hash key which starts with & is written into the entry's path unescaped,
# where it means "the node with Anchor a":  the path designates another node
# (or none at all), although \&a would have designated the key.
###############################################################################
def case_ampersand_key():
    lhs_text = 'x: &a 5\n"&a": 1\n'
    rhs_text = 'x: &a 5\n"&a": 2\n'
    (lhs, _, entries) = diff(lhs_text, rhs_text)
    bad = []
    lines = []
    for entry in entries:
        if entry.action in (
            DiffActions.SAME, DiffActions.CHANGE, DiffActions.DELETE
        ):
            held = resolve(lhs, entry.path)
            truthful = (
                isinstance(held, list) and len(held) == 1
                and held[0] == entry.lhs)
            lines.append(
                "    {:<7} path={!s:<5} entry.lhs={!r:<4} LHS document holds"
                " at that path: {!r}{}".format(
                    entry.action.name, entry.path, entry.lhs, held,
                    "" if truthful else "   <-- untrue"))
            if not truthful:
                bad.append(entry)
    lines.append("    (the escaped path \\&a holds: {!r})".format(
        resolve(lhs, "\\&a")))
    report(
        "5 Hash key spelled like an Anchor reference",
        "LHS={!r}  RHS={!r}".format(lhs_text, rhs_text),
        "every entry's left value is what the LHS document holds at the"
        " entry's path",
        "\n".join(lines), bool(bad))


###############################################################################
# CASE 6 -- clause violated:  "the diff contains a non-SAME entry exactly when
# the two documents differ as data" under positional comparison.
# A [rules] entry of the configuration file made for ONE path (/x/l = value)
# is also applied to ANOTHER path (/y/l) whenever the right-hand nodes, their
# parents and their names are merely equal, because rule look-up compares
# nodes with == instead of identity.  /y/l is to be compared by position (the
# default) and [1, 2] -> [2, 1] is then two CHANGEs, yet all is reported SAME.
###############################################################################
def case_rule_leaks_to_equal_node():
    config = tmpfile("rules.ini", "[rules]\n/x/l = value\n")
    lhs_text = "x: {l: [1, 2]}\ny: {l: [1, 2]}\n"
    rhs_text = "x: {l: [2, 1]}\ny: {l: [2, 1]}\n"
    (_, _, entries) = diff(lhs_text, rhs_text, config=config)
    y_changes = [
        e for e in non_same(entries) if str(e.path).startswith("y")]
    rhs_ctl = "x: {l: [2, 1]}\ny: {l: [2, 1], m: 0}\n"
    lhs_ctl = "x: {l: [1, 2]}\ny: {l: [1, 2], m: 0}\n"
    (_, _, control) = diff(lhs_ctl, rhs_ctl, config=config)
    report(
        "6 [rules] /x/l = value leaks to /y/l",
        "config='[rules] /x/l = value'  LHS={!r}  RHS={!r}".format(
            lhs_text, rhs_text),
        "y.l has no rule -> compared by position -> CHANGE y.l[0] and"
        " CHANGE y.l[1] (as in the control below, where y merely has one"
        " more key)",
        render(entries) + "\n    -- control with y: {l: ..., m: 0} --\n"
        + render(control),
        not y_changes)


###############################################################################
# CASE 7 -- clause violated:  "the diff contains a non-SAME entry exactly when
# the two documents differ as data" and "a SAME entry's left value is what
# the left document holds".  yaml-diff turns a document that is the empty
# string into null before comparing.
###############################################################################
def case_cli_empty_string_document():
    lhs = tmpfile("emptystring.yaml", '""\n')
    rhs = tmpfile("null.yaml", "~\n")
    (code, out) = cli("--same", lhs, rhs)
    report(
        "7 yaml-diff of the document \"\" against the document ~",
        "LHS file = '\"\"'  RHS file = '~'",
        "an empty string is not null -> a difference and exit status 1",
        "    exit={}\n    {}".format(code, out.strip().replace("\n", "\n    ")),
        code == 0)


###############################################################################
# CASE 8 -- clause violated:  "In every array mode - ... key-synchronised -
# the diff contains a non-SAME entry exactly when the two documents differ as
# data - sequence order disregarded in the synchronised modes".
# Two records which share their identity key value are paired in document
# order, so merely swapping them yields two CHANGEs.
###############################################################################
def case_duplicate_identity_keys():
    lhs_text = "[{id: 1, v: a}, {id: 1, v: b}]\n"
    rhs_text = "[{id: 1, v: b}, {id: 1, v: a}]\n"
    for aoh in ("key", "deep"):
        (_, _, entries) = diff(lhs_text, rhs_text, aoh=aoh)
        report(
            "8 repeated identity key, records swapped, --aoh {}".format(aoh),
            "LHS={!r}  RHS={!r}".format(lhs_text, rhs_text),
            "same records in another order -> only SAME entries",
            render(entries), bool(non_same(entries)))


###############################################################################
# CASE 9 (lower confidence; YAML Path cannot spell these keys apart) -- clause
# violated:  "a SAME/CHANGE/DELETE entry's left value is what the left
# document holds at the entry's path".
# 9a: the integer key 1 and the text key "1" get the very same path;
# 9b: the empty key gets the path of its parent.
###############################################################################
def case_colliding_key_paths():
    for (sub, lhs_text, rhs_text) in (
        ("9a keys 1 and \"1\" in one Hash",
         "{1: a, '1': b}\n", "{1: a, '1': c}\n"),
        ("9b the empty key", "top: {'': 1}\n", "top: {'': 2}\n"),
    ):
        (lhs, _, entries) = diff(lhs_text, rhs_text)
        bad = []
        lines = []
        for entry in entries:
            held = resolve(lhs, entry.path)
            truthful = (
                isinstance(held, list) and len(held) == 1
                and held[0] == entry.lhs)
            lines.append(
                "    {:<7} path={!s:<5} entry.lhs={!r:<4} LHS document holds"
                " at that path: {!r}{}".format(
                    entry.action.name, entry.path, entry.lhs, held,
                    "" if truthful else "   <-- untrue"))
            if not truthful:
                bad.append(entry)
        report(
            sub, "LHS={!r}  RHS={!r}".format(lhs_text, rhs_text),
            "every entry's left value is what the LHS document holds at the"
            " entry's path",
            "\n".join(lines), bool(bad))


###############################################################################
# CASE 10 (lower confidence; hinges on an empty container being a leaf / an
# element) -- clauses violated:  "every leaf of either document is covered by
# an entry at its path or an ancestor path" and "each left element is
# accounted for exactly once as same, changed or deleted".
# Two equal EMPTY containers produce no entry whatsoever, so --same shows
# nothing for them.
###############################################################################
def case_empty_containers_are_invisible():
    for (sub, text, kwargs) in (
        ("10a positional: a: {} against a: {}", "a: {}\n", {}),
        ("10b --arrays value: [[]] against [[]]", "[[]]\n",
         {"arrays": "value"}),
    ):
        (_, _, entries) = diff(text, text, **kwargs)
        report(
            sub, "LHS = RHS = {!r} {}".format(text, kwargs),
            "one SAME entry covering the empty container (the only leaf /"
            " the only element of the document)",
            render(entries), len(entries) == 0)


def main():
    case_tagged_scalar_self_diff()
    case_nan_self_diff()
    case_nested_arrays_in_value_mode()
    case_int_vs_bool()
    case_ampersand_key()
    case_rule_leaks_to_equal_node()
    case_cli_empty_string_document()
    case_duplicate_identity_keys()
    case_colliding_key_paths()
    case_empty_containers_are_invisible()

    print("=" * 78)
    print("cases violating the property: {}".format(len(VIOLATIONS)))
    for label in VIOLATIONS:
        print("  - " + label)
    print("cases behaving as demanded:   {}".format(len(PASSES)))
    for label in PASSES:
        print("  - " + label)
    sys.exit(1 if VIOLATIONS else 0)


if __name__ == "__main__":
    main()
