#!/usr/bin/env python
"""
Reproduces violations of the property

  "yaml-paths search is sound and complete, and every printed path resolves"

against the code as it is.  Searches are run through the real yaml-paths
command (python -m yamlpath.commands.yaml_paths); every printed path is fed
back, in the notation it was printed in, to the public query API
(yamlpath.Processor.get_nodes) on the same document.

Run as:  cd /tmp/wt5-C07 && PYTHONPATH=/tmp/wt5-C07 /venv/bin/python demo.py
Exit status:  1 when at least one case violates the property, else 0.
"""
import os
import subprocess
import sys
import tempfile
from types import SimpleNamespace

from yamlpath import Processor, YAMLPath
from yamlpath.common import Parsers
from yamlpath.wrappers import ConsolePrinter

LOG = ConsolePrinter(SimpleNamespace(quiet=True, verbose=False, debug=False))
VIOLATIONS = []
CASES = []


def yaml_paths(doc, *args):
    """Run the yaml-paths command on doc; return (rc, [printed paths], stderr)."""
    with tempfile.NamedTemporaryFile(
            "w", suffix=".yaml", delete=False, encoding="utf-8") as fhnd:
        fhnd.write(doc)
        name = fhnd.name
    try:
        res = subprocess.run(
            [sys.executable, "-m", "yamlpath.commands.yaml_paths",
             "--nostdin", "--nofile", *args, name],
            capture_output=True, text=True, check=False)
    finally:
        os.unlink(name)
    # an empty printed path is a legitimate (root) path, so blank output
    # lines are kept
    lines = []
    if res.returncode == 0 and res.stdout:
        lines = res.stdout[:-1].split("\n")
    return res.returncode, lines, res.stderr


def resolve(doc, path):
    """Feed a printed path back into a query; return [(parentref, node)]."""
    yaml = Parsers.get_yaml_editor()
    (data, loaded) = Parsers.get_yaml_data(yaml, LOG, doc, literal=True)
    assert loaded
    proc = Processor(LOG, data)
    try:
        return [(nc.parentref, nc.node)
                for nc in proc.get_nodes(YAMLPath(path), mustexist=True)]
    except Exception as ex:  # pylint: disable=broad-except
        return "%s: %s" % (type(ex).__name__, str(ex).split("\n")[0])


def brief(val):
    text = repr(val)
    return text if len(text) < 150 else text[:147] + "..."


def case(label, clause, doc, args, demand, check):
    """
    Run one case.

    check(paths, resolved, rc, stderr) -> True when the property is VIOLATED.
    """
    rc, paths, err = yaml_paths(doc, *args)
    resolved = [(p, resolve(doc, p)) for p in paths]
    violated = bool(check(paths, resolved, rc, err))
    CASES.append(label)
    print("=" * 78)
    print("CASE %s" % label)
    print("  clause violated : %s" % clause)
    print("  document        : %s" % brief(doc))
    print("  yaml-paths args : %s" % " ".join(args))
    print("  property demands: %s" % demand)
    print("  exit status     : %s" % rc)
    if rc != 0:
        print("  stderr (tail)   : %s" % brief(err.strip().split("\n")[-1]))
    print("  printed paths   : %s" % brief(paths))
    for (path, nodes) in resolved:
        print("     %-22r -> %s" % (path, brief(nodes)))
    print("  verdict         : %s" % ("VIOLATION" if violated else "ok"))
    if violated:
        VIOLATIONS.append(label)


def one_node(resolved, path, parentref, node):
    """True when path was printed and resolves to exactly the given node."""
    for (rpath, nodes) in resolved:
        if rpath == path:
            return (isinstance(nodes, list) and len(nodes) == 1
                    and nodes[0][0] == parentref and nodes[0][1] == node
                    and isinstance(nodes[0][0], str)
                        == isinstance(parentref, str))
    return False


def all_resolve_to_one(resolved):
    return all(isinstance(n, list) and len(n) == 1 for (_, n) in resolved)


# ---------------------------------------------------------------------------
# A.  "Every reported path, fed back into a query on the same document in the
#     notation it was printed in, resolves to exactly the one node that
#     matched"
# ---------------------------------------------------------------------------

# Clause: printed path resolves to exactly the matched node.  A key which
# begins with "&" is printed bare; the query reads it as an Anchor reference.
for sep in (".", "/"):
    case("A1[%s] key beginning with '&'" % sep,
         "printed path resolves to exactly the one node that matched",
         '"&amp": x\nother: n\n', ["-t", sep, "-s", "=x"],
         "one path which resolves to the value of key '&amp'",
         lambda p, r, rc, e: not (len(r) == 1
                                  and one_node(r, p[0], "&amp", "x")))

# Clause: same, for a non-first segment (rendered as top[&amp]).
case("A1b nested key beginning with '&'",
     "printed path resolves to exactly the one node that matched",
     'top:\n  "&amp": x\n', ["-s", "=x"],
     "one path which resolves to top -> '&amp'",
     lambda p, r, rc, e: not (len(r) == 1 and one_node(r, p[0], "&amp", "x")))

# Clause: printed path resolves to exactly ONE node.  "*" in a key is printed
# bare and is read back as a wildcard / generated search.
case("A2a key '*'",
     "printed path resolves to exactly the one node that matched",
     '"*": x\nother: n\n', ["-s", "=x"],
     "one path which resolves only to the value of key '*'",
     lambda p, r, rc, e: not (len(r) == 1 and one_node(r, p[0], "*", "x")))
case("A2b key 'st*ar' beside key 'stXar'",
     "printed path resolves to exactly the one node that matched",
     '"st*ar": x\nstXar: n\n', ["-t", "/", "-s", "=x"],
     "one path which resolves only to the value of key 'st*ar'",
     lambda p, r, rc, e: not (len(r) == 1 and one_node(r, p[0], "st*ar", "x")))

# Clause: completeness (a path for every matching value).  A key holding
# "**" among other characters makes the whole search die with a traceback,
# so not even the unrelated match is reported.
case("A2c key 'a**b' aborts the search",
     "the search reports a path for every value that satisfies the expression",
     'ok: x\n"a**b": x\n', ["-s", "=x"],
     "two paths (ok and the 'a**b' key), exit status 0",
     lambda p, r, rc, e: rc != 0 or len(p) != 2)

# Clause: printed path resolves to the matched node.  An empty-string key
# adds nothing to the path, so the PARENT is what the path designates.
case("A3 empty-string key",
     "printed path resolves to exactly the one node that matched",
     'top:\n  "": x\n  k: n\n', ["-t", "/", "-s", "=x"],
     "one path which resolves to the scalar x under the '' key",
     lambda p, r, rc, e: not (len(r) == 1 and one_node(r, p[0], "", "x")))

# Clause: "... in the notation it was printed in".  With dot notation a first
# key which starts with "/" is printed unescaped, so the printed path is read
# back as forward-slash notation.
case("A4a dot notation, first key '/lead'",
     "printed path (dot notation) resolves to the one node that matched",
     '"/lead": x\nother: n\n', ["-t", ".", "-s", "=x"],
     "one dot-notation path which resolves to the value of key '/lead'",
     lambda p, r, rc, e: not (len(r) == 1 and one_node(r, p[0], "/lead", "x")))
case("A4b dot notation, first key '/'",
     "printed path (dot notation) resolves to the one node that matched",
     '"/": x\nother: n\n', ["-t", ".", "-s", "=x"],
     "one dot-notation path which resolves to the value of key '/'",
     lambda p, r, rc, e: not (len(r) == 1 and one_node(r, p[0], "/", "x")))

# Clause: printed path resolves (scope: non-text keys).  Float, Boolean, null
# and timestamp keys are printed through str() and never found again.
for (ktext, kval) in (("1.5", 1.5), ("true", True), ("null", None)):
    case("A5a non-text key %s" % ktext,
         "printed path resolves to exactly the one node that matched",
         '%s: x\nother: n\n' % ktext, ["-s", "=x"],
         "one path which resolves to the value of the %s key" % ktext,
         lambda p, r, rc, e, kval=kval: not (
             len(r) == 1 and isinstance(r[0][1], list) and len(r[0][1]) == 1
             and r[0][1][0][1] == "x" and r[0][1][0][0] == kval
             and type(r[0][1][0][0]) is type(kval)))
case("A5b timestamp key",
     "printed path resolves to exactly the one node that matched",
     '2020-01-01: x\nother: n\n', ["-s", "=x"],
     "one path which resolves to the value of the date key",
     lambda p, r, rc, e: not (len(r) == 1 and isinstance(r[0][1], list)
                              and len(r[0][1]) == 1 and r[0][1][0][1] == "x"))

# Clause: "a path for every value ... each at most once" + resolves to the
# node that matched.  Integer key 0 and text key "0" both match but are given
# the same path, which designates only one of them.
case("A5c twin keys 0 and \"0\"",
     "a path for every value that satisfies the expression (two distinct "
     "nodes match)",
     '0: x\n"0": x\n', ["-s", "=x"],
     "two paths, one resolving to the value of int key 0, the other to the "
     "value of text key '0'",
     lambda p, r, rc, e: not (len(r) == 2 and all_resolve_to_one(r)
                              and {type(n[0][0]) for (_, n) in r}
                                  == {int, str}))

# Clause: resolves to exactly ONE node / a path for every matching value
# when the alias options ask for aliases.  An aliased repeat in the same list
# as its anchor gets the very same [&name] path.
case("A6a anchor and its alias in one list, --allowaliases",
     "a path for every value incl. aliased repeats when the alias options "
     "ask for them; each path resolves to exactly one node",
     '- &x bye\n- other\n- *x\n', ["-l", "-s", "=bye"],
     "two paths:  one for element 0, one for element 2, each resolving to "
     "one node",
     lambda p, r, rc, e: not (len(r) == 2 and all_resolve_to_one(r)))
case("A6b aliased hash in the same list as its anchor, --anchorsonly",
     "every reported path resolves to exactly the one node that matched",
     'lst:\n  - &h {a: x}\n  - *h\n', ["-A", "-s", "=x"],
     "one path resolving to exactly one node (key a of element 0)",
     lambda p, r, rc, e: not (len(r) == 1 and all_resolve_to_one(r)))

# Clause: printed path resolves.  "=" and "!" are legal in YAML anchor names
# but are not neutralised inside the [&name] segment.
case("A7a anchor name 'a=b'",
     "printed path resolves to exactly the one node that matched",
     'lst:\n  - &a=b hello\n  - other\n', ["-s", "=hello"],
     "one path which resolves to element 0 of lst",
     lambda p, r, rc, e: not (len(r) == 1 and one_node(r, p[0], 0, "hello")))
case("A7b anchor name 'a!b'",
     "printed path resolves to exactly the one node that matched",
     'lst:\n  - &a!b hello\n  - other\n', ["-t", "/", "-s", "=hello"],
     "one path which resolves to element 0 of lst",
     lambda p, r, rc, e: not (len(r) == 1 and one_node(r, p[0], 0, "hello")))

# Clause: printed path resolves (scope: sets, non-text members).
case("A8 integer member of a set",
     "printed path resolves to exactly the one node that matched",
     's: !!set\n  ? 12\n  ? abc\n', ["-s", "=12"],
     "one path which resolves to the set member 12",
     lambda p, r, rc, e: not (len(r) == 1 and isinstance(r[0][1], list)
                              and len(r[0][1]) == 1
                              and r[0][1][0][1] == 12))

# ---------------------------------------------------------------------------
# B.  Soundness / completeness
# ---------------------------------------------------------------------------

# Clause: "reports a path for every value ... and for nothing else".  A set
# which is a LIST ELEMENT is never descended into (its members are missed);
# instead the set as a whole is compared through its Python repr.
case("B1a set as a list element:  member missed",
     "a path for every value that satisfies the expression",
     '- !!set {x, y}\n- {k: !!set {x, y}}\n', ["-s", "=x"],
     "two paths:  member x of the set at [0] and member x of the set at "
     "[1].k",
     lambda p, r, rc, e: len(p) != 2)
case("B1b set as a list element:  the whole set is reported",
     "... and for nothing else; path resolves to the node that matched",
     '- !!set {x, y}\n', ["-s", "%x"],
     "one path which resolves to the member x, not to the set",
     lambda p, r, rc, e: not (len(r) == 1 and isinstance(r[0][1], list)
                              and len(r[0][1]) == 1
                              and r[0][1][0][1] == "x"))

# Clause: "and for nothing else".  Anchor names are to be searched only with
# --refnames, yet a merge reference whose ANCHOR NAME equals the term is
# reported by a plain value search as soon as value aliases are allowed.
case("B2 merge reference matched by anchor name without --refnames",
     "the search reports ... nothing else (anchor names are not searched "
     "without --refnames)",
     'base: &b {k: v}\nd1:\n  <<: *b\n  own: 1\n', ["-y", "-s", "=b"],
     "no path at all:  no value (or key) equals b",
     lambda p, r, rc, e: len(p) != 0)

# Clause: "counting aliased repeats of an anchored node only when the alias
# options ask for them".  --anchorsonly promises to discard aliased values
# "including child nodes";  the children of an aliased hash are reported
# anyway - unless --refnames is also given, which must not matter here.
DOC_B3 = 'a: &h {k: x}\nb: *h\n'
case("B3a children of an aliased hash, --anchorsonly",
     "aliased repeats are counted only when the alias options ask for them",
     DOC_B3, ["-A", "-s", "=x"],
     "only a.k (b is an alias of the anchored hash)",
     lambda p, r, rc, e: p != ["a.k"])
case("B3b same search, with --refnames added (control)",
     "(control:  shows the expected answer; not counted when ok)",
     DOC_B3, ["-A", "-a", "-s", "=x"],
     "only a.k",
     lambda p, r, rc, e: p != ["a.k"])

# Clause: same, for keys.  --anchorsonly promises to discard "all aliased
# keys";  an aliased key is reported by a key-name search anyway.
case("B4 aliased key reported under --anchorsonly",
     "aliased repeats are counted only when the alias options ask for them",
     'defs: [&k kname]\nuse:\n  *k : 1\n', ["-A", "-K", "-s", "=kname"],
     "no path:  the only key named kname is an alias (*k)",
     lambda p, r, rc, e: len(p) != 0)

# Clause: same.  A scalar anchored where it is a KEY and aliased as a VALUE:
# when key names are not searched the key's anchor is never recorded, so the
# alias passes for an original and is reported even under --anchorsonly
# (with -k added, the very same alias is - rightly - left out).
case("B4b alias of a key-anchored scalar reported under --anchorsonly",
     "aliased repeats are counted only when the alias options ask for them",
     '&k kname: 1\nv: *k\n', ["-A", "-s", "=kname"],
     "no path:  the only value equal to kname is an alias (*k)",
     lambda p, r, rc, e: len(p) != 0)

# Clause: "reports a path for every value (and, when key-name search is on,
# every key) that satisfies the expression".  Once a key matches, nothing
# beneath it is searched although expansion is off.
case("B5 matching nodes beneath a matching key are dropped",
     "a path for every value and every key that satisfies the expression",
     'par:\n  parx: 1\n  z: par\n', ["-k", "-s", "^par"],
     "three paths:  key par, key par.parx, value par.z",
     lambda p, r, rc, e: len(p) != 3)

# Clause: "with expansion on, a matched parent is replaced by exactly its
# leaf descendants".  A set-valued parent is left unexpanded.
case("B6 --expand leaves a set-valued parent unexpanded",
     "with expansion on, a matched parent is replaced by exactly its leaf "
     "descendants",
     's: !!set {x, y}\n', ["-m", "-K", "-s", "=s", "-t", "/"],
     "the leaf members /s/x and /s/y, not the parent /s",
     lambda p, r, rc, e: sorted(p) != ["/s/x", "/s/y"])

# Clause: completeness over "all documents".  A document which is a lone
# scalar is never searched.
case("B7 scalar document",
     "a path for every value that satisfies the expression",
     'hello\n', ["-t", "/", "-s", "=hello"],
     "one path (the root, /) for the matching scalar",
     lambda p, r, rc, e: len(p) != 1)

# Clause: "every value that satisfies the expression ... and nothing else".
# Text values are put through Python literal evaluation before the textual
# operators are applied, so the text tested is not the text in the document.
case("B8a starts-with on text spelled like a hex number",
     "a path for every value that satisfies the expression",
     'a: "0x10"\n', ["-s", "^0x"],
     "path a (the text 0x10 starts with 0x)",
     lambda p, r, rc, e: p != ["a"])
case("B8b contains on text '...'",
     "... and for nothing else",
     'u: "..."\n', ["-s", "%Ell"],
     "no path (the text ... does not contain Ell)",
     lambda p, r, rc, e: len(p) != 0)
case("B8c starts-with 'Tr' on text 'true'",
     "... and for nothing else",
     'c: "true"\n', ["-s", "^Tr"],
     "no path (the text true does not start with Tr)",
     lambda p, r, rc, e: len(p) != 0)

print("=" * 78)
print("%d of %d cases violate the property:" % (len(VIOLATIONS), len(CASES)))
for label in VIOLATIONS:
    print("  - " + label)
sys.exit(1 if VIOLATIONS else 0)
