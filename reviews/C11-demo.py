#!/usr/bin/env python
"""
Demonstrations: "A merge aimed at a path changes only what lies under that path".

Run as:  cd /tmp/wt5-C11 && PYTHONPATH=/tmp/wt5-C11 /venv/bin/python demo.py

Every case is run in a child process (some of them crash or never return) and
uses only the public library (Merger, MergerConfig, Processor) or the
yaml-merge command entry point (yamlpath.commands.yaml_merge.main).

Exit status: 1 when at least one case violates the property, else 0.
"""
import io
import json
import os
import resource
import subprocess
import sys
import tempfile
from types import SimpleNamespace

TIMEOUT = 15
HERE = os.path.dirname(os.path.abspath(__file__))


###############################################################################
# Child-side helpers (library entry points only)
###############################################################################
def lib_merge(ltxt, rtxts, mergeat, **opts):
    """Merge one or more right-hand documents into ltxt at mergeat."""
    from yamlpath.common import Parsers
    from yamlpath.wrappers import ConsolePrinter
    from yamlpath.merger import Merger, MergerConfig
    from yamlpath.merger.exceptions import MergeException
    from yamlpath.exceptions import YAMLPathException

    if isinstance(rtxts, str):
        rtxts = [rtxts]
    args = SimpleNamespace(
        mergeat=mergeat, quiet=True, verbose=False, debug=False, **opts)
    log = ConsolePrinter(args)
    yaml = Parsers.get_yaml_editor()
    merger = Merger(log, yaml.load(ltxt), MergerConfig(log, args))
    try:
        for rtxt in rtxts:
            merger.merge_with(Parsers.get_yaml_editor().load(rtxt))
    except (MergeException, YAMLPathException) as ex:
        return {"status": "merge-error", "detail": str(ex)}
    except Exception as ex:  # pylint: disable=broad-except
        return {"status": "crash",
                "detail": "{}: {}".format(type(ex).__name__, ex)}

    try:
        buf = io.StringIO()
        Parsers.get_yaml_editor().dump(merger.data, buf)
        text = buf.getvalue()
    except Exception as ex:  # pylint: disable=broad-except
        return {"status": "dump-crash",
                "detail": "{}: {}".format(type(ex).__name__, ex)}
    return {"status": "ok", "yaml": text,
            "data": json.loads(json.dumps(
                Parsers.jsonify_yaml_data(
                    Parsers.get_yaml_editor().load(text)), default=str))}


def child_main(spec_json):
    """Run one library merge in this (child) process; print a JSON result."""
    spec = json.loads(spec_json)
    lim = 1536 * 1024 * 1024
    resource.setrlimit(resource.RLIMIT_AS, (lim, lim))
    try:
        res = lib_merge(spec["L"], spec["R"], spec["at"], **spec["opts"])
    except MemoryError:
        res = {"status": "crash", "detail": "MemoryError (runaway merge)"}
    sys.stdout.write("\n@@RESULT@@" + json.dumps(res))


###############################################################################
# Parent-side helpers
###############################################################################
def run_lib(ltxt, rtxt, mergeat, **opts):
    """Run a library merge in a child process, surviving hangs."""
    spec = json.dumps({"L": ltxt, "R": rtxt, "at": mergeat, "opts": opts})
    env = dict(os.environ, PYTHONPATH=HERE)
    try:
        proc = subprocess.run(
            [sys.executable, os.path.abspath(__file__), "--child", spec],
            capture_output=True, text=True, env=env, timeout=TIMEOUT,
            check=False)
    except subprocess.TimeoutExpired:
        return {"status": "hang",
                "detail": "no result after {}s".format(TIMEOUT)}
    if "@@RESULT@@" not in proc.stdout:
        return {"status": "crash", "detail":
                (proc.stderr.strip().splitlines() or ["?"])[-1]}
    return json.loads(proc.stdout.split("@@RESULT@@", 1)[1])


def run_cli(files, *cli_args, overwrite_existing=False):
    """Run the yaml-merge command entry point on temporary files."""
    tmpdir = tempfile.mkdtemp(prefix="c11demo")
    paths = []
    for idx, text in enumerate(files):
        path = os.path.join(tmpdir, "doc{}.yaml".format(idx))
        with open(path, "w", encoding="utf-8") as fhnd:
            fhnd.write(text)
        paths.append(path)
    extra = []
    outfile = os.path.join(tmpdir, "out.yaml")
    if overwrite_existing:
        with open(outfile, "w", encoding="utf-8") as fhnd:
            fhnd.write("precious: original\n")
        extra = ["--overwrite", outfile]
    env = dict(os.environ, PYTHONPATH=HERE)
    try:
        proc = subprocess.run(
            [sys.executable, "-c",
             "from yamlpath.commands.yaml_merge import main; main()",
             "--nostdin", *cli_args, *extra, *paths],
            capture_output=True, text=True, env=env, timeout=TIMEOUT,
            check=False)
    except subprocess.TimeoutExpired:
        return {"rc": None, "out": "", "err": "TIMEOUT", "file": None}
    filetext = None
    if overwrite_existing and os.path.exists(outfile):
        with open(outfile, encoding="utf-8") as fhnd:
            filetext = fhnd.read()
    errlines = proc.stderr.strip().splitlines()
    return {"rc": proc.returncode, "out": proc.stdout,
            "err": errlines[-1] if errlines else "", "file": filetext}


def load_plain(text):
    """Parse YAML text to plain data (for comparisons)."""
    from yamlpath.common import Parsers
    return json.loads(json.dumps(Parsers.jsonify_yaml_data(
        Parsers.get_yaml_editor().load(text)), default=str))


VIOLATIONS = []


def report(label, clause, inputs, demanded, observed, violated):
    """Print one case."""
    print("=" * 78)
    print("CASE {}".format(label))
    print("  clause   : {}".format(clause))
    for key, val in inputs:
        print("  {:<9}: {!r}".format(key, val))
    print("  demanded : {}".format(demanded))
    print("  observed : {}".format(observed))
    print("  verdict  : {}".format("VIOLATION" if violated else "ok"))
    if violated:
        VIOLATIONS.append(label)


def obs(res):
    """Summarize a run_lib result."""
    if res["status"] == "ok":
        return "merged -> " + json.dumps(res["data"])
    return "{} ({})".format(res["status"], res["detail"][:160])


###############################################################################
# The cases
###############################################################################
def case_1a():
    # CLAUSE: "everything outside the matched subtrees is unchanged".
    # A Scalar merged at /e rewrites an unrelated Set elsewhere in the left
    # document: the Set loses the old value of /e and gains the new one.
    left, right, at = "e: 5\ns: !!set {5, y}\n", "7", "/e"
    res = run_lib(left, right, at)
    want = {"e": 7, "s": load_plain(left)["s"]}
    report("1a scalar merge rewrites an unrelated Set",
           "everything outside the matched subtrees is unchanged",
           [("left", left), ("right", right), ("mergeat", at)],
           "only /e changes: " + json.dumps(want), obs(res),
           not (res["status"] == "ok" and res["data"] == want))


def case_1b():
    # CLAUSE: "each node the path matches becomes the ... merge" / "a missing
    # target path is created to hold the right-hand document".
    # Same defect, other face: when the unrelated Set does not hold the old
    # value, the merge dies with an uncaught KeyError (existing target /e and
    # missing, creatable target /z alike).
    left, right = "e: 5\ns: !!set {x, y}\n", "7"
    for at, want in (("/e", {"e": 7, "s": {"x": None, "y": None}}),
                     ("/z", {"e": 5, "s": {"x": None, "y": None}, "z": 7})):
        res = run_lib(left, right, at)
        report("1b scalar merge at {} with a Set elsewhere in the left"
               " document".format(at),
               "matched node becomes the merge / missing path is created",
               [("left", left), ("right", right), ("mergeat", at)],
               json.dumps(want), obs(res),
               not (res["status"] == "ok" and res["data"] == want))


def case_2a():
    # CLAUSE: "each node the path matches becomes the policy-defined merge of
    # its old content with the right-hand document".
    # The path matches two Hashes.  Both receive THE SAME right-hand child
    # object, so the next right-hand document is merged into that shared
    # child once per match:  a.x should be [1] + [2] = [1, 2], it is [1,2,2];
    # merging "into /a" also altered /d/x.  (command entry point)
    files = ["a:\n  k: 1\nd:\n  k: 2\n", "x: [1]\n", "x: [2]\n"]
    res = run_cli(files, "--mergeat=/*")
    want = {"a": {"k": 1, "x": [1, 2]}, "d": {"k": 2, "x": [1, 2]}}
    got = None
    if res["rc"] == 0:
        got = load_plain(res["out"])
    report("2a two matches share one right-hand node (yaml-merge -m '/*'"
           " L R1 R2)",
           "each matched node becomes merge(old content, right document)",
           [("left", files[0]), ("right#1", files[1]), ("right#2", files[2]),
            ("mergeat", "/*")],
           json.dumps(want),
           "rc={} {}".format(res["rc"], json.dumps(got) if got else res["err"]),
           got != want)


def case_2b():
    # Same defect within ONE right-hand file (multi-document stream) and a
    # search path which creates the missing key under every match.
    files = ["a:\n  k: 1\nd:\n  k: 2\n", "---\n[7]\n---\n[8]\n"]
    res = run_cli(files, "--mergeat=/[.!=zz]/n")
    want = {"a": {"k": 1, "n": [7, 8]}, "d": {"k": 2, "n": [7, 8]}}
    got = load_plain(res["out"]) if res["rc"] == 0 else None
    report("2b created path under two matches holds one shared node",
           "missing path created to hold the right document; each match"
           " merged once",
           [("left", files[0]), ("right", files[1]),
            ("mergeat", "/[.!=zz]/n")],
           json.dumps(want),
           "rc={} {}".format(res["rc"], json.dumps(got) if got else res["err"]),
           got != want)


def case_2c():
    # CLAUSE: "each node the path matches becomes the ... merge".
    # The left document holds an aliased Hash, so /* matches the same Hash
    # twice.  The first pass stores the right-hand list itself; the second
    # pass appends that list to itself, forever.
    left, right, at = "l: &l {k: 1}\na: *l\n", "x: [9]\n", "/*"
    res = run_lib(left, right, at)
    report("2c aliased Hash matched twice: the merge never returns",
           "each matched node becomes merge(old content, right document)",
           [("left", left), ("right", right), ("mergeat", at)],
           "a finite result, e.g. l == a == {k: 1, x: [9]} (or x: [9, 9])",
           obs(res), res["status"] != "ok")


def case_3():
    # CLAUSE: "each node the path matches becomes the ... merge ... and
    # everything outside the matched subtrees is unchanged".
    # The wildcard matches the three children (non-text keys).  None of them
    # is changed; three NEW text keys appear beside them.
    left, right, at = "h:\n  true: a\n  null: b\n  1.5: c\n", "7", "/h/*"
    res = run_lib(left, right, at)
    want = load_plain("h:\n  true: 7\n  null: 7\n  1.5: 7\n")
    report("3 scalar merge at /h/* with Boolean/null/Float keys",
           "each matched node becomes the merge; nothing else changes",
           [("left", left), ("right", right), ("mergeat", at)],
           json.dumps(want),
           (res.get("yaml", "").replace("\n", " | ")
            if res["status"] == "ok" else obs(res)),
           not (res["status"] == "ok" and res["data"] == want))


def case_4a():
    # CLAUSE: "everything outside the matched subtrees is unchanged".
    # The path /\&x matches only the key spelled "&x" (Processor.get_nodes
    # agrees); the merge leaves it alone and changes the node ANCHORED &x.
    from yamlpath import Processor
    from yamlpath.wrappers import ConsolePrinter
    from yamlpath.common import Parsers
    left, right, at = '"&x": 1\nother: &x 2\n', "7", "/\\&x"
    log = ConsolePrinter(SimpleNamespace(quiet=True, verbose=False,
                                         debug=False))
    matched = [str(n.path) + "=" + str(n.node) for n in Processor(
        log, Parsers.get_yaml_editor().load(left)).get_nodes(
            at, mustexist=True)]
    res = run_lib(left, right, at)
    want = {"&x": 7, "other": 2}
    report("4a key spelled like an Anchor (path matches {})".format(matched),
           "matched node becomes the merge; everything else unchanged",
           [("left", left), ("right", right), ("mergeat", at)],
           json.dumps(want), obs(res),
           not (res["status"] == "ok" and res["data"] == want))


def case_4b():
    # Same re-parsing of the matched node's own path: a key spelled "*".
    # /** matches the leaves a.b and "*"; the Hash /a is replaced by 7.
    left, right, at = 'a: {b: 1}\n"*": 1\n', "7", "/**"
    res = run_lib(left, right, at)
    want = {"a": {"b": 7}, "*": 7}
    report("4b key spelled like the wildcard",
           "each matched (leaf) node becomes the merge; /a stays a Hash",
           [("left", left), ("right", right), ("mergeat", at)],
           json.dumps(want), obs(res),
           not (res["status"] == "ok" and res["data"] == want))


def case_4c():
    # Same family: the empty key.  /* matches both children; the empty key's
    # value is not merged although success is reported.
    left, right, at = '"": 1\nother: 2\n', "7", "/*"
    res = run_lib(left, right, at)
    want = {"": 7, "other": 7}
    report("4c empty key under a wildcard",
           "each matched node becomes the merge",
           [("left", left), ("right", right), ("mergeat", at)],
           json.dumps(want), obs(res),
           not (res["status"] == "ok" and res["data"] == want))


def case_5():
    # CLAUSE: "each node the path matches becomes the ... merge" (right
    # document whose root is a tagged Scalar) -- and the command leaves a
    # PARTIAL write-out: the existing --overwrite file is truncated to "---\nh".
    files = ["h:\n  k: a\n", "!other 7\n"]
    res = run_cli(files, "--mergeat=/h/k", overwrite_existing=True)
    lib = run_lib(files[0], files[1], "/h/k")
    ok_file = res["file"] is not None and (
        res["file"] == "precious: original\n"
        or (res["rc"] == 0 and "!other 7" in res["file"]))
    report("5 tagged Scalar right document at an existing Scalar",
           "matched node becomes the right document; no partial write-out",
           [("left", files[0]), ("right", files[1]), ("mergeat", "/h/k")],
           "h: {k: !other 7} written (or a merge error and the output file"
           " untouched)",
           "library: {}; command rc={} ({}); output file now {!r}".format(
               lib["status"], res["rc"], res["err"][:70], res["file"]),
           not (lib["status"] == "ok" and ok_file))


def case_6():
    # CLAUSE: "each node the path matches becomes the ... merge".
    # /a/k exists (inherited through a YAML merge key, value 1) and is
    # matched; the merge reports success and changes nothing at all.
    left = "base: &b {k: 1}\na:\n  <<: *b\n  own: 1\n"
    right, at = "7", "/a/k"
    res = run_lib(left, right, at)
    before = load_plain(left)
    changed = res["status"] == "ok" and res["data"]["a"]["k"] == 7
    report("6 target inherited through a YAML merge key",
           "each matched node becomes the merge",
           [("left", left), ("right", right), ("mergeat", at)],
           "/a/k reads 7 afterwards (or a merge error)",
           obs(res) + (" [identical to the left document]"
                       if res.get("data") == before else ""),
           not (changed or res["status"] == "merge-error"))


def case_7a():
    # CLAUSE: "each node the path matches becomes the policy-defined merge of
    # its old content with the right-hand document".
    # /g[0] and /g/* append the Scalar to each matched Array; the slice
    # /g[0:2] (same two nodes) REPLACES the Arrays.
    left, right = "g: [[1], [2], [3]]\n", "7"
    res_star = run_lib("g: [[1], [2]]\n", right, "/g/*")
    res = run_lib(left, right, "/g[0:2]")
    want = {"g": [[1, 7], [2, 7], [3]]}
    report("7a slice target: Arrays replaced instead of merged",
           "matched node becomes merge(old content, right document)",
           [("left", left), ("right", right), ("mergeat", "/g[0:2]")],
           json.dumps(want) + "  (cf. /g/* on [[1],[2]]: "
           + obs(res_star) + ")",
           obs(res),
           not (res["status"] == "ok" and res["data"] == want))


def case_7b():
    # /f[1] is a Hash and takes the right-hand Hash; /f[1:2] (the same one
    # node) is refused as a "Scalar destination".
    left, right = "f: [{id: 1}, {id: 2}, {id: 3}]\n", "x: 9\n"
    res_idx = run_lib(left, right, "/f[1]")
    res = run_lib(left, right, "/f[1:2]")
    want = {"f": [{"id": 1}, {"id": 2, "x": 9}, {"id": 3}]}
    report("7b slice target: a matched Hash is refused as a Scalar",
           "matched node becomes merge(old content, right document)",
           [("left", left), ("right", right), ("mergeat", "/f[1:2]")],
           json.dumps(want) + "  (cf. /f[1]: " + obs(res_idx) + ")",
           obs(res),
           not (res["status"] == "ok" and res["data"] == want))


def case_7c():
    # CLAUSE: "A path that matches nothing and cannot be created yields a
    # merge error".  An out-of-range slice with a Scalar right document dies
    # with an uncaught IndexError instead.
    left, right, at = "c: [1, 2]\n", "7", "/c[9:12]"
    res = run_lib(left, right, at)
    report("7c out-of-range slice: IndexError instead of a merge error",
           "a path that matches nothing and cannot be created yields a merge"
           " error",
           [("left", left), ("right", right), ("mergeat", at)],
           "a MergeException / YAMLPathException", obs(res),
           res["status"] != "merge-error")


def case_8():
    # CLAUSE: "each node the path matches becomes the policy-defined merge of
    # its old content with the right-hand document" (lower confidence: the
    # two matches are one aliased node; it is merged twice).
    left, right, at = "l: &l [1]\na: *l\n", "[7]\n", "/*"
    res = run_lib(left, right, at)
    want = {"l": [1, 7], "a": [1, 7]}
    report("8 aliased Array matched twice is merged twice",
           "each matched node becomes merge(old content, right document)",
           [("left", left), ("right", right), ("mergeat", at)],
           json.dumps(want), obs(res),
           not (res["status"] == "ok" and res["data"] == want))


def case_9():
    # CLAUSE: "a missing target path is created to hold the right-hand
    # document, and everything outside the matched subtrees is unchanged"
    # (lower confidence: the filler elements needed to reach the new index
    # are further copies of the right-hand document, not nulls).
    left, right, at = "a:\n  c:\n    - 1\n    - 2\n", "x: 9\n", "/a/c[4]"
    res = run_lib(left, right, at)
    want = {"a": {"c": [1, 2, None, None, {"x": 9}]}}
    report("9 creating /a/c[4] also fills /a/c[2] and /a/c[3] with the right"
           " document",
           "only the missing target path holds the right document",
           [("left", left), ("right", right), ("mergeat", at)],
           json.dumps(want), obs(res),
           not (res["status"] == "ok" and res["data"] == want))


def main():
    for case in (case_1a, case_1b, case_2a, case_2b, case_2c, case_3,
                 case_4a, case_4b, case_4c, case_5, case_6, case_7a, case_7b,
                 case_7c, case_8, case_9):
        case()
    print("=" * 78)
    print("{} violating case(s): {}".format(
        len(VIOLATIONS), "; ".join(v.split(" ")[0] for v in VIOLATIONS)))
    sys.exit(1 if VIOLATIONS else 0)


if __name__ == "__main__":
    if len(sys.argv) > 2 and sys.argv[1] == "--child":
        child_main(sys.argv[2])
    else:
        main()
