#!/usr/bin/env python
"""
Demonstrations against the property

  "A set changes exactly the matched nodes (and their aliases), nothing else;
   ... the edited document always serializes to YAML which reloads (with
   yamlpath's own strict loader) to the same data."

Run as:  cd /tmp/wt7-C03 && PYTHONPATH=/tmp/wt7-C03 /venv/bin/python demo.py
Exit status 1 when at least one counted case violates the property.

Only public entry points are used:  yamlpath.Processor.get_nodes / set_value,
yamlpath.common.Parsers (the project's own loader / editor) and the yaml-set
command (yamlpath.commands.yaml_set.main) through a child process.
"""
import io
import os
import subprocess
import sys
import tempfile
import traceback
from types import SimpleNamespace

from yamlpath import Processor
from yamlpath.common import Parsers
from yamlpath.wrappers import ConsolePrinter, NodeCoords

LOG = ConsolePrinter(SimpleNamespace(quiet=True, verbose=False, debug=False))
LOG.error = lambda *a, **k: None        # keep loader complaints off the screen


# --------------------------------------------------------------------------
# helpers
# --------------------------------------------------------------------------
def load(text):
    """Load with yamlpath's own (strict) loader."""
    yaml = Parsers.get_yaml_editor()
    data, ok = Parsers.get_yaml_data(yaml, LOG, text, literal=True)
    return yaml, data, ok


def dump(yaml, data):
    buf = io.StringIO()
    yaml.dump(data, buf)
    return buf.getvalue()


def plain(node):
    """Plain-data rendition of a document (ordered, typed)."""
    if isinstance(node, dict):
        return {"map": [(plain(k), plain(v)) for k, v in node.items()]}
    if isinstance(node, list):
        return [plain(x) for x in node]
    if node is None:
        return None
    if isinstance(node, bool) or type(node).__name__ == "ScalarBoolean":
        return bool(node)
    if isinstance(node, int):
        return int(node)
    if isinstance(node, float):
        return float(node)
    return str(node)


def matched_scalars(proc, path):
    """What the path matches, as get_nodes (mustexist) reports it."""
    found = []

    def flat(nc):
        if isinstance(nc.node, NodeCoords):
            flat(nc.node)
        elif (isinstance(nc.node, list) and nc.node
              and isinstance(nc.node[0], NodeCoords)):
            for sub in nc.node:
                flat(sub)
        else:
            found.append(plain(nc.node))
    for nc in proc.get_nodes(path, mustexist=True):
        flat(nc)
    return found


def yaml_set_cli(text, *args):
    """Run the yaml-set command on a temporary file; return rc, file text."""
    tmpdir = tempfile.mkdtemp(prefix="c03demo")
    fname = os.path.join(tmpdir, "doc.yaml")
    with open(fname, "w", encoding="utf-8") as fhnd:
        fhnd.write(text)
    proc = subprocess.run(
        [sys.executable, "-c",
         "import sys; sys.argv[0]='yaml-set';"
         "from yamlpath.commands.yaml_set import main; main()",
         "--nostdin", *args, fname],
        stdin=subprocess.DEVNULL, stdout=subprocess.PIPE,
        stderr=subprocess.PIPE, text=True, env=dict(os.environ))
    with open(fname, "r", encoding="utf-8") as fhnd:
        after = fhnd.read()
    last_err = proc.stderr.strip().splitlines()[-1:] or [""]
    return proc.returncode, after, last_err[0]


RESULTS = []


def case(label, counted=True):
    def deco(func):
        print("=" * 78)
        print(("CASE " if counted else "INFO ") + label)
        print("-" * 78)
        try:
            violated = bool(func())
        except Exception:                   # a demo bug must not hide others
            traceback.print_exc()
            violated = False
        if counted:
            verdict = "VIOLATION" if violated else "no violation"
        else:
            verdict = ("observed as described" if violated
                       else "not observed") + "  (informational, not counted)"
        print("-> " + verdict)
        RESULTS.append((label, counted, violated))
        return func
    return deco


def show_lib(text, path, value, expected, **kwargs):
    """Apply one library set_value; report and judge against `expected`."""
    yaml, data, _ = load(text)
    proc = Processor(LOG, data)
    print("input document:")
    print("   " + text.rstrip().replace("\n", "\n   "))
    print("path            : %s" % path)
    try:
        print("path matches    : %r (per get_nodes)"
              % matched_scalars(proc, path))
    except Exception as ex:
        print("path matches    : get_nodes raised %r" % ex)
    print("new value       : %r %s" % (value, kwargs or ""))
    print("property demands: %r" % (expected,))
    raised = None
    try:
        proc.set_value(path, value, **kwargs)
    except Exception as ex:
        raised = ex
        print("set_value raised: %s: %s" % (type(ex).__name__, ex))
    observed = plain(proc.data)
    print("document now    : %r" % (observed,))
    bad = observed != expected
    out = None
    try:
        out = dump(yaml, proc.data)
        print("serialized      : %r" % out)
    except Exception as ex:
        print("serializing raised %s: %s" % (type(ex).__name__, ex))
        bad = True
    if out is not None:
        _, redata, ok = load(out)
        if not ok:
            print("reload          : REFUSED by yamlpath's loader")
            bad = True
        else:
            print("reload          : %r" % (plain(redata),))
            if plain(redata) != expected:
                bad = True
    return bad


# --------------------------------------------------------------------------
# 1. Collector around a slice which does not start at element 0
# Clause violated: "every other ... element ... of the document is exactly as
# before" -- an element the path did not match is overwritten.
# --------------------------------------------------------------------------
@case("1. (l[1:3]) -- Collector around a slice: an unmatched element changes")
def _():
    return show_lib(
        "l: [a, b, c, d]\n", "(l[1:3])", "NEW",
        {"map": [("l", ["a", "NEW", "NEW", "d"])]}, mustexist=True)


# --------------------------------------------------------------------------
# 2. Collector around a nested Array, then an index
# Clauses violated: "every node the path matched ... holds the new value"
# (ll[1][0] keeps e3) AND "every other ... element ... exactly as before"
# (the whole Array ll[0] is replaced by the scalar).
# --------------------------------------------------------------------------
@case("2. (ll[1])[0] -- Collector around a nested Array: the wrong node is "
      "replaced, the matched one is not")
def _():
    return show_lib(
        "ll:\n  - [e1, e2]\n  - [e3, e4]\n", "(ll[1])[0]", "NEW",
        {"map": [("ll", [["e1", "e2"], ["NEW", "e4"]])]}, mustexist=True)


# --------------------------------------------------------------------------
# 3. Collector around an Array which is the child of a Hash
# Clause violated: "every node the path matched ... holds the new value" --
# get_nodes matches the scalar, set_value dies with a bare KeyError.
# --------------------------------------------------------------------------
@case("3. (m.n)[0] -- Collector around an Array under a Hash: KeyError, "
      "nothing is set")
def _():
    return show_lib(
        "m:\n  n: [p, q]\n", "(m.n)[0]", "NEW",
        {"map": [("m", {"map": [("n", ["NEW", "q"])]})]}, mustexist=True)


# --------------------------------------------------------------------------
# 4. value_format=folded and a new value which ends with a space
# Clause violated: "the edited document always serializes to YAML" -- the
# document can no longer be dumped (IndexError from the fold positions that
# Nodes.make_new_node computes); through yaml-set the target file is left
# EMPTY, i.e. every other key and value is lost.
# --------------------------------------------------------------------------
@case("4a. folded format + value with a trailing space: the document cannot "
      "be serialized")
def _():
    return show_lib(
        "a: x\nb: keep\n", "a", "x ",
        {"map": [("a", "x "), ("b", "keep")]}, value_format="folded")


@case("4b. same through yaml-set: the file is truncated to nothing")
def _():
    text = "a: x\nb: keep\n"
    rcode, after, err = yaml_set_cli(
        text, "--change=a", "--value=x ", "--format=folded")
    print("input file      : %r" % text)
    print("command         : yaml-set --change=a --value='x ' "
          "--format=folded FILE")
    print("property demands: a == 'x ', b == 'keep' (or, on refusal, an "
          "untouched file)")
    print("exit status     : %d   (%s)" % (rcode, err))
    print("file afterwards : %r" % after)
    _, data, ok = load(after) if after else (None, None, True)
    return (not ok) or plain(data) != {"map": [("a", "x "), ("b", "keep")]}


# --------------------------------------------------------------------------
# 5. value_format=literal (or folded) and a value starting with a space / a
#    line break
# Clause violated: "serializes to YAML which reloads ... to the same data" --
# the block scalar is written with indentation indicator 4 but indented by 2;
# yamlpath's loader refuses the result.
# --------------------------------------------------------------------------
@case("5. literal format + value with a leading space: output does not "
      "reload")
def _():
    return show_lib(
        "a: x\nb: keep\n", "a", " x",
        {"map": [("a", " x"), ("b", "keep")]}, value_format="literal")


# --------------------------------------------------------------------------
# 6. value_format=folded on a node inside a flow-style container
# Clause violated: "reloads ... to the same data" -- BEL characters (\a) are
# written into the value at every fold position.
# --------------------------------------------------------------------------
@case("6. folded format inside a flow mapping: BEL characters are written "
      "into the value")
def _():
    return show_lib(
        "m: {a: x, b: keep}\n", "m.a", "p q",
        {"map": [("m", {"map": [("a", "p q"), ("b", "keep")]})]},
        value_format="folded")


# --------------------------------------------------------------------------
# 7. default format, text starting with "?" or ": " set inside a flow-style
#    container
# Clause violated: "reloads ... to the same data" -- the text is written
# unquoted; "?x" reloads as the mapping {x: null}, ": x" does not reload.
# --------------------------------------------------------------------------
@case("7a. value '?x' into a flow sequence: reloads as a mapping")
def _():
    return show_lib(
        "l: [x, keep]\n", "l[0]", "?x",
        {"map": [("l", ["?x", "keep"])]})


@case("7b. value ': x' into a flow mapping: output does not reload")
def _():
    return show_lib(
        "m: {a: x, b: keep}\n", "m.a", ": x",
        {"map": [("m", {"map": [("a", ": x"), ("b", "keep")]})]})


# --------------------------------------------------------------------------
# 8. An anchored scalar and the new text "None" (likewise "(1,2)", "1j",
#    "b'x'", "...", "{1}")
# Clause violated: "every node the path matched - and every alias ... - holds
# the new value" -- a bare TypeError escapes; without the anchor the very
# same set works (the text is stored).
# --------------------------------------------------------------------------
@case("8. anchored scalar + new text 'None': TypeError, nothing is set")
def _():
    print("(control: the same set on an un-anchored node)")
    show_lib("a: x\n", "a", "None", {"map": [("a", "None")]})
    print()
    return show_lib(
        "a: &A x\nb: *A\n", "b", "None",
        {"map": [("a", "None"), ("b", "None")]}, mustexist=True)


# --------------------------------------------------------------------------
# 9. new value containing NEL (U+0085), default format
# Clause violated: "reloads ... to the same data" -- written single-quoted
# with a raw line break; reloads as " ".
# --------------------------------------------------------------------------
@case("9. value containing U+0085 (NEL): reloads as a different string")
def _():
    return show_lib(
        "a: x\nb: keep\n", "a", "p\x85q",
        {"map": [("a", "p\x85q"), ("b", "keep")]})


# --------------------------------------------------------------------------
# 10. YAML Merge Keys (scope-borderline: "all documents")
# 10a Clause violated: "every node the path matched ... holds the new value"
#     -- d.k (inherited through <<) is matched, mustexist=True succeeds, and
#     nothing at all changes.
# 10b Clause violated: "serializes to YAML which reloads ... to the same
#     data" -- after setting base.k the in-memory d.k still shows the old
#     value while the serialized document says otherwise.
# --------------------------------------------------------------------------
@case("10a. set of a key inherited through a YAML Merge Key: silent no-op")
def _():
    text = "base: &B\n  k: x\nd:\n  <<: *B\n  own: x\n"
    yaml, data, _ = load(text)
    proc = Processor(LOG, data)
    print("input document:\n   " + text.rstrip().replace("\n", "\n   "))
    print("path d.k matches: %r" % matched_scalars(proc, "d.k"))
    proc.set_value("d.k", "NEW", mustexist=True)
    print("property demands: d.k == 'NEW' afterwards (no error was raised)")
    out = dump(yaml, proc.data)
    _, redata, _ = load(out)
    print("in memory  d.k  : %r" % plain(proc.data["d"]["k"]))
    print("serialized      : %r" % out)
    print("reloaded   d.k  : %r" % plain(redata["d"]["k"]))
    return plain(proc.data["d"]["k"]) != "NEW" or plain(
        redata["d"]["k"]) != "NEW"


@case("10b. set of the merged-in source: memory and serialization disagree")
def _():
    text = "base: &B\n  k: x\nd:\n  <<: *B\n"
    yaml, data, _ = load(text)
    proc = Processor(LOG, data)
    print("input document:\n   " + text.rstrip().replace("\n", "\n   "))
    proc.set_value("base.k", "NEW", mustexist=True)
    out = dump(yaml, proc.data)
    _, redata, _ = load(out)
    print("after set base.k=NEW")
    print("property demands: the reloaded data equals the edited document")
    print("in memory       : %r" % (plain(proc.data),))
    print("serialized      : %r" % out)
    print("reloaded        : %r" % (plain(redata),))
    return plain(proc.data) != plain(redata)


# --------------------------------------------------------------------------
# 11. yaml-set on a YAML file whose root is in flow style and which holds an
#     anchored scalar with an alias
# Clause violated: "every other ... anchor of the document is exactly as
# before" / "remains true after any sequence of such edits" -- the file is
# rewritten as JSON, the anchor and alias are gone, so the next set of `a`
# no longer reaches `b`.
# --------------------------------------------------------------------------
@case("11. yaml-set on a flow-style YAML root drops anchors and aliases")
def _():
    text = "{a: &A x, b: *A, c: x}\n"
    rcode, after, err = yaml_set_cli(text, "--change=c", "--value=y")
    print("input file      : %r" % text)
    print("command         : yaml-set --change=c --value=y FILE")
    print("property demands: only c changes; a keeps anchor A, b its alias")
    print("exit status     : %d %s" % (rcode, err))
    print("file afterwards : %r" % after)
    rcode2, after2, _ = yaml_set_cli(after, "--change=a", "--value=z")
    print("then            : yaml-set --change=a --value=z FILE")
    print("property demands: a == b == 'z' (b was an alias of a)")
    print("file afterwards : %r" % after2)
    _, data, _ = load(after2)
    return "&A" not in after or plain(data["b"]) != "z"


# --------------------------------------------------------------------------
# Informational (judged OUTSIDE or debatable; not counted)
# --------------------------------------------------------------------------
@case("I1. anchored scalar set to null, then set again through the former "
      "alias", counted=False)
def _():
    text = "a: &A x\nb: *A\n"
    yaml, data, _ = load(text)
    proc = Processor(LOG, data)
    proc.set_value("a", None, mustexist=True)
    print("input %r; after set a=null : %r" % (text, dump(yaml, proc.data)))
    proc.set_value("b", "y", mustexist=True)
    print("after set b=y            : %r" % dump(yaml, proc.data))
    print("(a model which keeps the alias group expects a == b == 'y')")
    return plain(proc.data["a"]) != "y"


@case("I2. text '0x10' with the default format is refused", counted=False)
def _():
    yaml, data, _ = load("a: x\n")
    proc = Processor(LOG, data)
    try:
        proc.set_value("a", "0x10")
        print("set; document: %r" % dump(yaml, proc.data))
        return False
    except Exception as ex:
        print("set_value('a', '0x10') raised %s: %s"
              % (type(ex).__name__, ex))
        return True


@case("I3. creating l[3] in a one-element Array pads with copies of the "
      "value", counted=False)
def _():
    yaml, data, _ = load("l: [1]\n")
    proc = Processor(LOG, data)
    proc.set_value("l[3]", "z")
    print("l: [1] ; set l[3]=z  ->  %r" % dump(yaml, proc.data))
    return plain(proc.data["l"]) != [1, None, None, "z"]


# --------------------------------------------------------------------------
print("=" * 78)
print("SUMMARY")
COUNT = 0
for lbl, counted, violated in RESULTS:
    if counted and violated:
        COUNT += 1
    print("  [%s] %s%s" % (
        "X" if violated else " ", lbl, "" if counted else "   (info)"))
print("%d counted case(s) violate the property" % COUNT)
sys.exit(1 if COUNT else 0)
