#!/usr/bin/env python
"""
Demonstrations against the property
  "Search operators compare values by the documented typed rules".

Run as:  cd /tmp/wt7-C12 && PYTHONPATH=/tmp/wt7-C12 /venv/bin/python demo.py

Only public entry points are used:  Parsers.get_yaml_editor / get_yaml_data,
Processor.get_nodes, YAMLPath.  Every case builds its own YAML document, runs
one or more YAML Path searches, and compares the LIST OF MATCHED PATHS with
what the property demands.  Exit status is 1 when at least one case violates
the property, 0 otherwise.
"""
import sys
from types import SimpleNamespace

from yamlpath import Processor, YAMLPath
from yamlpath.common import Parsers
from yamlpath.exceptions import YAMLPathException
from yamlpath.wrappers import ConsolePrinter

LOG = ConsolePrinter(SimpleNamespace(quiet=True, verbose=False, debug=False))


def load(src):
    yaml = Parsers.get_yaml_editor()
    data, ok = Parsers.get_yaml_data(yaml, LOG, src, literal=True)
    if not ok:
        raise RuntimeError("demo document did not load: " + src)
    return data


def find(src, path):
    """Return the sorted list of matched paths, or 'RAISED <what>'."""
    data = load(src)
    proc = Processor(LOG, data)
    try:
        return sorted(
            str(nc.path) for nc in proc.get_nodes(YAMLPath(path)))
    except YAMLPathException as ex:
        if "does not match any nodes" in str(ex):
            return []
        return "RAISED YAMLPathException: {}".format(ex)
    except Exception as ex:  # pylint: disable=broad-except
        return "RAISED {}: {}".format(type(ex).__name__, str(ex)[:70])


FAILED = []


def case(label, clause, src, checks):
    """checks: list of (path, expected list of matched paths)."""
    print("=" * 78)
    print("CASE {}".format(label))
    print("  clause violated : {}".format(clause))
    shown = src.strip().replace("\n", " | ")
    if len(shown) > 100:
        shown = shown[:60] + " ...({} characters)... ".format(len(shown)) + shown[-10:]
    print("  document        : {}".format(shown))
    bad = False
    for path, expected in checks:
        got = find(src, path)
        okay = got == sorted(expected)
        bad = bad or not okay
        print("  search {:<28} property demands {!s:<22} code gave {!s:<22} {}"
              .format(path, sorted(expected), got,
                      "ok" if okay else "<-- VIOLATION"))
    if bad:
        FAILED.append(label)


# ---------------------------------------------------------------------------
# 1. A TEXT value which merely looks like a Python literal is re-written
#    before it is compared (Nodes.typed_value -> literal_eval -> str()).
# clause: "equality is ... textual otherwise" and "prefix/suffix/substring
#         tests act on the value's text", "a regular expression is searched in
#         the value's text"
case("01 text value '1,2' is compared as the Python tuple '(1, 2)'",
     "equality textual / prefix+substring+regex act on the value's text",
     'l: ["1,2"]\n',
     [("/l[.=1,2]", ["l[0]"]),
      ("/l[.^1,]", ["l[0]"]),
      ("/l[.%,2]", ["l[0]"]),
      ("/l[.=~/^1,2$/]", ["l[0]"]),
      ("/l[.%, ]", [])])          # there is no ", " in the value's text

# clause: equality textual otherwise
case("02 text value \"'abc'\" (quote marks are content) equals the term abc",
     "equality is textual for text (the value's text is 'abc' WITH quotes)",
     "l: [\"'abc'\", abc]\n",
     [("/l[.=abc]", ["l[1]"]),
      ("/l[.$c]", ["l[1]"])])

# clause: equality textual otherwise
case("03 text value '...' does not equal '...' but equals 'Ellipsis'",
     "equality is textual for text",
     'l: ["...", Ellipsis]\n',
     [("/l[.=...]", ["l[0]"]),
      ("/l[.=Ellipsis]", ["l[1]"]),
      ("/l[.^..]", ["l[0]"])])

# clause: equality textual otherwise; substring on the value's text
case("04 text value '2J' does not equal itself (becomes complex '2j')",
     "equality is textual for text / substring acts on the value's text",
     'l: ["2J"]\n',
     [("/l[.=2J]", ["l[0]"]),
      ("/l[.%J]", ["l[0]"]),
      ("/l[.%j]", [])])

# ---------------------------------------------------------------------------
# 2. A TEXT term which merely looks like a Python literal is taken for a number
# clause: "equality is numeric when both sides are numbers of the same kind
#         and textual otherwise"; "ordering ... false against a non-numeric
#         term"
case("05 term '1#2' (text) is read as the number 1 ('#2' taken as a comment)",
     "equality textual unless BOTH sides are numbers; ordering of a number "
     "against a non-numeric term is false",
     'l: [1, "1", "1#2", 5]\n',
     [("/l[.=1#2]", ["l[2]"]),
      ("/l[.>1#2]", []),          # 5 > non-numeric term -> false;  text
                                  # '1#2' > '1#2' -> false; '1' > '1#2' false
      ("/l[.=\\(1\\)]", [])])     # the term '(1)' is text, nothing spells it

# ---------------------------------------------------------------------------
# 3. Numeric-looking TEXT values lose their text
# clause: prefix/suffix/substring tests act on the value's text
case("06 quoted text '1.50', '000', '0.0000001': suffix/prefix/substring",
     "prefix/suffix/substring tests act on the value's text",
     'l: ["1.50", "000", "0.0000001"]\n',
     [("/l[.$50]", ["l[0]"]),
      ("/l[.%.50]", ["l[0]"]),
      ("/l[.^00]", ["l[1]"]),
      ("/l[.%000]", ["l[1]", "l[2]"]),
      ("/l[.%e-]", []),           # no value contains 'e-'
      ("/l[.=~/50$/]", ["l[0]"])])

# clause: prefix/suffix/substring act on the value's text; regex searched in
#         the value's text
case("07 quoted TEXT 'true' (a string, not a Boolean): prefix t / regex",
     "prefix/substring/regex act on the value's text ('true', lower-case)",
     'l: ["true"]\n',
     [("/l[.^t]", ["l[0]"]),
      ("/l[.^T]", []),
      ("/l[.%rue]", ["l[0]"]),
      ("/l[.=~/^true$/]", ["l[0]"])])

# ---------------------------------------------------------------------------
# 4. Dates:  the project itself prints this value as 2001-12-14 (yaml-get,
#    JSON output) but compares it as '2001-12-14 00:00:00'
# clause: equality textual otherwise; ordering lexicographic for text;
#         suffix acts on the value's text
case("08 date value 2001-12-14",
     "equality textual / ordering lexicographic / suffix on the value's text "
     "(>= holds while = and <= do not:  no total order)",
     'l: [2001-12-14]\n',
     [("/l[.=2001-12-14]", ["l[0]"]),
      ("/l[.>=2001-12-14]", ["l[0]"]),
      ("/l[.<=2001-12-14]", ["l[0]"]),
      ("/l[.>2001-12-14]", []),
      ("/l[.$14]", ["l[0]"]),
      ("/l[.$00]", []),
      ("/l[.=~/14$/]", ["l[0]"])])

# ---------------------------------------------------------------------------
# 5. Inversion
# clause: "An inverted search over a set of candidates yields exactly the
#         candidates the plain search does not."
# The README documents descendant searches: structure[has.descendant.with=x].
case("09 plain and inverted descendant search both yield the same Hash",
     "inverted search yields exactly the candidates the plain search does not",
     'svc:\n  ports:\n    - {n: 80}\n    - {n: 443}\n',
     [("/svc[ports.n=80]", ["svc"]),
      ("/svc[ports.n!=80]", []),
      ("/svc[ports.n=443]", ["svc"]),
      ("/svc[ports.n!=443]", [])])

# ---------------------------------------------------------------------------
# 6. Booleans
# clause: ordering is numeric for NUMERIC values and lexicographic for text
#         (commit ec87958: "a boolean is not a number when search operators
#         compare values") -- a Boolean value is still ordered as 1/0
case("10 Boolean value ordered numerically against a number term",
     "ordering numeric only for numeric values; a Boolean is not a number "
     "(lexicographic: 'True'/'true' is not < '2';  or false outright)",
     'l: [true, "true"]\n',
     [("/l[.<2]", []),
      ("/l[.<=1]", []),
      ("/l[.>=1]", ["l[0]", "l[1]"])])   # lexicographic: 't'/'T' > '1'

# clause: booleans match their case-insensitive spellings; prefix/regex act on
#         the value's text
case("11 Boolean value true: prefix t / regex true do not match, T / True do",
     "booleans match case-insensitive spellings; prefix and regex act on the "
     "value's text (document says 'true', JSON output says 'true')",
     'l: [true]\n',
     [("/l[.=TRUE]", ["l[0]"]),
      ("/l[.^t]", ["l[0]"]),
      ("/l[.=~/true/]", ["l[0]"])])

# ---------------------------------------------------------------------------
# 7. null
# clause: equality textual otherwise; substring on the value's text; ordering
#         (the text 'None' is a Python artefact, no YAML spelling of null)
case("12 null equals the term None, contains 'on', is greater than 0",
     "equality textual / substring on the value's text / ordering",
     'l: [~, "None"]\n',
     [("/l[.=None]", ["l[1]"]),
      ("/l[.%on]", ["l[1]"]),
      ("/l[.=~/^N/]", ["l[1]"])])

# ---------------------------------------------------------------------------
# 8. A zero-padded integer term
# clause: equality is numeric when both sides are numbers of the same kind
#         (the YAML loader reads the document's 007 as the integer 7)
case("13 integer 007 in the document is 7; the term 007 is not a number",
     "equality/ordering numeric when both sides are integers",
     'l: [007]\n',
     [("/l[.=7]", ["l[0]"]),
      ("/l[.=007]", ["l[0]"]),
      ("/l[.>=007]", ["l[0]"])])

# ---------------------------------------------------------------------------
# 9. The comparison raises
# clause: "the comparison never raises for a well-formed term"
case("14 a (very) large hexadecimal integer value makes every operator raise",
     "the comparison never raises for a well-formed term",
     "l: [0x" + "F" * 3700 + "]\n",
     [("/l[.=1]", []),
      ("/l[.>1]", ["l[0]"]),
      ("/l[.^1]", [])])

# ---------------------------------------------------------------------------
# 10. Lower confidence: un-quoted float / timestamp text
case("15 float written 1.50: suffix 50 (document text) does not match",
     "prefix/suffix/substring act on the value's text (ambiguous: the text "
     "of a float)",
     'l: [1.50]\n',
     [("/l[.=1.50]", ["l[0]"]),
      ("/l[.$50]", ["l[0]"])])

case("16 timestamp with zone is compared as its UTC-normalised Python text",
     "prefix acts on the value's text (yaml-get prints "
     "2001-12-14T21:59:43.100000-05:00)",
     'l: [2001-12-14t21:59:43.10-05:00]\n',
     [("/l[.^2001-12-14]", ["l[0]"]),
      ("/l[.^2001-12-15]", []),
      ("/l[.%21:59]", ["l[0]"])])

print("=" * 78)
if FAILED:
    print("{} case(s) violate the property:".format(len(FAILED)))
    for label in FAILED:
        print("  - " + label)
    sys.exit(1)
print("no violations")
sys.exit(0)
