#!/usr/bin/env python
"""
Stand-alone demonstration of inputs for which yamlpath, AS IT IS, violates:

  "Every result locates its node: coordinates and reported path re-resolve"

    Every result of a query that designates a real document node carries a
    parent, a key-or-index inside that parent, an ancestry chain from the
    document root, and a concrete YAML Path;
      (P) indexing the parent by the reference gives the very node returned
          (for a set member: the parent set contains it),
      (A) the ancestry chain walks from the root to it, and
      (R) evaluating the reported path against the same document returns that
          node and no other - once, or once per place it is aliased when the
          path names it by its anchor.

Only public entry points are used:  yamlpath.Processor, yamlpath.YAMLPath,
yamlpath.common.Parsers, yamlpath.wrappers.ConsolePrinter / NodeCoords.

Run:  cd /tmp/wt5-C02 && PYTHONPATH=/tmp/wt5-C02 /venv/bin/python demo.py
Exit status 1 when at least one case violates the property, else 0.
"""
import sys
from types import SimpleNamespace

from ruamel.yaml.comments import CommentedSet

from yamlpath import Processor, YAMLPath
from yamlpath.common import Parsers
from yamlpath.enums import PathSegmentTypes, PathSearchKeywords, PathSeparators
from yamlpath.path import SearchKeywordTerms
from yamlpath.wrappers import ConsolePrinter, NodeCoords

LOG = ConsolePrinter(SimpleNamespace(quiet=True, verbose=False, debug=False))


def load(text):
    """Parse one YAML document with the project's own loader."""
    editor = Parsers.get_yaml_editor()
    (data, loaded) = Parsers.get_yaml_data(editor, LOG, text, literal=True)
    if not loaded:
        raise RuntimeError("cannot parse: " + text)
    return data


def same(one, two):
    """Identity, or equality of plain immutable scalars (ints are not boxed)."""
    if one is two:
        return True
    return (not isinstance(one, (dict, list, set, NodeCoords))
            and type(one) is type(two) and one == two)


def is_virtual(coord):
    """Slices, collectors and name() designate no single node: excluded."""
    node = coord.node
    if isinstance(node, NodeCoords):
        return True
    if (isinstance(node, list) and node
            and isinstance(node[0], NodeCoords)):
        return True
    seg = coord.path_segment
    if seg is not None and isinstance(seg[1], SearchKeywordTerms):
        if seg[1].keyword is PathSearchKeywords.NAME:
            return True
    return False


def clause_p(data, coord):
    """(P) parent[parentref] is the node / the parent set contains it."""
    if coord.parent is None:
        return None if coord.node is data else "no parent, yet not the root"
    if isinstance(coord.parent, (set, CommentedSet)):
        if any(same(mem, coord.node) for mem in coord.parent):
            return None
        return "parent set does not contain the node"
    try:
        got = coord.parent[coord.parentref]
    except Exception as ex:  # pylint: disable=broad-except
        return "parent[{!r}] raises {}({})".format(
            coord.parentref, type(ex).__name__, ex)
    if same(got, coord.node):
        return None
    return "parent[{!r}] is {!r}, not the node".format(
        coord.parentref, short(got))


def clause_a(data, coord):
    """(A) the ancestry chain walks from the document root to the node."""
    chain = coord.ancestry
    if not chain:
        return None if coord.node is data else "empty ancestry, yet not root"
    if chain[0][0] is not data:
        return "ancestry does not start at the document root"
    cur = data
    for step, (par, ref) in enumerate(chain):
        if par is not cur:
            return ("ancestry step {} names a parent which is not the child"
                    " reached by step {}").format(step, step - 1)
        try:
            cur = ref if isinstance(par, (set, CommentedSet)) else par[ref]
        except Exception as ex:  # pylint: disable=broad-except
            return "ancestry step {}: parent[{!r}] raises {}({})".format(
                step, short(ref), type(ex).__name__, ex)
    if same(cur, coord.node):
        return None
    return "ancestry walk ends at {!r}, not the node".format(short(cur))


def clause_r(data, coord):
    """(R) the reported path returns that node and no other."""
    if coord.path is None:
        return "no path reported"
    reported = str(coord.path)
    try:
        again = list(Processor(LOG, data).get_nodes(
            reported, mustexist=True))
    except Exception as ex:  # pylint: disable=broad-except
        return "reported path {!r} raises {}".format(
            reported, type(ex).__name__)
    by_anchor = any(seg[0] == PathSegmentTypes.ANCHOR
                    for seg in YAMLPath(reported).escaped)
    others = [nc for nc in again if not same(nc.node, coord.node)]
    if others:
        return "reported path {!r} returns {}".format(
            reported, [short(nc.node) for nc in again])
    if len(again) > 1 and not by_anchor:
        return "reported path {!r} returns the node {} times".format(
            reported, len(again))
    return None


def short(value):
    text = repr(value)
    text = text.replace("ordereddict", "")
    return text if len(text) < 70 else text[:67] + "..."


FAILED = []


def case(label, clauses, yaml_text, query, demand, result_filter=None):
    """Run one labelled case; report every violated clause of every result."""
    print("=" * 78)
    print("CASE {}".format(label))
    print("  violates clause(s):", clauses)
    print("  document :", yaml_text.rstrip("\n").replace("\n", "\n             "))
    print("  query    :", query)
    print("  demanded :", demand)
    data = load(yaml_text)
    violated = False
    try:
        results = list(Processor(LOG, data).get_nodes(query, mustexist=True))
    except Exception as ex:  # pylint: disable=broad-except
        print("  observed : query raised", type(ex).__name__, ex)
        results = []
    shown = 0
    for idx, coord in enumerate(results):
        if is_virtual(coord):
            continue
        if result_filter and not result_filter(coord):
            continue
        shown += 1
        problems = [
            (tag, msg) for (tag, msg) in (
                ("P", clause_p(data, coord)),
                ("A", clause_a(data, coord)),
                ("R", clause_r(data, coord)),
            ) if msg is not None]
        print("  observed : result #{} node={} parentref={} path={!r}".format(
            idx, short(coord.node), short(coord.parentref), str(coord.path)))
        for (tag, msg) in problems:
            violated = True
            print("             ({}) VIOLATED: {}".format(tag, msg))
        if not problems:
            print("             all clauses hold")
    if shown == 0:
        print("  observed : no non-virtual result")
    print("  verdict  :", "VIOLATION" if violated else "ok")
    if violated:
        FAILED.append(label)


AOH = """a:
  - {x: 1, n: p}
  - {x: 5, n: q}
  - {x: 3, n: r}
nums: [3, 9, 3]
"""

# --------------------------------------------------------------------------
# 1. A Collector around ONE list "flattens" it: every element is handed the
#    LIST's own parent, path and ancestry (Processor._get_nodes_by_collector).
#    The collector result itself is virtual (excluded), but the segments which
#    follow it return real document nodes carrying those wrong coordinates.
#    Clauses: (P) parent[ref], (A) ancestry, (R) path returns other nodes.
# --------------------------------------------------------------------------
case("1a collector-of-one-list, then a child key",
     "(A) ancestry skips the element; (R) path names every element's child",
     AOH, "(a).n",
     "3 scalars, each with path a[N].n and ancestry root->a->a[N]->n")
case("1b collector-of-one-list, then unique()/distinct()",
     "(P) (A) (R)",
     AOH, "(nums)[unique()]",
     "the element 9 with parent=nums, parentref=1, path nums[1]")
case("1c collector-of-one-list, child key, then parent()",
     "(P) (A) (R): the element Hash is returned with the LIST's coordinates",
     AOH, "(a).n[parent()]",
     "each Hash a[N] with parent=a, parentref=N, path a[N]")

# --------------------------------------------------------------------------
# 2. min()/max() over an Array-of-Hashes which arrives as a slice or as a
#    collector:  KeywordSearches.min/max unwrap every element and re-wrap it
#    with the VIRTUAL list as parent, its position in that virtual list as
#    reference and "<virtual path>[pos]" as path.  (unique()/distinct() keep
#    the element's own coordinates.)
#    Clauses: (P) (A) (R).
# --------------------------------------------------------------------------
case("2a max() over a slice of an Array-of-Hashes",
     "(P) (A) (R)",
     AOH, "a[1:3][max(x)]",
     "the Hash a[1] with parent=a, parentref=1, path a[1]")
case("2b min() over a collector of Hashes",
     "(P) (A) (R)",
     AOH, "(a.*)[min(x)]",
     "the Hash a[0] with parent=a, parentref=0, path a[0]")
case("2c the descendants inherit the broken chain",
     "(A) (R)",
     AOH, "(a[x>1])[max(x)].n",
     "the scalar q with path a[1].n and ancestry root->a->a[1]->n")

# --------------------------------------------------------------------------
# 3. A key which is the empty string: the reported path of the child is the
#    path of its PARENT (nothing is appended), so it designates another node.
#    Clause: (R).
# --------------------------------------------------------------------------
case("3a empty-string key at the top level",
     "(R) the reported path '' is the document root",
     "'': a\nb: 1\n", "*",
     "each child reports a path which returns that child only",
     lambda nc: nc.parentref == "")
case("3b empty-string key below a key",
     "(R) the reported path 'b' is the parent Hash",
     "b: {'': c}\n", "b.*",
     "the child reports a path which returns 'c' only")

# --------------------------------------------------------------------------
# 4. A YAML Merge Key reference matched by its Anchor:  the result is the
#    anchored Hash (a real node), its parent is the merging Hash, but the
#    reference is the Anchor NAME (not a key of the parent) and the ancestry
#    entry holds the Hash itself as "reference".  Everything reached through
#    it inherits an ancestry which cannot be walked, and parent() then
#    reports a Hash as the parentref.
#    Clauses: (P) and (A).
# --------------------------------------------------------------------------
YMK = "base: &b {x: 1}\nm1:\n  <<: *b\n  w: 0\n"
case("4a merge-key reference by anchor",
     "(P) parent['b'] does not exist; (A) ancestry reference is a Hash",
     YMK, "m1[&b]",
     "parent[parentref] is the anchored Hash; ancestry walks to it")
case("4b a child reached through the merge-key reference",
     "(A)",
     YMK, "m1[&b].x",
     "an ancestry chain which walks from the root to the scalar 1")
case("4c parent() after climbing through the merge-key reference",
     "(P) (A): parentref is the Hash itself",
     YMK, "m1[&b].x[parent()]",
     "the anchored Hash with a key/index reference inside its parent")

# --------------------------------------------------------------------------
# 5. Keys which are not text.
#    5a/5b: an int (or bool) key beside its own spelling as text - the
#           reported path returns the OTHER node.           Clause: (R)
#    5c:    bool / null / float / date / tagged keys - the reported path
#           returns nothing at all.                          Clause: (R)
#    5d:    an int member of a set (a Hash with the same int key resolves).
#                                                            Clause: (R)
# --------------------------------------------------------------------------
case("5a int key 1 beside text key '1'",
     "(R) the path reported for data[1] returns data['1']",
     "1: a\n'1': b\n", "*",
     "two different reported paths, each returning its own node",
     lambda nc: nc.parentref == 1 and not isinstance(nc.parentref, str))
case("5b bool key true beside text key 'True'",
     "(R)",
     "true: a\n'True': b\n", "[.=True]",
     "two different reported paths, each returning its own node",
     lambda nc: nc.parentref is True)
case("5c bool, null, float, date and tagged keys",
     "(R) the reported path matches nothing",
     "true: a\n~: b\n1.5: c\n2001-01-01: d\n!t k: e\n", "*",
     "every reported path returns its node")
case("5d int member of a set",
     "(R) the reported path matches nothing",
     "s: !!set\n  ? 7\n  ? a\n", "s[.=7]",
     "the reported path s.7 returns the member 7")

# --------------------------------------------------------------------------
# 6. An Anchor on a KEY which is also aliased as a VALUE:  the anchor path
#    returns the anchored key's value AND the alias - two different nodes
#    under one reported path.
#    Clause: (R) "... that node and no other - ... once per place it is
#    aliased" (the second result is not an alias of the first).
# --------------------------------------------------------------------------
case("6 anchored key, aliased as a value",
     "(R) one anchor path, two different nodes",
     "&kk key1: v1\nkref: *kk\n", "&kk",
     "every result's reported path returns that result's node only")

# --------------------------------------------------------------------------
# 7. Keys spelled like path syntax which escape_path_section() leaves bare
#    although the parser honours an escape/quotes for them:  a leading '&'
#    (\\&a is a KEY) and the lone '*' ('*' is a KEY).  NOT in the set of
#    characters the property enumerates - reported with LOW confidence.
#    Clause: (R).
# --------------------------------------------------------------------------
case("7a key with a leading ampersand (query \\&a works, report is bare)",
     "(R) reported path '&a' is parsed as an Anchor and matches nothing",
     "'&a': 1\nb: 2\n", "\\&a",
     "the reported path returns the node (as the query itself did)")
case("7b key spelled '*' (query '*' in quotes works, report is bare)",
     "(R) reported path '*' is the wildcard and returns the sibling too",
     "'*': 1\nb: 2\n", "'*'",
     "the reported path returns the node only")

# --------------------------------------------------------------------------
# 8. "both notations":  the reported path is always dot-notated; switched to
#    forward-slash notation with YAMLPath.separator (public API) a key made of
#    a backslash followed by '/' stops resolving (ensure_escaped() mistakes
#    the escaped backslash + '/' for an already-escaped '/').
#    LOW confidence: only the converted spelling fails, the reported one works.
#    Clause: (R) in forward-slash notation.
# --------------------------------------------------------------------------
print("=" * 78)
print("CASE 8 reported path switched to forward-slash notation")
print("  violates clause(s): (R) 'in both notations' - LOW confidence")
DOC8 = 'z: {"\\\\/": 1}\n'
print("  document :", DOC8.rstrip())
print("  query    : z.*")
print("  demanded : the reported path, in either notation, returns the node")
DATA8 = load(DOC8)
for NC8 in Processor(LOG, DATA8).get_nodes("z.*", mustexist=True):
    DOT8 = str(NC8.path)
    CONV8 = YAMLPath(NC8.path)
    CONV8.separator = PathSeparators.FSLASH
    FSL8 = str(CONV8)
    OK_DOT = [same(n.node, NC8.node) for n in
              Processor(LOG, DATA8).get_nodes(DOT8, mustexist=False)]
    try:
        OK_FSL = [same(n.node, NC8.node) for n in
                  Processor(LOG, DATA8).get_nodes(FSL8, mustexist=True)]
    except Exception as ex8:  # pylint: disable=broad-except
        OK_FSL = type(ex8).__name__
    print("  observed : key={!r} dot={!r} -> {} ; fslash={!r} -> {}".format(
        NC8.parentref, DOT8, OK_DOT, FSL8, OK_FSL))
    if OK_FSL != [True]:
        print("             (R) VIOLATED in forward-slash notation")
        FAILED.append("8")
        print("  verdict  : VIOLATION")
    else:
        print("  verdict  : ok")

print("=" * 78)
print("violating cases:", ", ".join(FAILED) if FAILED else "none")
sys.exit(1 if FAILED else 0)
