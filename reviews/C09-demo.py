#!/usr/bin/env python
"""
Demonstrations against the property

  "Queries never modify the document; creation adds exactly the missing path"

Run as:  cd /tmp/wt5-C09 && PYTHONPATH=/tmp/wt5-C09 /venv/bin/python demo.py

Only public entry points are used:  yamlpath.Processor (get_nodes, exists,
set_value), yamlpath.common.Parsers, yamlpath.wrappers.ConsolePrinter and the
yaml-set command (python -m yamlpath.commands.yaml_set).

Exit status:  1 when at least one case violates the property, 0 otherwise.
"""
import io
import os
import subprocess
import sys
import tempfile
from types import SimpleNamespace

from yamlpath import Processor
from yamlpath.common import Parsers
from yamlpath.wrappers import ConsolePrinter, NodeCoords

LOG = ConsolePrinter(SimpleNamespace(quiet=True, verbose=False, debug=False))
VIOLATIONS = []


def load(text):
    (data, loaded) = Parsers.get_yaml_data(
        Parsers.get_yaml_editor(), LOG, text, literal=True)
    assert loaded, text
    return data


def dump(data):
    buf = io.StringIO()
    Parsers.get_yaml_editor().dump(data, buf)
    return buf.getvalue()


def unwrap(results):
    return [NodeCoords.unwrap_node_coords(r) for r in results]


def query(processor, mode, path):
    if mode == "required-match":
        return unwrap(processor.get_nodes(path, mustexist=True))
    if mode == "optional-match":
        return unwrap(processor.get_nodes(path, mustexist=False))
    return processor.exists(path)


def report(label, violated, doc, action, demanded, observed):
    print("=" * 78)
    print("CASE {}: {}".format(label, "VIOLATION" if violated else "ok"))
    print("  input document : {!r}".format(doc))
    print("  operation      : {}".format(action))
    print("  property demands: {}".format(demanded))
    print("  code did        : {}".format(observed))
    if violated:
        VIOLATIONS.append(label)


def yaml_set(doc, *cli_args):
    """Run the yaml-set command against a temporary copy of doc."""
    with tempfile.TemporaryDirectory() as tmpdir:
        target = os.path.join(tmpdir, "doc.yaml")
        with open(target, "w", encoding="utf-8") as fhnd:
            fhnd.write(doc)
        proc = subprocess.run(
            [sys.executable, "-W", "ignore", "-m",
             "yamlpath.commands.yaml_set", *cli_args, target],
            stdout=subprocess.PIPE, stderr=subprocess.PIPE, text=True,
            env=dict(os.environ), check=False)
        with open(target, "r", encoding="utf-8") as fhnd:
            after = fhnd.read()
    errlines = [l for l in proc.stderr.strip().split("\n") if l.strip()]
    return (proc.returncode, after, errlines[-1] if errlines else "")


###############################################################################
# CASE P1 -- clause violated:  "A required-match query, an existence test, and
# an optional-match query on a path that already exists leave the document
# exactly as it was, for every kind of path including collectors with ... -".
# The subtraction collector removes a key from a shallow copy() of the result
# Hash; that copy shares ruamel.yaml's own-key bookkeeping with the document's
# Hash, so the DOCUMENT's Hash forgets that it owns the subtracted key.  With a
# YAML Merge Key in that Hash, the very next dump of the document has lost the
# key (and gained the merged keys as explicit ones).
###############################################################################
DOC_P1 = "t: &t {z: 0}\na: {<<: *t, x: 1, y: 2}\nb: {x: 1}\n"
for qmode in ("existence test", "required-match", "optional-match"):
    data_p1 = load(DOC_P1)
    before_p1 = dump(data_p1)
    proc_p1 = Processor(LOG, data_p1)
    result_p1 = query(proc_p1, qmode, "(a)-(b.x)")
    after_p1 = dump(data_p1)
    report(
        "P1 [{}]".format(qmode), before_p1 != after_p1, DOC_P1,
        "{} of '(a)-(b.x)'  (result: {!r})".format(qmode, result_p1),
        "document serialises as before: {!r}".format(before_p1),
        "document now serialises as: {!r}".format(after_p1))

###############################################################################
# CASE P2 -- same clause, same root cause, no Merge Key needed:  after the
# query the document no longer behaves as it did.  The Hash no longer lists x
# among its own keys and a following set_value of a.x is silently dropped
# whereas the same set_value against an unqueried copy of the document works.
###############################################################################
DOC_P2 = "a: {x: 1, y: 2}\nb: {x: 1}\n"
for qmode in ("existence test", "required-match", "optional-match"):
    control = load(DOC_P2)
    Processor(LOG, control).set_value("a.x", 5)
    expected_p2 = dump(control)

    data_p2 = load(DOC_P2)
    proc_p2 = Processor(LOG, data_p2)
    own_before = [k for k, _ in data_p2["a"].non_merged_items()]
    query(proc_p2, qmode, "(a)-(b.x)")
    own_after = [k for k, _ in data_p2["a"].non_merged_items()]
    proc_p2.set_value("a.x", 5)
    got_p2 = dump(data_p2)
    report(
        "P2 [{}]".format(qmode),
        own_before != own_after or expected_p2 != got_p2, DOC_P2,
        "{} of '(a)-(b.x)', then set_value('a.x', 5)".format(qmode),
        "the query changes nothing, so a's own keys stay {!r} and the set"
        " yields {!r}".format(own_before, expected_p2),
        "a's own keys became {!r}; after the set the document is {!r}"
        .format(own_after, got_p2))

###############################################################################
# CASE C1 -- clause violated:  "When ... a set names a path of keys ... whose
# tail does not exist yet, exactly the missing tail is created ... and every
# node that existed before is unchanged."
# Naming a missing member of a YAML !!set in set_value replaces the WHOLE set
# by the scalar value; the members which existed are destroyed and the path
# does not resolve afterward.
###############################################################################
DOC_C1 = "s: !!set\n  ? one\n  ? two\nk: v\n"
data_c1 = load(DOC_C1)
proc_c1 = Processor(LOG, data_c1)
proc_c1.set_value("s.three", "three")
after_c1 = dump(data_c1)
still_set = isinstance(data_c1["s"], (set, dict)) or hasattr(data_c1["s"], "add")
members_kept = still_set and all(m in data_c1["s"] for m in ("one", "two"))
report(
    "C1 [library]", not members_kept, DOC_C1,
    "set_value('s.three', 'three')",
    "s remains a set which still holds one and two (plus the new member)",
    "document is now {!r}; s.three resolves: {}".format(
        after_c1, Processor(LOG, data_c1).exists("s.three")))

(rc_c1, cli_after_c1, err_c1) = yaml_set(
    DOC_C1, "--change=s.three", "--value=three")
report(
    "C1 [yaml-set]", "one" not in cli_after_c1 or "two" not in cli_after_c1,
    DOC_C1, "yaml-set --change=s.three --value=three",
    "members one and two survive",
    "exit {}; file is now {!r}".format(rc_c1, cli_after_c1))

###############################################################################
# CASE C2 -- clause violated:  "exactly the missing tail is created so that
# the path now resolves to the supplied value."
# When the supplied text looks like a Python dict literal or a non-decimal
# integer literal, creating a NEW node crashes with a bare ValueError (not a
# YAMLPathException) and nothing is created.  Setting the very same value at a
# path which already exists works (it is stored as text), so this is specific
# to creation (Nodes.build_next_node -> Nodes.wrap_type is unguarded).
###############################################################################
DOC_C2 = "a: 1\n"
for value_c2 in ("{}", "{'k': 1}", "0x10"):
    data_c2 = load(DOC_C2)
    proc_c2 = Processor(LOG, data_c2)
    outcome = "no error"
    try:
        proc_c2.set_value("b.c", value_c2)
    except Exception as ex:  # pylint: disable=broad-except
        outcome = "{}: {}".format(type(ex).__name__, ex)
    resolved_c2 = []
    if Processor(LOG, data_c2).exists("b.c"):
        resolved_c2 = unwrap(Processor(LOG, data_c2).get_nodes(
            "b.c", mustexist=True))
    existing = load(DOC_C2)
    Processor(LOG, existing).set_value("a", value_c2)
    report(
        "C2 [set_value {!r}]".format(value_c2),
        resolved_c2 != [value_c2], DOC_C2,
        "set_value('b.c', {!r})".format(value_c2),
        "b.c is created and resolves to {!r} (compare: set_value('a', ...)"
        " on the existing node gives {!r})".format(value_c2, dump(existing)),
        "{}; b.c resolves to {!r}; document {!r}".format(
            outcome, resolved_c2, dump(data_c2)))

(rc_c2, cli_after_c2, err_c2) = yaml_set(DOC_C2, "--change=b", "--value={}")
report(
    "C2 [yaml-set]", rc_c2 != 0 or "b:" not in cli_after_c2, DOC_C2,
    "yaml-set --change=b --value='{}'",
    "key b is created holding the text {}",
    "exit {} with {!r}; file is {!r}".format(rc_c2, err_c2, cli_after_c2))

###############################################################################
# CASE C3 -- clause violated:  "When an optional-match query ... names a path
# ... whose tail does not exist yet, exactly the missing tail is created so
# that the path now resolves to the supplied value."
# The optional-match query builds the new leaf with Nodes.wrap_type, which
# turns the text false into boolean TRUE and the text [] into the two-element
# list ['[', ']'].
###############################################################################
def same_value(got, wanted):
    """True when got is wanted, as text or as the typed value it spells."""
    if isinstance(wanted, bool):
        return (not isinstance(got, (str, list, dict))) and (
            bool(got) is wanted and got in (0, 1))
    if isinstance(wanted, list):
        return isinstance(got, list) and list(got) == wanted
    return isinstance(got, str) and got == wanted


for (default_c3, acceptable) in (
    ("false", ("false", False)),
    ("[]", ("[]", [])),
):
    data_c3 = load(DOC_C2)
    got_c3 = unwrap(Processor(LOG, data_c3).get_nodes(
        "b", mustexist=False, default_value=default_c3))
    bad_c3 = not (
        len(got_c3) == 1
        and any(same_value(got_c3[0], a) for a in acceptable))
    report(
        "C3 [default_value {!r}]".format(default_c3), bad_c3, DOC_C2,
        "get_nodes('b', mustexist=False, default_value={!r})".format(
            default_c3),
        "b is created and resolves to the supplied value (one of {!r})"
        .format(acceptable),
        "resolves to {!r} (truthy: {}); document {!r}".format(
            got_c3, [bool(g) for g in got_c3], dump(data_c3)))

###############################################################################
# CASE C4 (lower confidence; the supplied value is a live node of the same
# document rather than plain data) -- clause violated:  "every node that
# existed before is unchanged."
# Creating b.c with the node found at a as the value plants that very object at
# the new place and then replaces EVERY occurrence of it, so the pre-existing
# node at a is replaced as well and loses its presentation (1.50 -> 1.5).
###############################################################################
DOC_C4 = "a: 1.50\n"
data_c4 = load(DOC_C4)
proc_c4 = Processor(LOG, data_c4)
node_c4 = next(proc_c4.get_nodes("a", mustexist=True)).node
ident_before = id(data_c4["a"])
proc_c4.set_value("b.c", node_c4)
after_c4 = dump(data_c4)
report(
    "C4 [copy a live node]",
    "a: 1.50\n" not in after_c4 or id(data_c4["a"]) != ident_before, DOC_C4,
    "set_value('b.c', <the node at a>)",
    "only b.c is created; a stays the same node, still written 1.50",
    "document {!r}; a is the same object: {}".format(
        after_c4, id(data_c4["a"]) == ident_before))

###############################################################################
# INFORMATIONAL (not counted; judged to be outside what the property states)
###############################################################################
print("=" * 78)
print("INFORMATIONAL, not counted:")
info1 = load("a: [x]\n")
Processor(LOG, info1).set_value("a[2]", "false")
print("  set_value('a[2]', 'false') on 'a: [x]' pads with the opposite"
      " boolean: {!r}".format(dump(info1)))
info2 = load("a: 1\n")
Processor(LOG, info2).set_value("b", "1000.0")
print("  set_value('b', '1000.0') is 1000.0 in memory but is written as:"
      " {!r}  (same for an existing node; a value-format matter)".format(
          dump(info2)))
info3 = load("a: 1\n")
try:
    Processor(LOG, info3).set_value("b", "x", value_format="int")
except Exception as ex:  # pylint: disable=broad-except
    print("  set_value('b', 'x', value_format='int') raises {} yet leaves"
          " {!r}".format(type(ex).__name__, dump(info3)))

print("=" * 78)
print("{} violating case(s): {}".format(len(VIOLATIONS), VIOLATIONS))
sys.exit(1 if VIOLATIONS else 0)
