#!/usr/bin/env python
"""
Demonstrations against the property

  "A delete removes exactly the matched nodes, whatever their number or
   position ... and leaves every other node, its value and its relative order
   untouched.  Deleting the document root is refused with a YAML Path error
   and changes nothing."

Run as:  cd /tmp/wt5-C04 && PYTHONPATH=/tmp/wt5-C04 /venv/bin/python demo.py
Exit status 1 when at least one case violates the property, 0 otherwise.

Only public entry points are used:  yamlpath.Processor (get_nodes,
delete_nodes, delete_gathered_nodes), yamlpath.common.Parsers, and the
yaml-set command (python -m yamlpath.commands.yaml_set).
"""
import io
import os
import subprocess
import sys
import tempfile
from types import SimpleNamespace

from yamlpath import Processor
from yamlpath.common import Parsers
from yamlpath.exceptions import YAMLPathException
from yamlpath.wrappers import ConsolePrinter, NodeCoords

LOG = ConsolePrinter(SimpleNamespace(quiet=True, verbose=False, debug=False))
VIOLATIONS = []


def load(text):
    editor = Parsers.get_yaml_editor()
    (data, loaded) = Parsers.get_yaml_data(editor, LOG, text, literal=True)
    assert loaded, "demo input does not load"
    return editor, data


def dump(editor, data):
    buf = io.StringIO()
    editor.dump(data, buf)
    return buf.getvalue()


def plain(node):
    """Plain Python view of a document (YAML Merge Keys expanded)."""
    if isinstance(node, dict):
        return {k: plain(v) for k, v in node.items()}
    if isinstance(node, list):
        return [plain(v) for v in node]
    if isinstance(node, (set, frozenset)) or type(node).__name__ == "CommentedSet":
        return {plain(v) for v in node}
    if node is None or isinstance(node, (bool, int, float)):
        return node
    return str(node)


def saved_view(editor, data):
    """What a user gets back after the result is written and read again."""
    return plain(load(dump(editor, data))[1])


def matched_values(text, path):
    (_, data) = load(text)
    proc = Processor(LOG, data)
    return [plain(NodeCoords.unwrap_node_coords(nc))
            for nc in proc.get_nodes(path, mustexist=True)]


def report(label, clause, text, action, demanded, observed, violated):
    print("=" * 78)
    print("CASE {}".format(label))
    print("clause violated : {}".format(clause))
    print("input document  :")
    for line in text.rstrip("\n").split("\n"):
        print("    " + line)
    print("operation       : {}".format(action))
    print("property demands: {}".format(demanded))
    print("code did        : {}".format(observed))
    print("verdict         : {}".format("VIOLATION" if violated else "ok"))
    if violated:
        VIOLATIONS.append(label)


def run_delete(text, path):
    """Delete path from text; return (exception-or-None, saved view, dump)."""
    (editor, data) = load(text)
    proc = Processor(LOG, data)
    error = None
    try:
        for _ in proc.delete_nodes(path):
            pass
    except Exception as ex:  # pylint: disable=broad-except
        error = ex
    try:
        after = saved_view(editor, proc.data)
    except Exception as ex:  # pylint: disable=broad-except
        after = "<result cannot be written/read back: {}>".format(ex)
    return error, after


def describe(error, after):
    if error is None:
        return "no error; document is now {}".format(after)
    return "raised {}({}); document is now {}".format(
        type(error).__name__, str(error)[:60], after)


# ---------------------------------------------------------------------------
# CASE 1
# Clause: "removes precisely the nodes the path matched".  The matched node is
# the YAML Merge Key reference *x of b (CHANGES: "YAML Merge Keys can now be
# deleted by their Anchor/Alias name via the yaml-set command-line tool and
# the underlying Processor class").  When `<<` is not the FIRST key of the
# Hash, nothing is removed and a raw IndexError escapes.
# ---------------------------------------------------------------------------
def case_1():
    text = "x: &x\n  k: 1\nb:\n  z: 0\n  <<: *x\n"
    path = "b.&x"
    (error, after) = run_delete(text, path)
    want = {"x": {"k": 1}, "b": {"z": 0}}
    report(
        "1  merge reference is not the first key of its Hash",
        "removes precisely the matched nodes (nothing is removed; non-YAMLPath"
        " error)",
        text, "delete_nodes({!r}); matched {}".format(
            path, matched_values(text, path)),
        "no error; document becomes {}".format(want),
        describe(error, after),
        error is not None or after != want)


# ---------------------------------------------------------------------------
# CASE 2
# Clause: "removes precisely the nodes the path matched ... leaves every other
# node untouched".  b merges [*x, *y]; deleting the reference to &y removes the
# reference to &x instead (the entry is removed by the position of `<<` within
# the Hash rather than by the position of the reference within the merge list).
# ---------------------------------------------------------------------------
def case_2():
    text = ("x: &x\n  k: 1\ny: &y\n  j: 2\nb:\n  <<: [*x, *y]\n  z: 0\n")
    path = "b.&y"
    (error, after) = run_delete(text, path)
    want = {"x": {"k": 1}, "y": {"j": 2}, "b": {"k": 1, "z": 0}}
    report(
        "2  one of two merge references",
        "precisely the matched nodes / every other node untouched (the OTHER"
        " reference is removed, the matched one stays)",
        text, "delete_nodes({!r}); matched {}".format(
            path, matched_values(text, path)),
        "no error; b keeps what *x gives it and loses what *y gave it: {}"
        .format(want),
        describe(error, after),
        error is not None or after != want)


# ---------------------------------------------------------------------------
# CASE 3
# Clause: "leaves every other node, its value ... untouched".  b has its own,
# explicit `k: 1` next to the merge reference.  Only the reference is matched,
# but the explicit key disappears too because its value equals the default.
# (tests/test_commands_yaml_set.py::test_yaml_merge_keys_delete shows that
# local keys are to survive; it only has local values which DIFFER.)
# ---------------------------------------------------------------------------
def case_3():
    text = "x: &x\n  k: 1\nb:\n  <<: *x\n  k: 1\n  z: 0\n"
    path = "b.&x"
    (error, after) = run_delete(text, path)
    want = {"x": {"k": 1}, "b": {"k": 1, "z": 0}}
    report(
        "3  explicit key whose value equals the merged default",
        "every other node untouched (an unmatched explicit key is removed)",
        text, "delete_nodes({!r}); matched {}".format(
            path, matched_values(text, path)),
        "no error; b keeps its own k: {}".format(want),
        describe(error, after),
        error is not None or after != want)


# ---------------------------------------------------------------------------
# CASE 4
# Clause: "removes precisely the nodes the path matched - all of them, even
# when ... matched more than once".  In a document with a YAML Merge Key the
# value a.k is matched twice (as a.k and, merged, as b.k).  The delete aborts
# with a raw KeyError from inside ruamel.yaml; through yaml-set the file is
# left as it was and a traceback is printed.
# ---------------------------------------------------------------------------
def case_4():
    text = "a: &x\n  k: 1\nb:\n  <<: *x\n  z: 9\n"
    path = "**[.=1]"
    (error, after) = run_delete(text, path)
    want = {"a": {}, "b": {"z": 9}}
    report(
        "4a node matched directly and through a YAML Merge Key (library)",
        "all matched nodes are removed, also when matched more than once"
        " (KeyError escapes)",
        text, "delete_nodes({!r}); matched {}".format(
            path, matched_values(text, path)),
        "no error; document becomes {}".format(want),
        describe(error, after),
        error is not None or after != want)

    with tempfile.TemporaryDirectory() as tmpdir:
        yaml_file = os.path.join(tmpdir, "in.yaml")
        with open(yaml_file, "w", encoding="utf-8") as fhnd:
            fhnd.write(text)
        proc = subprocess.run(
            [sys.executable, "-W", "ignore", "-m",
             "yamlpath.commands.yaml_set", "--delete",
             "--change=" + path, yaml_file],
            stdout=subprocess.PIPE, stderr=subprocess.PIPE,
            universal_newlines=True, check=False)
        with open(yaml_file, "r", encoding="utf-8") as fhnd:
            file_after = plain(load(fhnd.read())[1])
    last = (proc.stderr.strip().split("\n") or [""])[-1]
    report(
        "4b the same through yaml-set --delete",
        "all matched nodes are removed (nothing is; traceback)",
        text, "yaml-set --delete --change='{}' FILE".format(path),
        "exit 0; FILE becomes {}".format(want),
        "exit {}; last stderr line {!r}; FILE is {}".format(
            proc.returncode, last, file_after),
        proc.returncode != 0 or file_after != want)


# ---------------------------------------------------------------------------
# CASE 5
# Clause: "also as steps inside the edit histories".  After the merge reference
# of b was deleted, the perfectly ordinary delete of a.k raises KeyError: b is
# still registered with a as a merge referer.
# ---------------------------------------------------------------------------
def case_5():
    text = "a: &x\n  k: 1\n  m: 2\nb:\n  <<: *x\n  z: 2\n"
    (editor, data) = load(text)
    proc = Processor(LOG, data)
    error = None
    try:
        for _ in proc.delete_nodes("b.&x"):
            pass
        for _ in proc.delete_nodes("a.k"):
            pass
    except Exception as ex:  # pylint: disable=broad-except
        error = ex
    after = saved_view(editor, proc.data)
    want = {"a": {"m": 2}, "b": {"z": 2}}
    report(
        "5  history: delete the merge reference, then a key of its source",
        "delete as a step inside an edit history (second delete raises"
        " KeyError)",
        text, "delete_nodes('b.&x') then delete_nodes('a.k')",
        "no error; document becomes {}".format(want),
        describe(error, after),
        error is not None or after != want)


# ---------------------------------------------------------------------------
# CASE 6
# Clause: "removes precisely the nodes the path matched ... leaves every other
# node untouched".  README: "start# is the first inclusive ... stop# is the
# last exclusive element".  a[3:1] selects no element (get_nodes yields []),
# yet the delete removes a[3].  With a negative start and an EMPTY list among
# the targets the delete dies with IndexError after other lists were changed.
# ---------------------------------------------------------------------------
def case_6():
    text = "a: [0, 1, 2, 3, 4]\nb: x\n"
    path = "a[3:1]"
    (error, after) = run_delete(text, path)
    want = {"a": [0, 1, 2, 3, 4], "b": "x"}
    report(
        "6a slice which selects no element",
        "precisely the matched nodes (an unmatched element is removed)",
        text, "delete_nodes({!r}); matched {}".format(
            path, matched_values(text, path)),
        "no element removed: {}".format(want),
        describe(error, after),
        error is not None or after != want)

    text = "a: [1, 2]\nb: []\n"
    path = "/*[-1:0]"
    (error, after) = run_delete(text, path)
    want = {"a": [1], "b": []}
    report(
        "6b last element of every list, one list is empty",
        "empty list targets / negative indexes (IndexError escapes)",
        text, "delete_nodes({!r}); matched {}".format(
            path, matched_values(text, path)),
        "no error; document becomes {}".format(want),
        describe(error, after),
        error is not None or after != want)


# ---------------------------------------------------------------------------
# CASE 7
# Clause: "removes precisely the nodes the path matched ... leaves every other
# node untouched".  A Collector whose first term matches exactly one Array
# hands out coordinates made of the Array's PARENT and the element's index
# WITHIN the Array.  Deleting at such a path removes siblings of the Array
# (7a), integer keys of the parent Hash (7b), or nothing at all (7c, 7d).
# ---------------------------------------------------------------------------
def case_7():
    text = "l:\n  - [1, 2]\n  - b\n  - c\n"
    path = "(/l[0])"
    (error, after) = run_delete(text, path)
    ok_results = [{"l": ["b", "c"]}, {"l": [[], "b", "c"]}]
    report(
        "7a collector over one Array which is an Array element",
        "every other node untouched (the unmatched sibling 'b' is removed)",
        text, "delete_nodes({!r}); matched {}".format(
            path, matched_values(text, path)),
        "'b' and 'c' stay: one of {}".format(ok_results),
        describe(error, after),
        error is not None or after not in ok_results)

    text = "a: [1, 2]\n0: zero\n1: one\n"
    path = "(a)"
    (error, after) = run_delete(text, path)
    ok_results = [{0: "zero", 1: "one"}, {"a": [], 0: "zero", 1: "one"}]
    report(
        "7b collector over one Array which is a Hash value",
        "precisely the matched nodes / every other node untouched (keys 0 and"
        " 1 are removed, a is not)",
        text, "delete_nodes({!r}); matched {}".format(
            path, matched_values(text, path)),
        "keys 0 and 1 stay, a or its elements go: one of {}".format(
            ok_results),
        describe(error, after),
        error is not None or after not in ok_results)

    text = "a: [1, 2]\nb: x\nc: keep\n"
    path = "(a)+(b)"
    (error, after) = run_delete(text, path)
    ok_results = [{"c": "keep"}, {"a": [], "c": "keep"}]
    report(
        "7c concatenation of an Array and a scalar",
        "all matched nodes are removed (1 and 2 are matched but stay)",
        text, "delete_nodes({!r}); matched {}".format(
            path, matched_values(text, path)),
        "one of {}".format(ok_results),
        describe(error, after),
        error is not None or after not in ok_results)

    text = "recs:\n  - id: 1\n  - id: 3\n  - id: 2\n"
    path = "(recs.*)[max(id)]"
    (error, after) = run_delete(text, path)
    want = {"recs": [{"id": 1}, {"id": 2}]}
    report(
        "7d search keyword behind a collector",
        "all matched nodes are removed (the matched record stays)",
        text, "delete_nodes({!r}); matched {}".format(
            path, matched_values(text, path)),
        "document becomes {}".format(want),
        describe(error, after),
        error is not None or after != want)


# ---------------------------------------------------------------------------
# CASE 8
# Clause: "Deleting the document root is refused with a YAML Path error and
# changes nothing".  The refusal comes, but only after b was deleted, when
# the root sits in a nested collector.
# ---------------------------------------------------------------------------
def case_8():
    text = "a: 1\nb: 2\n"
    path = "((/))+(/b)"
    (error, after) = run_delete(text, path)
    want = {"a": 1, "b": 2}
    report(
        "8  root inside a nested collector, next to another node",
        "root refusal changes nothing (b is deleted before the refusal)",
        text, "delete_nodes({!r})".format(path),
        "a YAMLPathException; document stays {}".format(want),
        describe(error, after),
        not isinstance(error, YAMLPathException) or after != want)


# ---------------------------------------------------------------------------
# CASE 9  (lower confidence: needs two gathers, i.e. delete_gathered_nodes)
# Clause: "all of them, even when several live in the same sequence ... or are
# matched more than once".  Two slices of one Array which start at the same
# index are taken for the same element; the second one is skipped.
# ---------------------------------------------------------------------------
def case_9():
    text = "l: [0, 1, 2, 3, 4]\n"
    (editor, data) = load(text)
    proc = Processor(LOG, data)
    gathered = list(proc.get_nodes("l[0:1]")) + list(proc.get_nodes("l[0:3]"))
    error = None
    try:
        proc.delete_gathered_nodes(gathered)
    except Exception as ex:  # pylint: disable=broad-except
        error = ex
    after = saved_view(editor, proc.data)
    want = {"l": [3, 4]}
    report(
        "9  delete_gathered_nodes with two slices starting at one index",
        "all matched nodes are removed (l[1] and l[2] stay)",
        text, "delete_gathered_nodes(get_nodes('l[0:1]') + get_nodes('l[0:3]'))",
        "document becomes {}".format(want),
        describe(error, after),
        error is not None or after != want)


# ---------------------------------------------------------------------------
# CASE 10  (informational, NOT counted: what the property wants is debatable)
# A key which b only has through its YAML Merge Key is matched (b.k) and
# reported as deleted, but the written document still gives b that key.
# ---------------------------------------------------------------------------
def case_10():
    text = "a: &x\n  k: 1\nb:\n  <<: *x\n  z: 9\n"
    path = "/b/k"
    (error, after) = run_delete(text, path)
    print("=" * 78)
    print("CASE 10 (informational, not counted)  key present only through a"
          " YAML Merge Key")
    print("operation       : delete_nodes({!r}); matched {}".format(
        path, matched_values(text, path)))
    print("code did        : {}".format(describe(error, after)))
    print("note            : the delete reports b.k as deleted, the saved"
          " document still has b.k")


def main():
    for case in (case_1, case_2, case_3, case_4, case_5, case_6, case_7,
                 case_8, case_9, case_10):
        case()
    print("=" * 78)
    print("{} violating case(s): {}".format(
        len(VIOLATIONS), "; ".join(VIOLATIONS) if VIOLATIONS else "none"))
    return 1 if VIOLATIONS else 0


if __name__ == "__main__":
    sys.exit(main())
