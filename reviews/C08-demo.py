#!/usr/bin/env python
"""
Demonstrations: inputs for which YAMLPath violates the property

  "Path text and parsed segments round-trip in both notations"

Run:  cd /tmp/wt5-C08 && PYTHONPATH=/tmp/wt5-C08 /venv/bin/python demo.py
Exit status 1 when at least one case violates the property, else 0.

Only public entry points are used:  YAMLPath(text), .escaped, str(), the
.separator property, ==, and the public attributes of SearchTerms,
SearchKeywordTerms and CollectorTerms.
"""
import sys

from yamlpath import YAMLPath
from yamlpath.enums import PathSeparators
from yamlpath.path import SearchTerms, SearchKeywordTerms, CollectorTerms

DOT = PathSeparators.DOT
FSLASH = PathSeparators.FSLASH


# --------------------------------------------------------------------------
# helpers
# --------------------------------------------------------------------------
def plain(segment):
    """Reduce one parsed segment to plain, comparable, printable data."""
    stype, attrs = segment
    if isinstance(attrs, SearchTerms):
        return (stype.name, "inverted=%s" % attrs.inverted, attrs.method.name,
                attrs.attribute, attrs.term)
    if isinstance(attrs, SearchKeywordTerms):
        return (stype.name, "inverted=%s" % attrs.inverted,
                attrs.keyword.name, list(attrs.parameters))
    if isinstance(attrs, CollectorTerms):
        return (stype.name, attrs.operation.name, segments(attrs.expression))
    return (stype.name, attrs)


def segments(text):
    """Parse text; return plain segments, or a string naming the error."""
    try:
        return [plain(seg) for seg in YAMLPath(text).escaped]
    except Exception as ex:  # pylint: disable=broad-except
        return "%s: %s" % (type(ex).__name__, str(ex)[:110])


def canonical(text, separator=None):
    """The canonical string of the parsed path, optionally re-notated."""
    try:
        path = YAMLPath(text)
        path.escaped  # parse first, under the notation of the text itself
        str(path)
        if separator is not None:
            path.separator = separator
        return str(path)
    except Exception as ex:  # pylint: disable=broad-except
        return "%s: %s" % (type(ex).__name__, str(ex)[:110])


RESULTS = []


def report(label, clause, given, demanded, observed, violated):
    print("=" * 78)
    print("CASE %s" % label)
    print("  clause   : %s" % clause)
    print("  input    : %s" % given)
    print("  demanded : %s" % demanded)
    print("  observed : %s" % observed)
    print("  verdict  : %s" % ("VIOLATION" if violated else "ok"))
    RESULTS.append((label, violated))


def write_case(label, clause, text, expected):
    """Writing `expected` as `text` and parsing it must give `expected`."""
    got = segments(text)
    report(label, clause, repr(text), expected, got, got != expected)


def canon_case(label, clause, text, separator):
    """str(parsed path), in the given notation, must re-parse identically."""
    before = segments(text)
    canon = canonical(text, separator)
    after = segments(canon)
    fixed = canonical(canon)
    sepname = separator.name if separator else "own"
    violated = (after != before) or (
        after == before and separator is None and fixed != canon)
    report(
        label, clause,
        "%r parses to %s" % (text, before),
        "its canonical string (%s notation) re-parses to the same segments"
        " and is a fixed point" % sepname,
        "canonical %r re-parses to %s; canonical of that is %r"
        % (canon, after, fixed),
        violated)


def eq_case(label, clause, lhs, rhs):
    """== must hold exactly when the parsed segments are equal."""
    seg_l, seg_r = segments(lhs), segments(rhs)
    same = seg_l == seg_r
    try:
        equal = YAMLPath(lhs) == YAMLPath(rhs)
    except Exception as ex:  # pylint: disable=broad-except
        equal = "%s" % type(ex).__name__
    report(
        label, clause,
        "%r -> %s   versus   %r -> %s" % (lhs, seg_l, rhs, seg_r),
        "== is %s (segments %s)" % (same, "equal" if same else "differ"),
        "== is %s" % equal,
        equal != same)


# --------------------------------------------------------------------------
# 1. A Collector whose inner path starts with an Anchor
# --------------------------------------------------------------------------
# Clause violated: "writing any well-formed sequence of segments as text ...
# and parsing it gives back exactly those segments (... collector operator and
# inner path)".  The & is swallowed and the segment comes back typed ANCHOR
# while carrying CollectorTerms.  Only the very first position of a
# dot-notation path is spared, so ...
write_case(
    "1a collector of an anchored path, forward-slash notation",
    "write -> parse (collector operator and inner path)",
    "/(&anc)",
    [("COLLECTOR", "NONE", [("ANCHOR", "anc")])])
write_case(
    "1b collector of an anchored path, after another segment, dot notation",
    "write -> parse (collector operator and inner path)",
    "key.(&anc)",
    [("KEY", "key"), ("COLLECTOR", "NONE", [("ANCHOR", "anc")])])
# ... clause violated here: "the canonical string of a parsed path re-parses
# to the same segments in either notation".
canon_case(
    "1c canonical forward-slash string of dot path (&anc)",
    "canonical string re-parses to the same segments in either notation",
    "(&anc)", FSLASH)

# --------------------------------------------------------------------------
# 2. Text with a backslash right before a special character
# --------------------------------------------------------------------------
# README documents \\ as the escape for a backslash (`keys_with_\\slashes`).
# Clause violated: "the canonical string of a parsed path re-parses to the
# same segments in either notation and is a fixed point".  The stringifier
# takes the (escaped) backslash for the escape of the character after it.
canon_case(
    "2a demarcated key  a\\ b  (backslash then space), own notation",
    "canonical string re-parses to the same segments and is a fixed point",
    "'a\\\\ b'", None)
canon_case(
    "2b forward-slash key  a\\.b  rendered in dot notation",
    "canonical string re-parses to the same segments in either notation",
    "/a\\\\.b", DOT)
canon_case(
    "2c dot key  a\\/b  rendered in forward-slash notation",
    "canonical string re-parses to the same segments in either notation",
    "a\\\\/b", FSLASH)
canon_case(
    "2d demarcated search term  b\\ c  (backslash then space)",
    "canonical string re-parses to the same segments and is a fixed point",
    "x[a=\"b\\\\ c\"]", None)
# Clause violated: "two paths compare equal exactly when their segments are
# equal" (same root: the term \$ is stringified like the term $).
eq_case(
    "2e search terms  $  and  \\$  compare equal",
    "equal exactly when segments are equal",
    "x[a=\\$]", "x[a=\\\\\\$]")

# --------------------------------------------------------------------------
# 3. Demarcated (quoted) text which contains parentheses or brackets
# --------------------------------------------------------------------------
# README: "Demarcate and/or escape expression operands, like
# hash[full\ name="Some User\'s Name"]" and "Demarcation for dotted Hash
# keys".  Clause violated: "writing ... with the documented escapes and
# demarcation, and parsing it gives back exactly those segments".
# 3a and 3b fail silently (no error, other segments).
write_case(
    "3a demarcated search term with parentheses",
    "write (demarcation) -> parse (search attribute/operator/term)",
    "/users[name=\"User (One)\"]",
    [("KEY", "users"),
     ("SEARCH", "inverted=False", "EQUALS", "name", "User (One)")])
write_case(
    "3b demarcated key with parentheses",
    "write (demarcation) -> parse (key text)",
    "/\"a(b)\"",
    [("KEY", "a(b)")])
write_case(
    "3c demarcated search term with a closing bracket",
    "write (demarcation) -> parse (search term)",
    "x[a=\"b]\"]",
    [("KEY", "x"), ("SEARCH", "inverted=False", "EQUALS", "a", "b]")])
write_case(
    "3d demarcated keyword parameter with parentheses",
    "write (demarcation) -> parse (keyword and parameters)",
    "x[has_child('b(c)')]",
    [("KEY", "x"), ("KEYWORD_SEARCH", "inverted=False", "HAS_CHILD",
                    ["b(c)"])])

# --------------------------------------------------------------------------
# 4. Equality which disagrees with the segments
# --------------------------------------------------------------------------
# Clause violated: "two paths compare equal exactly when their segments are
# equal".  4a/4b: different attribute + operator + inversion, yet equal.
# 4c/4d: same keyword and same parameters, yet unequal.
eq_case(
    "4a attribute 'a!' EQUALS  versus  attribute 'a' NOT EQUALS",
    "equal exactly when segments are equal",
    "x[a\\!=c]", "x[a!=c]")
eq_case(
    "4b attribute 'a<' EQUALS  versus  attribute 'a' LESS_THAN_OR_EQUAL",
    "equal exactly when segments are equal",
    "x[a\\<=1]", "x[a<=1]")
eq_case(
    "4c keyword parameter bare versus demarcated",
    "equal exactly when segments are equal",
    "x[has_child(a)]", "x[has_child(\"a\")]")
eq_case(
    "4d keyword parameter escaped versus demarcated",
    "equal exactly when segments are equal",
    "x[has_child(a\\ b)]", "x[has_child('a b')]")

# --------------------------------------------------------------------------
# 5. A Regular Expression inside a Collector
# --------------------------------------------------------------------------
# Clause violated: "writing ... and parsing it gives back exactly those
# segments (... collector operator and inner path)".  Outside a Collector the
# same searches round-trip (5a, 5c show it); inside, the blank is dropped (5b)
# and a quotation mark in the expression is an error (5d).
write_case(
    "5a (control) regex with a blank, outside a collector",
    "write -> parse (search term)",
    "/users[name=~/User One/]",
    [("KEY", "users"),
     ("SEARCH", "inverted=False", "REGEX", "name", "User One")])
write_case(
    "5b regex with a blank, inside a collector",
    "write -> parse (collector inner path)",
    "(/users[name=~/User One/])",
    [("COLLECTOR", "NONE", [
        ("KEY", "users"),
        ("SEARCH", "inverted=False", "REGEX", "name", "User One")])])
write_case(
    "5c (control) regex with an apostrophe, outside a collector",
    "write -> parse (search term)",
    "/users[name=~/O'Neil/]",
    [("KEY", "users"),
     ("SEARCH", "inverted=False", "REGEX", "name", "O'Neil")])
write_case(
    "5d regex with an apostrophe, inside a collector",
    "write -> parse (collector inner path)",
    "(/users[name=~/O'Neil/])",
    [("COLLECTOR", "NONE", [
        ("KEY", "users"),
        ("SEARCH", "inverted=False", "REGEX", "name", "O'Neil")])])

# --------------------------------------------------------------------------
# 6. A key that starts with + or - right after a Collector
# --------------------------------------------------------------------------
# Clause violated: "writing any well-formed sequence of segments as text ...
# and parsing it gives back exactly those segments".  The separator does not
# end the hunt for a collector operator; the same keys are fine anywhere else
# (6a shows it).
write_case(
    "6a (control) key -b after a plain key",
    "write -> parse (key text)",
    "/a/-b", [("KEY", "a"), ("KEY", "-b")])
write_case(
    "6b key -b after a collector",
    "write -> parse (key text)",
    "/(a)/-b", [("COLLECTOR", "NONE", [("KEY", "a")]), ("KEY", "-b")])
write_case(
    "6c key + after a collector (dropped without any error)",
    "write -> parse (key text)",
    "/(a)/+", [("COLLECTOR", "NONE", [("KEY", "a")]), ("KEY", "+")])
write_case(
    "6d demarcated key '-b' after a collector",
    "write (demarcation) -> parse (key text)",
    "(a).'-b'", [("COLLECTOR", "NONE", [("KEY", "a")]), ("KEY", "-b")])

# --------------------------------------------------------------------------
# 7. Wildcard key with an escaped character
# --------------------------------------------------------------------------
# Clause violated: "the canonical string of a parsed path re-parses to the
# same segments".  The parsed term is ^a.b.*c$ but the canonical string
# carries ^a\.b.*c$ (a Regular Expression is taken verbatim on re-parse).
canon_case(
    "7 wildcard key  a\\.b*c",
    "canonical string re-parses to the same segments",
    "a\\.b*c", None)

# --------------------------------------------------------------------------
# 8. Demarcated keys spelled like an Anchor, * or **
# --------------------------------------------------------------------------
# Clause violated: "the canonical string of a parsed path re-parses to the
# same segments ... and is a fixed point".  The parser gives KEY, the
# canonical string drops the demarcation and escapes nothing.
canon_case(
    "8a demarcated key \"&anc\"",
    "canonical string re-parses to the same segments",
    "\"&anc\"", None)
canon_case(
    "8b demarcated key '*'",
    "canonical string re-parses to the same segments",
    "hash.'*'", None)
canon_case(
    "8c demarcated key '**'",
    "canonical string re-parses to the same segments",
    "hash.'**'", None)

# --------------------------------------------------------------------------
# 9. Anchor names containing the other notation's separator, or an operator
# --------------------------------------------------------------------------
# (&a.b and &a/b are legal YAML anchor names.)  Clause violated: "the
# canonical string of a parsed path re-parses to the same segments in either
# notation" (anchor name).
canon_case(
    "9a anchor a.b of a forward-slash path rendered in dot notation",
    "canonical string re-parses to the same segments in either notation",
    "/&a.b", DOT)
canon_case(
    "9b anchor a/b of a dot path rendered in forward-slash notation",
    "canonical string re-parses to the same segments in either notation",
    "&a/b", FSLASH)
canon_case(
    "9c anchor a=b after another segment",
    "canonical string re-parses to the same segments and is a fixed point",
    "/x/&a=b", None)

# --------------------------------------------------------------------------
# 10. A Regular Expression using every delimiter the stringifier knows
# --------------------------------------------------------------------------
# Contrived.  Clause violated: "the canonical string of a parsed path
# re-parses to the same segments".
canon_case(
    "10 regex containing all of /|_#@;:,`-+& and every digit",
    "canonical string re-parses to the same segments",
    "x[a=~!/|_#@;:,`-+&0123456789!]", None)

# --------------------------------------------------------------------------
print("=" * 78)
BAD = [label for (label, violated) in RESULTS if violated]
print("%d case(s) run, %d violate the property:" % (len(RESULTS), len(BAD)))
for label in BAD:
    print("  - " + label)
sys.exit(1 if BAD else 0)
