#!/usr/bin/env python
"""
Review of property C12 "Search operators compare values by the documented
typed rules" against the code as it is.

Run as:  cd /tmp/wt5-C12 && PYTHONPATH=/tmp/wt5-C12 /venv/bin/python demo.py

Every case builds its own input, uses only public entry points
(yamlpath.Processor.get_nodes / set_value, yamlpath.common.Searches
.search_matches, yamlpath.common.Parsers), prints the input, what the property
demands and what the code did.  Exit status 1 when at least one case violates
the property, 0 otherwise.
"""
import sys
import warnings
from types import SimpleNamespace

from yamlpath import Processor
from yamlpath.common import Parsers, Searches
from yamlpath.enums import PathSearchMethods as M
from yamlpath.exceptions import YAMLPathException
from yamlpath.wrappers import ConsolePrinter

warnings.simplefilter("ignore")
LOG = ConsolePrinter(SimpleNamespace(verbose=False, quiet=True, debug=False))
VIOLATIONS = []


def load(text):
    """Parse one YAML document with the project's own loader."""
    editor = Parsers.get_yaml_editor()
    data, ok = Parsers.get_yaml_data(editor, LOG, text, literal=True)
    assert ok, "the demo's own YAML failed to load"
    return data


def paths(data, yaml_path):
    """Return the paths of all nodes matched; [] when nothing matches."""
    proc = Processor(LOG, data)
    try:
        return [str(n.path) for n in proc.get_nodes(yaml_path, mustexist=False)]
    except YAMLPathException as ex:
        return "YAMLPathException: {}".format(ex)
    except Exception as ex:                     # pylint: disable=broad-except
        return "RAISED {}: {}".format(type(ex).__name__, str(ex)[:70])


def match(method, needle, haystack):
    """Searches.search_matches, reporting any exception as text."""
    try:
        return Searches.search_matches(method, needle, haystack)
    except YAMLPathException as ex:
        return "YAMLPathException: {}".format(ex)
    except Exception as ex:                     # pylint: disable=broad-except
        return "RAISED {}: {}".format(type(ex).__name__, str(ex)[:70])


def case(label, clause, shown_input, demanded, observed):
    """Print one labelled case and record whether it violates."""
    bad = observed != demanded
    print("=" * 78)
    print("CASE {}: {}".format(label, "VIOLATION" if bad else "ok"))
    print("  clause   : {}".format(clause))
    print("  input    : {}".format(shown_input))
    print("  demanded : {!r}".format(demanded))
    print("  observed : {!r}".format(observed))
    if bad:
        VIOLATIONS.append(label)


# ---------------------------------------------------------------------------
# 1. A boolean that carries an Anchor (or that was written by set_value) is a
#    ruamel ScalarBoolean, which is an int subclass whose str() is "1"/"0".
#    Violated clause: "booleans match their case-insensitive spellings" and
#    "equality is ... textual otherwise" (a boolean is not the number 1).
# ---------------------------------------------------------------------------
DOC1 = "l: [&b true, true]\n"
CL1 = "booleans match their case-insensitive spellings"
case("1a anchored true vs [.=true]", CL1,
     "{!r}  path l[.=true]".format(DOC1),
     ["l[0]", "l[1]"], paths(load(DOC1), "l[.=true]"))
case("1b anchored true vs [.=TRUE]", CL1,
     "{!r}  path l[.=TRUE]".format(DOC1),
     ["l[0]", "l[1]"], paths(load(DOC1), "l[.=TRUE]"))
case("1c anchored true vs [.=1]",
     "equality is numeric only when both sides are numbers, textual otherwise",
     "{!r}  path l[.=1]".format(DOC1),
     [], paths(load(DOC1), "l[.=1]"))
case("1d hash attribute, anchored false vs [f=false]", CL1,
     "'h: {f: &x false}'  path h[f=false]",
     ["h.f"], paths(load("h: {f: &x false}\n"), "h[f=false]"))
# sequence of operations: set_value(True) then search for it
D1E = load("l: [false]\n")
Processor(LOG, D1E).set_value("l[0]", True)
case("1e set_value('l[0]', True) then [.=true]", CL1,
     "'l: [false]' ; Processor.set_value('l[0]', True) ; path l[.=true]",
     ["l[0]"], paths(D1E, "l[.=true]"))

# ---------------------------------------------------------------------------
# 2. Dates (explicitly in the property's pool).  A YAML date is loaded as the
#    project's AnchoredDate (a datetime subclass); the operators see
#    "2001-12-25 00:00:00" while yaml-get prints the same node as 2001-12-25.
#    Violated clauses: "equality is ... textual otherwise", "prefix/suffix/
#    substring tests act on the value's text", "ordering is ... lexicographic
#    for text".
# ---------------------------------------------------------------------------
DOC2 = "d: [2001-12-25]\n"
case("2a date equals its own text", "equality is textual for non-numbers",
     "{!r}  path d[.=2001-12-25]".format(DOC2),
     ["d[0]"], paths(load(DOC2), "d[.=2001-12-25]"))
case("2b date ends with 25", "suffix test acts on the value's text",
     "{!r}  path d[.$25]".format(DOC2),
     ["d[0]"], paths(load(DOC2), "d[.$25]"))
case("2c date does not end with 0", "suffix test acts on the value's text",
     "{!r}  path d[.$0]".format(DOC2),
     [], paths(load(DOC2), "d[.$0]"))
case("2d date is not greater than itself", "ordering is lexicographic for text",
     "{!r}  path d[.>2001-12-25]".format(DOC2),
     [], paths(load(DOC2), "d[.>2001-12-25]"))
case("2e date is less-than-or-equal to itself",
     "ordering is lexicographic for text",
     "{!r}  path d[.<=2001-12-25]".format(DOC2),
     ["d[0]"], paths(load(DOC2), "d[.<=2001-12-25]"))
case("2f anchored regex on a date", "a regular expression is searched in the "
     "value's text", "{!r}  path d[.=~/^2001-12-25$/]".format(DOC2),
     ["d[0]"], paths(load(DOC2), "d[.=~/^2001-12-25$/]"))
DOC2G = "t: [2001-12-14t21:59:43.10-05:00]\n"
case("2g timestamp with a time zone starts with its own date",
     "prefix test acts on the value's text (the code shifts it to UTC: "
     "2001-12-15 02:59:43.100000)",
     "{!r}  path t[.^2001-12-14]".format(DOC2G),
     ["t[0]"], paths(load(DOC2G), "t[.^2001-12-14]"))

# ---------------------------------------------------------------------------
# 3. Text that happens to parse as a Python literal other than a number or a
#    boolean (tuple, list, set, dict, complex, Ellipsis, quoted string) is
#    replaced by the repr of that literal before the TEXTUAL comparison.
#    Violated clause: "equality is ... textual otherwise", "prefix/suffix/
#    substring tests act on the value's text".
# ---------------------------------------------------------------------------
DOC3 = "l: ['1,2']\n"
case("3a text '1,2' equals the term 1,2", "equality is textual for non-numbers",
     "{!r}  path l[.=1,2]".format(DOC3),
     ["l[0]"], paths(load(DOC3), "l[.=1,2]"))
case("3b plain (unquoted) 1,000 equals the term '1,000'",
     "equality is textual for non-numbers",
     "'l:\\n  - 1,000\\n'  path l[.='1,000']",
     ["l[0]"], paths(load("l:\n  - 1,000\n"), "l[.='1,000']"))
case("3c text '1,2' starts with '1,'", "prefix test acts on the value's text",
     "search_matches(STARTS_WITH, '1,', '1,2')",
     True, match(M.STARTS_WITH, "1,", "1,2"))
case("3d text '1,2' does not equal the term '(1, 2)'",
     "equality is textual for non-numbers",
     "search_matches(EQUALS, '(1, 2)', '1,2')",
     False, match(M.EQUALS, "(1, 2)", "1,2"))
case("3e text '[1,2]' equals the term [1,2]",
     "equality is textual for non-numbers",
     "search_matches(EQUALS, '[1,2]', '[1,2]')",
     True, match(M.EQUALS, "[1,2]", "[1,2]"))
case("3f text '...' equals the term ...", "equality is textual for non-numbers",
     "search_matches(EQUALS, '...', '...')",
     True, match(M.EQUALS, "...", "..."))
case("3g text \"'abc'\" (5 characters, with the quote marks) does not equal abc",
     "equality is textual for non-numbers",
     "search_matches(EQUALS, 'abc', \"'abc'\")",
     False, match(M.EQUALS, "abc", "'abc'"))
case("3h text '1,2' is not less than 1 lexicographically",
     "ordering is lexicographic for text",
     "search_matches(LESS_THAN, '1', '1,2')",
     False, match(M.LESS_THAN, "1", "1,2"))

# ---------------------------------------------------------------------------
# 4. Prefix / suffix / substring / regex tests on a STRING whose spelling is
#    number- or boolean-like run against the re-rendered Python value, not the
#    value's text.
#    Violated clause: "prefix/suffix/substring tests act on the value's text, a
#    regular expression is searched ... in the value's text".
# ---------------------------------------------------------------------------
DOC4 = 'l: ["0.10", "1e3", "+5", "0x10", "1_000", "TRUE", "1."]\n'
CL4 = "prefix/suffix/substring/regex tests act on the value's text"
D4 = load(DOC4)
case("4a '0.10' ends with 0", CL4, "{!r}  path l[.$10]".format(DOC4),
     ["l[0]"], paths(D4, "l[.$10]"))
case("4b '0.10' matches /^0\\.10$/", CL4,
     "{!r}  path l[.=~/^0\\.10$/]".format(DOC4),
     ["l[0]"], paths(D4, "l[.=~/^0\\.10$/]"))
case("4c '1e3' starts with 1e", CL4, "{!r}  path l[.^1e]".format(DOC4),
     ["l[1]"], paths(D4, "l[.^1e]"))
case("4d '+5' starts with +", CL4, "{!r}  path l[.^+]".format(DOC4),
     ["l[2]"], paths(D4, "l[.^+]"))
case("4e '0x10' starts with 0x", CL4, "{!r}  path l[.^0x]".format(DOC4),
     ["l[3]"], paths(D4, "l[.^0x]"))
case("4f '1_000' contains _", CL4, "{!r}  path l[.%_]".format(DOC4),
     ["l[4]"], paths(D4, "l[.%_]"))
case("4g 'TRUE' starts with TR", CL4, "{!r}  path l[.^TR]".format(DOC4),
     ["l[5]"], paths(D4, "l[.^TR]"))
case("4h '1.' ends with .", CL4, "{!r}  path l[.$.]".format(DOC4),
     ["l[6]"], paths(D4, "l[.$.]"))
case("4i '0x10' does not contain 16", CL4, "{!r}  path l[.%16]".format(DOC4),
     [], paths(D4, "l[.%16]"))

# ---------------------------------------------------------------------------
# 5. Inversion.  A Hash candidate searched by a descendant attribute that
#    resolves to more than one node is yielded by BOTH the plain and the
#    inverted search (plain: ANY descendant matches; inverted: ANY descendant
#    does not match).
#    Violated clause: "An inverted search over a set of candidates yields
#    exactly the candidates the plain search does not."
# ---------------------------------------------------------------------------
DOC5 = "a: {p: 1, q: 2}\n"
PLAIN5 = paths(load(DOC5), "/[a.*=1]")
INV5 = paths(load(DOC5), "/[a.*!=1]")
case("5a plain and inverted descendant search are disjoint",
     "inverted search yields exactly the candidates the plain search does not",
     "{!r}  /[a.*=1] -> {}   /[a.*!=1] -> {}".format(DOC5, PLAIN5, INV5),
     [], sorted(set(PLAIN5) & set(INV5)))
DOC5B = "top: {items: [{x: 1}, {x: 2}]}\n"
PLAIN5B = paths(load(DOC5B), "top[items.x=1]")
INV5B = paths(load(DOC5B), "top[items.x!=1]")
case("5b same through an Array-of-Hashes pass-through attribute",
     "inverted search yields exactly the candidates the plain search does not",
     "{!r}  top[items.x=1] -> {}   top[items.x!=1] -> {}".format(
         DOC5B, PLAIN5B, INV5B),
     [], sorted(set(PLAIN5B) & set(INV5B)))

# ---------------------------------------------------------------------------
# 6. A boolean VALUE is still ordered as the number 1/0 against a numeric term
#    (commit "a boolean is not a number" only covered boolean TERMS).
#    Violated clause: "ordering is numeric for numeric values ... and
#    lexicographic for text" - neither "True" nor "true" sorts before "2"/"1".
# ---------------------------------------------------------------------------
DOC6 = "l: [true]\n"
case("6a true < 2", "ordering is numeric only for numeric values",
     "{!r}  path l[.<2]".format(DOC6), [], paths(load(DOC6), "l[.<2]"))
case("6b true <= 1", "ordering is numeric only for numeric values",
     "{!r}  path l[.<=1]".format(DOC6), [], paths(load(DOC6), "l[.<=1]"))

# ---------------------------------------------------------------------------
# 7. The comparison raises for a well-formed term.
#    Violated clause: "the comparison never raises for a well-formed term".
# ---------------------------------------------------------------------------
BIGHEX = "0x1" + "0" * 3572
DOC7 = "v: '{}'\n".format(BIGHEX)
case("7a text value that is a 3575-character hexadecimal literal, [.^0x]",
     "the comparison never raises for a well-formed term",
     "'v: \"0x1\" + \"0\"*3572'  path v[.^0x]",
     ["v"], paths(load(DOC7), "v[.^0x]"))
case("7b same value, [.=abc]",
     "the comparison never raises for a well-formed term",
     "'v: \"0x1\" + \"0\"*3572'  path v[.=abc]",
     [], paths(load(DOC7), "v[.=abc]"))
R7C = match(M.REGEX, "a{4294967295}", "a")
case("7c regular expression a{4294967295} (syntactically valid; Python's re "
     "raises OverflowError, which is not re.error)",
     "never raises (other than the documented YAMLPathException for an "
     "invalid expression)",
     "search_matches(REGEX, 'a{4294967295}', 'a')",
     True, isinstance(R7C, bool) or str(R7C).startswith("YAMLPathException"))
print("  (7c raw result: {})".format(R7C))

# ---------------------------------------------------------------------------
# 8. (lowest confidence) null is compared as the Python text "None".
#    Violated clause: "prefix/suffix/substring tests act on the value's text" -
#    no YAML spelling of null (~, null, Null, NULL, empty) contains "one".
# ---------------------------------------------------------------------------
DOC8 = "l: [~, null]\n"
case("8a null contains 'one'", "substring test acts on the value's text",
     "{!r}  path l[.%one]".format(DOC8), [], paths(load(DOC8), "l[.%one]"))
case("8b null equals the term None", "equality is textual for non-numbers",
     "{!r}  path l[.=None]".format(DOC8), [], paths(load(DOC8), "l[.=None]"))

print("=" * 78)
print("{} violating case(s): {}".format(len(VIOLATIONS), ", ".join(
    v.split(" ")[0] for v in VIOLATIONS)))
sys.exit(1 if VIOLATIONS else 0)
