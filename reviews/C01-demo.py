#!/usr/bin/env python
"""
Reproductions of violations of the property

  "Query results equal the documented YAML Path segment semantics"

Run as:  cd /tmp/wt5-C01 && PYTHONPATH=/tmp/wt5-C01 /venv/bin/python demo.py

Every case builds its own document, runs one or more YAML Paths through the
public Processor API (exists(), get_nodes(mustexist=True), get_nodes()) and
compares the selected nodes -- identified by their position in the document,
i.e. the chain of keys/indexes from the root -- with what the documented
segment semantics (README.md, "Supported YAML Path Segments") demand.

Exit status:  1 when at least one case violates the property; 0 otherwise.
"""
import sys
from types import SimpleNamespace

from ruamel.yaml.comments import CommentedSeq, CommentedSet

from yamlpath import Processor
from yamlpath.common import Parsers
from yamlpath.exceptions import YAMLPathException
from yamlpath.wrappers import ConsolePrinter, NodeCoords

LOG = ConsolePrinter(SimpleNamespace(quiet=True, verbose=False, debug=False))
VIOLATIONS = []


def load(text):
    """Parse one YAML document with the project's own loader."""
    editor = Parsers.get_yaml_editor()
    (data, loaded) = Parsers.get_yaml_data(editor, LOG, text, literal=True)
    assert loaded, text
    return data


def positions(data):
    """Map (id(parent), ref) -> chain of refs from the root, in doc order."""
    index = {}

    def walk(node, chain):
        if isinstance(node, dict):
            for key, val in node.items():
                index[(id(node), repr(key))] = chain + (key,)
                walk(val, chain + (key,))
        elif isinstance(node, list):
            for idx, val in enumerate(node):
                index[(id(node), repr(idx))] = chain + (idx,)
                walk(val, chain + (idx,))
        elif isinstance(node, (set, CommentedSet)):
            for member in node:
                index[(id(node), repr(member))] = chain + (member,)
    walk(data, ())
    return index


def flatten(node_coord, out):
    """Expand slice results (lists of NodeCoords) into their members."""
    node = node_coord.node
    if isinstance(node, list) and not isinstance(node, CommentedSeq):
        for ele in node:
            if isinstance(ele, NodeCoords):
                flatten(ele, out)
        return
    if isinstance(node, NodeCoords):
        flatten(node, out)
        return
    out.append(node_coord)


def select(data, path, mode="required"):
    """
    Run a query; return the selected nodes as ref-chains from the root.

    mode:  "required" -> get_nodes(mustexist=True)
           "optional" -> get_nodes(mustexist=False)
    A query which matches nothing returns [].
    """
    proc = Processor(LOG, data)
    try:
        found = list(proc.get_nodes(path, mustexist=(mode == "required")))
    except YAMLPathException as ex:
        if "does not match any nodes" in str(ex):
            return []
        return "YAMLPathException: {}".format(ex)
    flat = []
    for node_coord in found:
        flatten(node_coord, flat)
    index = positions(data)
    chains = []
    for node_coord in flat:
        ref = node_coord.parentref
        par = node_coord.parent
        if isinstance(par, list) and isinstance(ref, int) and ref < 0:
            ref += len(par)
        if par is None:
            chains.append(())
        else:
            chains.append(index.get((id(par), repr(ref)), ("?", ref)))
    return chains


def case(label, clause, yaml_text, path, expected, why, mode="required"):
    """Run one labelled case and record whether it violates the property."""
    data = load(yaml_text)
    observed = select(data, path, mode)
    bad = observed != expected
    print("=" * 78)
    print("CASE {}".format(label))
    print("  clause violated : {}".format(clause))
    print("  document        : {}".format(yaml_text.strip()))
    print("  YAML Path       : {}   ({} match)".format(path, mode))
    print("  property demands: {}   -- {}".format(expected, why))
    print("  code selected   : {}".format(observed))
    print("  verdict         : {}".format("VIOLATION" if bad else "ok"))
    if bad:
        VIOLATIONS.append(label)
    return observed


def note(label, clause, lines, bad):
    """Record a hand-evaluated case."""
    print("=" * 78)
    print("CASE {}".format(label))
    print("  clause violated : {}".format(clause))
    for line in lines:
        print("  " + line)
    print("  verdict         : {}".format("VIOLATION" if bad else "ok"))
    if bad:
        VIOLATIONS.append(label)


# ---------------------------------------------------------------------------
# 1.  Array slices whose bounds have different signs
# Clause:  "a query selects exactly the nodes that the documented segment
# semantics select: ... in document order, none missing and none extra".
# README: "Array slicing: array[start#:stop#] where start# is the first
# inclusive, zero-based element and stop# is the last exclusive element to
# select; either or both can be negative, causing the elements to be selected
# from the end of the Array".
# ---------------------------------------------------------------------------
SLICE_CLAUSE = "exact node set, document order, none missing / none extra (slice)"
case("1a slice [-2:3] of a 3-element array", SLICE_CLAUSE,
     "l: [a, b, c]", "l[-2:3]",
     [("l", 1), ("l", 2)],
     "start=-2 is element 1 (from the end), stop=3 is exclusive: b, c")
case("1b slice [0:-1] of a 3-element array", SLICE_CLAUSE,
     "l: [a, b, c]", "l[0:-1]",
     [("l", 0), ("l", 1)],
     "stop=-1 is the last element, exclusive: a, b")
case("1c slice [-1:0] of a 3-element array", SLICE_CLAUSE,
     "l: [a, b, c]", "l[-1:0]",
     [],
     "start is the last element, stop is element 0 (exclusive): nothing")

# ---------------------------------------------------------------------------
# 2.  A boolean value ordered against a numeric term
# Clause:  search segments, "all nine operators".  The project's own rule
# (searches.py: "a boolean term is not a number") and [.=1] not selecting
# true say booleans are not numbers; yet < > <= >= treat true/false as 1/0.
# ---------------------------------------------------------------------------
SEARCH_CLAUSE = "search operator semantics: none missing / none extra"
case("2a [.>0] over booleans and integers", SEARCH_CLAUSE,
     "l: [true, false, 1, 0]", "l[.>0]",
     [("l", 2)],
     "only the integer 1 is a number greater than 0 ([.=1] selects only it)")
case("2b [.<1] over booleans and integers", SEARCH_CLAUSE,
     "l: [true, false, 1, 0]", "l[.<1]",
     [("l", 3)],
     "only the integer 0 is a number less than 1")

# ---------------------------------------------------------------------------
# 3.  Deep traversal selects one node twice
# Clause:  "the same node objects ... none extra".  README: with a following
# segment, ** "matches every node ... for which the following segments
# match" -- every node, not every node once per way of reaching it.
# ---------------------------------------------------------------------------
case("3a **[.=a] where a key and its value both read 'a'",
     "none extra (a node is selected twice)",
     "{a: a}", "**[.=a]",
     [("a",)],
     "the document has exactly one node below the root")
case("3b **.*.a through nested Arrays",
     "none extra (a node is selected twice)",
     "[[{a: 1}]]", "**.*.a",
     [(0, 0, "a")],
     "there is exactly one node with the key a")

# ---------------------------------------------------------------------------
# 4.  Text operators run on a re-typed copy of a String value
# Clause:  search semantics (=, ^, $, %, =~ on a String compare its text).
# Searches.search_matches passes every String through ast.literal_eval, so a
# String which happens to read like a Python literal is compared as the
# *evaluated* literal rather than as its own text.
# ---------------------------------------------------------------------------
case("4a [.^0x] over the String \"0x10\"", SEARCH_CLAUSE + " (missing)",
     'l: ["0x10", zz]', "l[.^0x]",
     [("l", 0)],
     "the String 0x10 starts with 0x")
case("4b [.=a] over the Strings \"'a'\" and a", SEARCH_CLAUSE + " (extra)",
     "l: [\"'a'\", a]", "l[.=a]",
     [("l", 1)],
     "only the second element equals a; the first is 'a' with quote marks")
case("4c [.=10] over the String \"1_0\"", SEARCH_CLAUSE + " (extra)",
     'l: ["1_0", x]', "l[.=10]",
     [],
     "no element is 10")
case("4d [.%e] over the String \"1e3\"", SEARCH_CLAUSE + " (missing)",
     'l: ["1e3", x]', "l[.%e]",
     [("l", 0)],
     "the String 1e3 contains an e")

# ---------------------------------------------------------------------------
# 5.  Search on a named attribute whose key is an integer
# Clause:  "string/integer-like keys"; search "on a named attribute".
# hash[1=x] selects the attribute's value when the key is the String '1'
# but selects the *parent hash* when the key is the Integer 1.
# ---------------------------------------------------------------------------
case("5a h[1=x] with the String key '1' (reference behaviour)",
     "n/a (reference)",
     "h: {'1': x, b: y}", "h[1=x]",
     [("h", "1")],
     "attribute search on a Hash yields the matching attribute (as h[b=y])")
case("5b h[1=x] with the Integer key 1",
     "same node for string / integer-like keys",
     "h: {1: x, b: y}", "h[1=x]",
     [("h", 1)],
     "the same attribute search must yield the attribute, not the Hash h")

# ---------------------------------------------------------------------------
# 6.  Descendant attribute search inspects only the first descendant when the
# searched node is an Array element but ANY descendant otherwise
# Clause:  "none missing".  The same element is selected by l[0][a.b=x] and
# by l.*[a.b=x] (code comment: "return every node which has ANY descendent
# matching the search expression") but not by l[a.b=x].
# ---------------------------------------------------------------------------
DESC_DOC = "l: [{a: [{b: y}, {b: x}]}]"
case("6a l.*[a.b=x] (reference behaviour)", "n/a (reference)",
     DESC_DOC, "l.*[a.b=x]", [("l", 0)],
     "element 0 has a descendant a.b equal to x")
case("6b l[a.b=x]", "none missing (descendant search)",
     DESC_DOC, "l[a.b=x]", [("l", 0)],
     "element 0 has a descendant a.b equal to x")

# ---------------------------------------------------------------------------
# 7.  An Integer (or Boolean) member of a Set cannot be selected by value
# Clause:  sets are in scope; README "Unordered Set value accessing".  Hash
# keys get a String->Integer fallback (h.2 finds the key 2); Sets do not.
# ---------------------------------------------------------------------------
case("7 s.2 where 2 is a member of the Set", "none missing (set member)",
     "s: !!set {2, a}", "s.2", [("s", 2)],
     "2 is a member of the set (s[.=2] and s[2:2] do select it)")

# ---------------------------------------------------------------------------
# 8.  Wildcard * followed by a search is empty for Sets
# Clause:  wildcard semantics, none missing.  l.*[.=a] selects the matching
# element of an Array, s.**[.=a] and s[.=a] select the member of the Set,
# s.*[.=a] selects nothing.
# ---------------------------------------------------------------------------
case("8a l.*[.=a] over an Array (reference behaviour)", "n/a (reference)",
     "l: [a, b]", "l.*[.=a]", [("l", 0)], "child a equals a")
case("8b s.*[.=a] over a Set", "none missing (wildcard over a set)",
     "s: !!set {a, b}", "s.*[.=a]", [("s", "a")], "child a equals a")

# ---------------------------------------------------------------------------
# 9.  An escaped * is still a wildcard
# Clause:  key segments / escapes ("keys spelled like other things").
# README "Escape symbol recognition".  The quoted form 'x*' works.
# ---------------------------------------------------------------------------
case("9 x\\* where the keys are 'x*' and 'xy'", "none extra (escaped key)",
     "{'x*': 1, xy: 2}", "x\\*", [("x*",)],
     "an escaped * is the literal character, as in the quoted form 'x*'")

# ---------------------------------------------------------------------------
# 10. A search on a named attribute selects a Scalar which has no attributes
# Clause:  none extra.  l[x=1] over [1, 2] selects nothing, yet the same test
# applied to the element itself, l[0][x=1], selects it.
# ---------------------------------------------------------------------------
case("10 a[x=1] where a is the Scalar 1", "none extra (attribute search)",
     "a: 1", "a[x=1]", [],
     "a Scalar has no attribute x (l[x=1] over [1, 2] selects nothing)")

# ---------------------------------------------------------------------------
# 11. An escaped . in a search attribute is still a separator
# Clause:  escapes; none extra.  The quoted form l['a.b'=x] is right.
# ---------------------------------------------------------------------------
case("11 l[a\\.b=x]", "none extra (escaped attribute name)",
     "l: [{a: {b: x}}, {'a.b': x}]", "l[a\\.b=x]", [("l", 1)],
     "only element 1 has a key named a.b (as l['a.b'=x] selects)")

# ---------------------------------------------------------------------------
# 12. null is matched as the text "None"
# Clause:  search semantics over null values; none extra.
# ---------------------------------------------------------------------------
case("12a [.^N] over a null", "none extra (null value)",
     "l: [null, a]", "l[.^N]", [],
     "no element starts with N; YAML null is not the text None")
case("12b [.=None] over a null", "none extra (null value)",
     "l: [null, a]", "l[.=None]", [],
     "no element is the text None ([.=null] selects nothing either)")

# ---------------------------------------------------------------------------
# 13. Container elements are compared through their Python repr()
# Clause:  none extra.  '.' searches of Array elements compare "elements";
# a Hash or Array element is compared as "ordereddict(...)"/"[...]".
# ---------------------------------------------------------------------------
case("13a l[.^ordereddict] over an Array-of-Hashes", "none extra (repr leak)",
     "l: [{k: v}, {j: w}]", "l[.^ordereddict]", [],
     "nothing in the document reads ordereddict")
case("13b l[.>name] over an Array-of-Hashes", "none extra (repr leak)",
     "l: [{name: one}, {other: two}]", "l[.>name]", [],
     "no element is a value greater than name")

# ---------------------------------------------------------------------------
# 14. [n:n] beyond the end of the Array "exists"
# Clause:  exists() == required-match; README: "when start# and stop# are
# identical, it is the same as array[start#]".
# ---------------------------------------------------------------------------
DATA14 = load("l: [a, b, c]")
EX_SLICE = Processor(LOG, DATA14).exists("l[5:5]")
EX_INDEX = Processor(LOG, DATA14).exists("l[5]")
SEL_SLICE = select(DATA14, "l[5:5]")
note("14 exists(l[5:5]) versus exists(l[5])",
     "exists() is true although zero nodes are selected; [n:n] == [n]",
     ["document        : l: [a, b, c]",
      "property demands: exists('l[5:5]') == exists('l[5]') == False",
      "code did        : exists('l[5:5]') = {}, exists('l[5]') = {},"
      " nodes selected by l[5:5] = {}".format(EX_SLICE, EX_INDEX, SEL_SLICE)],
     EX_SLICE is not EX_INDEX)

# ---------------------------------------------------------------------------
# 15. Deep traversal does not yield in document order
# Clause:  "in document order".
# ---------------------------------------------------------------------------
case("15 **[1] over [[a, b], c]", "document order",
     "[[a, b], c]", "**[1]", [(0, 1), (1,)],
     "b precedes c in the document")

# ---------------------------------------------------------------------------
# 16. Optional-match differs from required-match on a path that exists
# Clause:  "the same whether ... a required-match query, or an
# optional-match query on a path that already exists".
# ---------------------------------------------------------------------------
DOC16 = "l: [{n: 1, a: x}, {n: 2}]"
DATA16 = load(DOC16)
EXISTS16 = Processor(LOG, DATA16).exists("l[n>0].a")
REQ16 = select(DATA16, "l[n>0].a", "required")
OPT16 = select(DATA16, "l[n>0].a", "optional")
note("16 l[n>0].a asked three ways",
     "exists() / required-match / optional-match give the same answer",
     ["document        : " + DOC16,
      "property demands: exists() True, and both queries select"
      " [('l', 0, 'a')] without changing the document",
      "code did        : exists() = {}, required = {}, optional = {}"
      .format(EXISTS16, REQ16, OPT16),
      "document after  : {}".format(dict(l=[dict(e) for e in DATA16["l"]]))],
     REQ16 != OPT16)

# ---------------------------------------------------------------------------
# 17. Key text is parsed with Python's int(): underscores and a + sign
# Clause:  none extra; README: "exact name of a hash key which is itself a
# number".
# ---------------------------------------------------------------------------
case("17 key 1_0 against a Hash with the Integer key 10", "none extra (key)",
     "{10: x}", "1_0", [],
     "there is no key named 1_0")

print("=" * 78)
print("{} violating case(s): {}".format(len(VIOLATIONS), VIOLATIONS))
sys.exit(1 if VIOLATIONS else 0)
