#!/usr/bin/env python
"""
Reproductions of violations of the property

  "A delete removes exactly the matched nodes, whatever their number or
   position ... and leaves every other node, its value and its relative order
   untouched.  Deleting the document root is refused with a YAML Path error
   and changes nothing."

Run as:  cd /tmp/wt7-C04 && PYTHONPATH=/tmp/wt7-C04 /venv/bin/python demo.py
Uses only public entry points: yamlpath.Processor (get_nodes / delete_nodes),
yamlpath.common.Parsers, yamlpath.wrappers.ConsolePrinter and the yaml-set
command (python -m yamlpath.commands.yaml_set --delete).
Exit status: 1 when at least one case violates the property, else 0.
"""
import io
import os
import subprocess
import sys
import tempfile
from types import SimpleNamespace

from ruamel.yaml.comments import CommentedSet

from yamlpath import Processor
from yamlpath.common import Parsers
from yamlpath.exceptions import YAMLPathException
from yamlpath.wrappers import ConsolePrinter, NodeCoords

LOG = ConsolePrinter(SimpleNamespace(quiet=True, verbose=False, debug=False))
VIOLATIONS = []


def load(text):
    editor = Parsers.get_yaml_editor()
    (data, loaded) = Parsers.get_yaml_data(editor, LOG, text, literal=True)
    assert loaded
    return data


def plain(node):
    """Plain-Python picture of a document (merge keys shown expanded)."""
    if isinstance(node, dict):
        return {str(k): plain(v) for k, v in node.items()}
    if isinstance(node, (set, CommentedSet)):
        return {str(k) for k in node}
    if isinstance(node, list):
        return [plain(v) for v in node]
    if node is None:
        return None
    if isinstance(node, bool):
        return bool(node)
    if isinstance(node, int):
        return int(node)
    if isinstance(node, float):
        return float(node)
    return str(node)


def leaves(ncs):
    """The document values a (possibly wrapped) get_nodes() result holds."""
    out = []
    for nc in ncs:
        node = nc.node if isinstance(nc, NodeCoords) else nc
        if isinstance(node, NodeCoords):
            out.extend(leaves([node]))
        elif (isinstance(node, list) and node
              and isinstance(node[0], NodeCoords)):
            out.extend(leaves(node))
        else:
            out.append(plain(node))
    return out


def library_case(label, clause, text, path, acceptable, demand):
    """
    Delete `path` from `text` with Processor.delete_nodes().

    acceptable: list of plain documents the property allows as the result.
    """
    print("=" * 78)
    print("CASE {}".format(label))
    print("  property clause violated: {}".format(clause))
    print("  document : {!r}".format(text))
    print("  path     : {}".format(path))
    matched = leaves(list(Processor(LOG, load(text)).get_nodes(
        path, mustexist=True)))
    print("  get_nodes() says the path matches the value(s): {}".format(
        matched))
    data = load(text)
    before = plain(data)
    error = None
    try:
        for _ in Processor(LOG, data).delete_nodes(path):
            pass
    except YAMLPathException as ex:
        error = "YAMLPathException: {}".format(ex.user_message)
    except Exception as ex:  # pylint: disable=broad-except
        error = "{} (NOT a YAML Path error)".format(repr(ex))
    after = plain(data)
    print("  before   : {}".format(before))
    print("  demanded : {}".format(demand))
    for acc in acceptable:
        print("             acceptable result: {}".format(acc))
    print("  observed : {}{}".format(
        after, "" if error is None else "   raised " + error))
    bad = after not in acceptable or error is not None
    print("  verdict  : {}".format("VIOLATION" if bad else "ok"))
    if bad:
        VIOLATIONS.append(label)


def cli_case(label, clause, text, path, acceptable, demand):
    """Same through the yaml-set command."""
    print("=" * 78)
    print("CASE {}".format(label))
    print("  property clause violated: {}".format(clause))
    print("  document : {!r}".format(text))
    print("  command  : yaml-set --delete --change={!r} FILE".format(path))
    with tempfile.TemporaryDirectory() as tmpdir:
        yaml_file = os.path.join(tmpdir, "doc.yaml")
        with open(yaml_file, "w", encoding="utf-8") as fhnd:
            fhnd.write(text)
        result = subprocess.run(
            [sys.executable, "-W", "ignore", "-m",
             "yamlpath.commands.yaml_set", "--nostdin", "--delete",
             "--change=" + path, yaml_file],
            stdout=subprocess.PIPE, stderr=subprocess.PIPE,
            universal_newlines=True, check=False)
        with open(yaml_file, "r", encoding="utf-8") as fhnd:
            written = fhnd.read()
    after = plain(load(written))
    print("  before   : {}".format(plain(load(text))))
    print("  demanded : {}".format(demand))
    for acc in acceptable:
        print("             acceptable result: {}".format(acc))
    last_err = [ln for ln in result.stderr.splitlines() if ln.strip()]
    print("  observed : exit status {}, file now holds {}{}".format(
        result.returncode, after,
        "" if result.returncode == 0 else
        "   stderr ends: " + (last_err[-1] if last_err else "")))
    bad = after not in acceptable or result.returncode != 0
    print("  verdict  : {}".format("VIOLATION" if bad else "ok"))
    if bad:
        VIOLATIONS.append(label)


# ---------------------------------------------------------------------------
# Family A:  a Collector whose FIRST expression matches exactly one Array.
# Processor._get_nodes_by_collector() "flattens" that Array and gives each of
# its elements the ARRAY'S OWN parent together with the element's index; the
# delete then works on those coordinates.
# ---------------------------------------------------------------------------

# Clause: "removes precisely the nodes the path matched - all of them".
# The path matches (get_nodes returns 1); nothing at all is deleted, silently.
library_case(
    "A1 (a) where a is an Array held by a Hash: nothing is deleted",
    "removes precisely the nodes the path matched - all of them",
    "a: [1]\nb: 2\n", "(a)",
    [{"b": 2}, {"a": [], "b": 2}],
    "the matched Array a (or, as Collectors usually do, its element) is gone")

# Clause: "leaves every other node ... untouched".
# The sibling 'x' of the matched Array is deleted, too.
library_case(
    "A2 ([0]) where the Array is an element of an Array: siblings deleted",
    "leaves every other node, its value and its relative order untouched",
    "- [1, 2]\n- x\n", "([0])",
    [["x"], [[], "x"]],
    "only [0] (or its elements 1, 2) goes; 'x' is not matched and stays")

# Clauses: both.  a[1] is matched, a[0] is what gets deleted.
library_case(
    "A3 (a[1]): the element BEFORE the matched one is deleted instead",
    "removes precisely the matched nodes / leaves every other node untouched",
    "a: [[1], [2]]\n", "(a[1])",
    [{"a": [[1]]}, {"a": [[1], []]}],
    "a[1] (or its element 2) goes; a[0] == [1] is not matched and stays")

# Same defect, through the command-line tool and on the very document of the
# project's own test_delete_from_collectors, with the operands of + swapped:
# (/array[0])+(/array_of_arrays[1]) is handled properly (the project's test
# expects array_of_arrays[1] to become []), the swapped sum destroys
# array_of_arrays[0] and [2].
cli_case(
    "A4 yaml-set --delete (/aoa[1])+(/arr[0]): unmatched rows destroyed",
    "leaves every other node, its value and its relative order untouched",
    "arr: [0, 1]\naoa:\n  - [0.0, 0.1, 0.2]\n  - [1.0, 1.1, 1.2]\n"
    "  - [2.0, 2.1, 2.2]\n  - [3.0, 3.1, 3.2]\n",
    "(/aoa[1])+(/arr[0])",
    [{"arr": [1], "aoa": [[0.0, 0.1, 0.2], [], [2.0, 2.1, 2.2],
                          [3.0, 3.1, 3.2]]},
     {"arr": [1], "aoa": [[0.0, 0.1, 0.2], [2.0, 2.1, 2.2],
                          [3.0, 3.1, 3.2]]}],
    "exactly what (/arr[0])+(/aoa[1]) deletes: arr[0] and aoa[1]'s elements")

# ---------------------------------------------------------------------------
# Family B:  [max(NAME)] / [min(NAME)] applied to the result of a slice or of
# a Collector over an Array-of-Hashes.  KeywordSearches.max()/min() report
# the matched Hash with the VIRTUAL result list as its parent, so the delete
# removes it from that throw-away list and never from the document.
# ---------------------------------------------------------------------------

# Clause: "removes precisely the nodes the path matched - all of them".
library_case(
    "B1 l[0:2][max(k)]: the matched record is not deleted",
    "removes precisely the nodes the path matched - all of them",
    "l: [{k: 1}, {k: 2}]\n", "l[0:2][max(k)]",
    [{"l": [{"k": 1}]}],
    "l[1] (the record with the greatest k) is gone, as with l[max(k)]")

library_case(
    "B2 (l.*)[min(k)]: the matched record is not deleted",
    "removes precisely the nodes the path matched - all of them",
    "l: [{k: 1}, {k: 2}]\n", "(l.*)[min(k)]",
    [{"l": [{"k": 2}]}],
    "l[0] (the record with the least k) is gone, as with l[min(k)]")

# ---------------------------------------------------------------------------
# Family M (document uses a YAML Merge Key; lower confidence that such
# documents are inside the property's scope):  a path which matches a key of
# an Anchored Hash AND the same key as seen through `<<: *anchor` ends in a
# bare KeyError from ruamel.yaml half-way through; nodes gathered earlier are
# never deleted.
# ---------------------------------------------------------------------------

# Clause: "removes precisely the nodes the path matched - all of them"
# (z is matched and survives; the caller gets a KeyError, not a YAML Path
# error, and a half-edited document).
library_case(
    "M1 ** over a document with a YAML Merge Key: KeyError, z survives",
    "removes precisely the nodes the path matched - all of them",
    "z: 1\na: &A {k: 1}\nb: {<<: *A}\n", "**",
    [{"a": {}, "b": {}}],
    "every leaf (z, a.k and with it b.k) is gone; no exception")

print("=" * 78)
print("{} violating case(s): {}".format(len(VIOLATIONS), VIOLATIONS))
sys.exit(1 if VIOLATIONS else 0)
