#!/usr/bin/env python
"""
Stand-alone demonstrations: YAML Path query results which differ from the
documented segment semantics (property "Query results equal the documented
YAML Path segment semantics").

Run as:  cd /tmp/wt7-C01 && PYTHONPATH=/tmp/wt7-C01 /venv/bin/python demo.py

Only public entry points are used:  yamlpath.Processor.exists(),
Processor.get_nodes(mustexist=True|False), yamlpath.YAMLPath, and
yamlpath.common.Parsers to load the YAML text.  Exit status is 1 when at least
one case violates the property, 0 otherwise.
"""
import sys
from types import SimpleNamespace

from yamlpath import Processor, YAMLPath
from yamlpath.common import Parsers
from yamlpath.enums import PathSeparators
from yamlpath.exceptions import YAMLPathException
from yamlpath.wrappers import ConsolePrinter, NodeCoords

LOG = ConsolePrinter(SimpleNamespace(quiet=True, verbose=False, debug=False))


def load(text):
    """Parse one YAML document from text."""
    editor = Parsers.get_yaml_editor()
    (data, loaded) = Parsers.get_yaml_data(editor, LOG, text, literal=True)
    assert loaded, text
    return data


def unwrap(node):
    """Reduce (nested) NodeCoords and lists of them to the plain data."""
    if isinstance(node, NodeCoords):
        return unwrap(node.node)
    if (isinstance(node, list) and node
            and all(isinstance(ele, NodeCoords) for ele in node)):
        return [unwrap(ele) for ele in node]
    return node


def plain(node):
    """Render a node comparably (Hashes as dict, Sets as sorted list)."""
    node = unwrap(node)
    if isinstance(node, dict):
        return {str(k): plain(v) for k, v in node.items()}
    if isinstance(node, (set, frozenset)) or type(node).__name__ == "CommentedSet":
        return sorted(str(ele) for ele in node)
    if isinstance(node, list):
        return [plain(ele) for ele in node]
    if isinstance(node, bool):
        return bool(node)
    if isinstance(node, int):
        return int(node)
    if isinstance(node, float):
        return float(node)
    if isinstance(node, str):
        return str(node)
    return node


def query(text, path, mode, sep=PathSeparators.AUTO):
    """
    Run one query against a freshly loaded document.

    mode:  "required" -> list of matched values ([] when nothing matched)
           "optional" -> list of matched values
           "exists"   -> bool
    An error other than "nothing matched" is returned as a string.
    """
    proc = Processor(LOG, load(text))
    try:
        if mode == "exists":
            return proc.exists(path, pathsep=sep)
        return [plain(nc) for nc in proc.get_nodes(
            path, mustexist=(mode == "required"), pathsep=sep)]
    except YAMLPathException as ex:
        if "does not match any nodes" in str(ex):
            return []
        return "ERROR: " + str(ex).splitlines()[0][:110]


def all_modes(text, path):
    """The three ways of asking, as the property names them."""
    return {
        "required": query(text, path, "required"),
        "optional": query(text, path, "optional"),
        "exists": query(text, path, "exists"),
    }


FAILED = []


def case(label, clause, text, checks):
    """
    Run one labelled case.

    checks:  list of (path, expected list of values, note)
    A check passes only when required == optional == expected and exists()
    agrees with bool(expected).
    """
    print("=" * 78)
    print("CASE {}".format(label))
    print("  clause violated: {}".format(clause))
    print("  document: {!r}".format(text))
    violated = False
    for (path, expected, note) in checks:
        got = all_modes(text, path)
        good = (got["required"] == expected
                and got["optional"] == expected
                and got["exists"] is bool(expected))
        violated = violated or not good
        print("  path {!r}  ({})".format(path, note))
        print("    property demands : {!r}".format(expected))
        print("    required query   : {!r}".format(got["required"]))
        print("    optional query   : {!r}".format(got["optional"]))
        print("    exists()         : {!r}".format(got["exists"]))
        print("    -> {}".format("ok" if good else "VIOLATION"))
    if violated:
        FAILED.append(label)
    return violated


# ---------------------------------------------------------------------------
# 1. A search on a NAMED attribute selects a Scalar, which has no attributes.
#    Clause: "search ... on a named attribute" / "none extra".  The scalar
#    branch of Processor._get_nodes_by_search compares the scalar's own value
#    and ignores the attribute name, so x[a=1] selects x: 1.  Under ** this
#    also makes every matching attribute value appear twice.
case(
    "1 named-attribute search selects a Scalar",
    "none extra (search on a named attribute)",
    "x: 1\ny: {a: 1}\n",
    [
        ("x[a=1]", [], "x is the Scalar 1; it has no attribute 'a'"),
        ("/x[nosuch=1]", [], "same, forward-slash notation, another name"),
        ("*[a=1]", [1], "only y.a qualifies (a Hash match yields the"
                        " attribute value, per the project's own tests)"),
        ("**[a=1]", [1], "y.a once; not x, and not y.a twice"),
    ])

# ---------------------------------------------------------------------------
# 2. A search on a NAMED attribute selects the members of a Set.
#    Clause: "none extra (search on a named attribute)"; a Set member is a
#    scalar without attributes; only '.' names the members themselves.
case(
    "2 named-attribute search selects Set members",
    "none extra (search on a named attribute, Sets)",
    "s: !!set {? m, ? n}\n",
    [
        ("s[.=m]", ["m"], "control: '.' is the documented way"),
        ("s[a=m]", [], "no member has an attribute 'a'"),
        ("/s[zz^m]", [], "same, forward-slash, starts-with"),
    ])

# ---------------------------------------------------------------------------
# 3. Text searches cannot find the String "true" by its own text.
#    Clause: "none missing" / "none extra" for ^ $ % =~ on str scalars.
#    Nodes.typed_value() re-reads every haystack with ast.literal_eval after
#    title-casing true/false, so the *string* "true" is compared as the text
#    "True":  [.^tr], [.%true], [.=~/^true$/] miss it and [.^Tr] hits it.
#    Other strings which happen to be Python literals suffer likewise
#    ("1e3" is compared as "1000.0", "'a'" as "a", "1_0" as 10).
case(
    "3 String values are re-read as Python literals before text comparison",
    "none missing / none extra (starts-with, contains, regex on str scalars)",
    'k: "true"\nj: "1e3"\n',
    [
        ("k[.^tr]", ["true"], "the string true starts with tr"),
        ("k[.%true]", ["true"], "the string true contains true"),
        ("/k[.=~/^true$/]", ["true"], "regex on the string's own text"),
        ("k[.^Tr]", [], "the string true does not start with Tr"),
        ("j[.^1e]", ["1e3"], "the string 1e3 starts with 1e"),
        ("j[.=1000.0]", [], "the string 1e3 is not the text 1000.0"),
    ])

# ---------------------------------------------------------------------------
# 4. A null is searched as the text "None".
#    Clause: "none extra" (scalars: null).  str(None) is what gets compared.
case(
    "4 null is compared as the text 'None'",
    "none extra (search operators against null)",
    "a: ~\nb: on\n",
    [
        ("a[.=None]", [], "a null is not the word None"),
        ("a[.^N]", [], "a null does not start with N"),
        ("*[.=~/on/]", ["on"], "only b contains 'on'"),
        ("/a[.<a]", [], "a null is not less than 'a'"),
    ])

# ---------------------------------------------------------------------------
# 5. Hash and Array values are searched by their Python repr().
#    Clause: "none extra" (search on '.' over a sequence holding containers,
#    search on a named attribute whose value is a container).
case(
    "5 containers are compared by their Python repr()",
    "none extra (search over elements / attributes which are containers)",
    "l: [{b: 1}, x]\nh: {a: [1, 2]}\n",
    [
        ("l[.%dict]", [], "no element contains the text 'dict'"),
        ("l[.^ordered]", [], "no element starts with 'ordered'"),
        ("l[.>a]", ["x"], "only the string x is greater than a"),
        ("h[a=~/,/]", [], "the Array [1, 2] holds no comma"),
    ])

# ---------------------------------------------------------------------------
# 6. Booleans are ordered as the numbers 1 and 0.
#    Clause: "none extra" (< > <= >= against bool scalars).  Searches.py says
#    itself that "a boolean term is not a number" and [.=1] rightly skips
#    true, yet [.>0], [.>=1] and [.<=1] all select true.
case(
    "6 a Boolean is ordered as a number",
    "none extra (greater/less-than against bool scalars)",
    "l: [true, false, 1, 0]\n",
    [
        ("l[.=1]", [1], "control: true is not equal to 1"),
        ("l[.>0]", [1], "true is not a number greater than 0"),
        ("l[.<1]", [0], "false is not a number less than 1"),
        ("/l[.>=1]", [1], "forward-slash; true is neither > 1 nor = 1"),
    ])

# ---------------------------------------------------------------------------
# 7. The children of a Set vanish when a segment follows the * wildcard.
#    Clause: "none missing" (wildcard over sets).  README: * "returns every
#    immediate child"; s.* does, s.*[.=a] does not, although the same path
#    works for an Array and for a Hash.
case(
    "7 wildcard followed by another segment skips Set members",
    "none missing (wildcard x set x search)",
    "s: !!set {? a, ? b}\nl: [a, b]\nd: {x: a, y: b}\n",
    [
        ("l.*[.=a]", ["a"], "control: Array"),
        ("d.*[.=a]", ["a"], "control: Hash"),
        ("s.*", ["a", "b"], "control: every child of the Set"),
        ("s.*[.=a]", ["a"], "the Set member a"),
        ("/s/*[.!=a]", ["b"], "forward-slash, inverted"),
    ])

# ---------------------------------------------------------------------------
# 8. An index after * or ** fails outright because some Set exists elsewhere.
#    Clause: "none missing" (index under wildcard / deep traversal).  A Set
#    simply has no element 0; **.0 (implicit index) answers, **[0] raises.
case(
    "8 [0] under * or ** raises when the document holds a Set anywhere",
    "none missing (index x deep traversal/wildcard x set)",
    "l: [a]\ns: !!set {? x}\n",
    [
        ("**.0", ["a"], "control: implicit index"),
        ("**[0]", ["a"], "explicit index"),
        ("/*[0]", ["a"], "wildcard, forward-slash"),
    ])

# ---------------------------------------------------------------------------
# 9. An integer member of a Set cannot be selected by its name.
#    Clause: "none missing" (key segment, integer-like keys, sets).  The same
#    segment selects the integer key of a Hash, and s.* reports the member
#    under the very path s.2.
case(
    "9 an integer Set member is not selectable by key",
    "none missing (key segment x integer-like member x set)",
    "d: {2: x}\ns: !!set {? 2, ? a}\n",
    [
        ("d.2", ["x"], "control: integer key of a Hash"),
        ("s.a", ["a"], "control: text member"),
        ("s.2", [2], "integer member"),
        ("/s/2", [2], "integer member, forward-slash"),
    ])

# ---------------------------------------------------------------------------
# 10. A descendant search over Array elements tests only the first
#     descendant; over a Hash it tests them all.
#     Clause: "none missing" (search on a named -- descendant -- attribute).
case(
    "10 descendant search over an Array looks at the first descendant only",
    "none missing (README: 'Descendent node searches')",
    "l:\n  - x: [{a: 2}, {a: 1}]\nd:\n  k:\n    x: [{a: 2}, {a: 1}]\n",
    [
        ("d.k[x.a=1]", [{"x": [{"a": 2}, {"a": 1}]}],
         "control: the record as a Hash value"),
        ("l[x.a=2]", [{"x": [{"a": 2}, {"a": 1}]}],
         "control: first descendant"),
        ("l[x.a=1]", [{"x": [{"a": 2}, {"a": 1}]}],
         "second descendant"),
        ("/l[/x/a=1]", [{"x": [{"a": 2}, {"a": 1}]}],
         "second descendant, forward-slash"),
    ])

# ---------------------------------------------------------------------------
# 11. The text around a mid-segment * is used as a Regular Expression.
#     Clause: "none extra" (wildcard segments).  1.*5 means "starts with 1.
#     and ends with 5"; a+* rightly means "starts with a+", but a+*b does not.
case(
    "11 literal text of a te*xt wildcard is not escaped",
    "none extra (wildcard segments)",
    "x: [1.5, 125, a+b, aab]\n",
    [
        ("/x/a+*", ["a+b"], "control: trailing * is a plain starts-with"),
        ("/x/1.*5", [1.5], "125 does not start with '1.'"),
        ("x.1\\.*5", [1.5], "same, dot notation"),
        ("/x/a+*b", ["a+b"], "aab does not start with 'a+'"),
    ])

# ---------------------------------------------------------------------------
# 12. [0:2].** does not select leaves.
#     Clause: "selects exactly the nodes" (slice x deep traversal).  README:
#     a trailing ** "selects every leaf node".
case(
    "12 ** after a slice yields the sliced elements, not their leaves",
    "none missing / none extra (slice x deep traversal)",
    "- [1, 2]\n- [3]\n",
    [
        ("**", [1, 2, 3], "control"),
        ("[0:2].**", [1, 2, 3], "every leaf below the slice"),
        ("/[0:2]/**", [1, 2, 3], "forward-slash"),
    ])

# ---------------------------------------------------------------------------
# 13. An optional-match query on an existing path reports a node which is
#     not in the document.
#     Clause: "the same ... whether asked through exists(), a required-match
#     query, or an optional-match query on a path that already exists".
#     The empty result of a slice is a throw-away list; the optional query
#     "creates" element 0 inside it, reports that None, and leaves the
#     document as it was.
case(
    "13 optional query invents a node inside an empty slice result",
    "required == optional on a path that already exists",
    "- []\n- [a]\n",
    [
        ("*[0:1][0]", ["a"], "only [1][0] exists"),
        ("/*[0:1]/0", ["a"], "forward-slash, implicit index"),
    ])

# ---------------------------------------------------------------------------
# 14. Demarcating the attribute name changes which node is selected.
#     Clause: "selects exactly the nodes" (quotes).  README: "Demarcate
#     and/or escape expression operands"; y[a=1] selects y.a (as the
#     project's tests have it) but y["a"=1] selects y.
case(
    "14 a quoted attribute name selects the Hash instead of the attribute",
    "same node objects (search on a named attribute, demarcated)",
    "y: {a: 1}\n",
    [
        ("y[a=1]", [1], "control"),
        ('y["a"=1]', [1], "double-quoted attribute name"),
        ("/y['a'=1]", [1], "single-quoted, forward-slash"),
    ])

# ---------------------------------------------------------------------------
# 15. >= and <= both hold where = does not.
#     Clause: "all nine operators" -- a value which is both >= 1 and <= 1 is
#     equal to 1; [.=1] misses the float 1.0 which [.>=1] and [.<=1] select.
#     (Lower confidence: "=" may be meant as an exact-text match.)
case(
    "15 a float is >= and <= an integer term yet not = to it",
    "none missing (equality vs. ordering operators, int/float)",
    "l: [1.0, 2]\n",
    [
        ("l[.>=1]", [1.0, 2], "control"),
        ("l[.<=1]", [1.0], "control"),
        ("l[.=1]", [1.0], "1.0 is both >= 1 and <= 1"),
    ])

# ---------------------------------------------------------------------------
# 16. ** followed by a '.' search selects the same node twice.
#     Clause: "none extra".  a: a is matched once as "the value of the key
#     named a" (root context) and once as "the scalar equal to a".
#     (Lower confidence: both contexts are documented; the property asks for
#     the nodes selected, each being one node of the document.)
case(
    "16 ** with a '.' search yields one node twice",
    "none extra (deep traversal x search on '.')",
    "a: a\n",
    [
        ("**[.=a]", ["a"], "the document has one such node"),
    ])

# ---------------------------------------------------------------------------
# 17. Re-notating a YAMLPath object changes the answer -- depending on
#     whether the object happened to be parsed before.
#     Clause: "the answer is the same whether the path is written in dot or
#     forward-slash notation" (option combinations / sequences of
#     operations).  YAMLPath.separator's setter documents itself as "only
#     affects __str__", and get_nodes()/exists() apply it for a pathsep
#     keyword; but the escaped segments are parsed lazily, with whatever
#     separator is current by then, from the original text.
print("=" * 78)
print("CASE 17 YAMLPath re-notated before its first use is parsed wrongly")
print("  clause violated: same answer in dot and forward-slash notation")
DOC17 = "a: {b: 1}\n"
print("  document: {!r}".format(DOC17))
OUT17 = {}
for touched in (False, True):
    ypath = YAMLPath("/a/b")
    if touched:
        len(ypath)                      # merely looks at the segments
    ypath.separator = PathSeparators.DOT
    proc = Processor(LOG, load(DOC17))
    try:
        OUT17[touched] = (str(ypath), [
            plain(nc) for nc in proc.get_nodes(ypath, mustexist=True)],
            proc.exists(ypath))
    except YAMLPathException as ex:
        OUT17[touched] = (str(ypath), "ERROR: " + str(ex), proc.exists(ypath))
    print("  YAMLPath('/a/b'){}; .separator = DOT -> str() is {!r}".format(
        "; len() taken" if touched else "", OUT17[touched][0]))
    print("    property demands : [1] and exists() True")
    print("    required query   : {!r}".format(OUT17[touched][1]))
    print("    exists()         : {!r}".format(OUT17[touched][2]))
# And through the keyword of the query methods themselves
PROC17 = Processor(LOG, load(DOC17))
KW17 = PROC17.exists(YAMLPath("/a/b"), pathsep=PathSeparators.DOT)
print("  exists(YAMLPath('/a/b'), pathsep=DOT) on a fresh object: {!r}".format(
    KW17))
if OUT17[False][1] != [1] or OUT17[True][1] != [1] or KW17 is not True:
    print("    -> VIOLATION")
    FAILED.append("17 YAMLPath re-notated before first use")
else:
    print("    -> ok")

print("=" * 78)
if FAILED:
    print("{} case(s) violate the property:".format(len(FAILED)))
    for name in FAILED:
        print("  - " + name)
    sys.exit(1)
print("no case violates the property")
sys.exit(0)
