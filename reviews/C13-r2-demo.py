#!/usr/bin/env python
"""
Stand-alone demonstrations: Search Keywords that do not select by their
definitions.

Run as:  cd /tmp/wt7-C13 && PYTHONPATH=/tmp/wt7-C13 /venv/bin/python demo.py

Only public entry points are used (Parsers, Processor, YAMLPath,
ConsolePrinter).  Every case builds its own input, states what the property
demands, shows what the code did, and is marked VIOLATION or ok.  Exit status
is 1 when at least one case violates the property, 0 otherwise.
"""
import sys
from types import SimpleNamespace

from yamlpath import Processor, YAMLPath
from yamlpath.common import Parsers
from yamlpath.exceptions import YAMLPathException
from yamlpath.wrappers import ConsolePrinter, NodeCoords

LOG = ConsolePrinter(SimpleNamespace(quiet=True, verbose=False, debug=False))
VIOLATIONS = []


def load(text):
    """Parse one YAML document."""
    yaml = Parsers.get_yaml_editor()
    (data, ok) = Parsers.get_yaml_data(yaml, LOG, text, literal=True)
    if not ok:
        raise RuntimeError("cannot parse demo input")
    return data


def plain(node):
    """Reduce a result node to something printable/comparable."""
    if isinstance(node, NodeCoords):
        return plain(node.node)
    if isinstance(node, dict):
        return {plain(k): plain(v) for k, v in node.items()}
    if isinstance(node, (list, tuple)):
        return [plain(e) for e in node]
    if isinstance(node, bool) or node is None:
        return node
    if isinstance(node, int):
        return int(node)
    if isinstance(node, float):
        return float(node)
    return str(node)


def query(data, path, mustexist=False):
    """Run one YAML Path; give [(path, value)] or 'ERROR: ...'."""
    proc = data if isinstance(data, Processor) else Processor(LOG, data)
    try:
        return [(str(nc.path), plain(nc.node))
                for nc in proc.get_nodes(YAMLPath(path), mustexist=mustexist)]
    except YAMLPathException as ex:
        return "ERROR: " + str(ex).replace("\n", " ")


def values(result):
    """Only the values of a query() result."""
    return result if isinstance(result, str) else [v for _, v in result]


def report(label, clause, doc, path, demanded, observed, violated):
    """Print one case."""
    print("=" * 78)
    print("CASE {}  [{}]".format(label, "VIOLATION" if violated else "ok"))
    print("  clause  : " + clause)
    print("  input   : " + doc.strip().replace("\n", "\n            "))
    print("  query   : " + path)
    print("  demanded: " + str(demanded))
    print("  observed: " + str(observed))
    if violated:
        VIOLATIONS.append(label)


def expect_values(label, clause, doc, path, want, note="", prep=None):
    """A case whose result values must equal `want` (order-insensitive)."""
    data = load(doc)
    proc = Processor(LOG, data)
    if prep is not None:
        prep(proc)
    got = values(query(proc, path))
    bad = isinstance(got, str) or sorted(map(repr, got)) != sorted(
        map(repr, want))
    report(label, clause, doc, path,
           "{}{}".format(want, ("  (" + note + ")") if note else ""),
           got, bad)


# ---------------------------------------------------------------------------
# A.  max/min over same-kind STRING scalars whose spelling resembles another
#     type.  Clause violated: "max and min return exactly the members whose
#     value (or named attribute) is greatest or least and, inverted, exactly
#     the others".
#     Every element below is a YAML string (quoted).  Some of them can be
#     re-read as a number/boolean by the comparison helper, the others (with
#     a leading zero, ...) cannot, and the two sorts are never ordered against
#     each other:  the first element simply wins.
# ---------------------------------------------------------------------------
CLAUSE_MAXMIN = "max/min return exactly the greatest/least members; inverted, the others"

# A1: '9' is greater than '08' as text ('9' > '0') AND as a number (9 > 8).
expect_values(
    "A1 max of ['08','9']", CLAUSE_MAXMIN,
    "s: ['08', '9']", "s[max()]", ["9"],
    "greatest as text and as number; note min() gives '08' too, so one "
    "member is both max and min of two different values")
expect_values(
    "A1b !max of ['08','9']", CLAUSE_MAXMIN,
    "s: ['08', '9']", "s[!max()]", ["08"])
# Same two values, other order: now '9' IS selected -> result depends on the
# order of the members, so it cannot be "the greatest" under any ordering.
expect_values(
    "A1c max of ['9','08'] (control: passes, shows order dependence)",
    CLAUSE_MAXMIN, "s: ['9', '08']", "s[max()]", ["9"])

# A2: Array-of-Hashes, attribute = US ZIP codes held as strings.
ZIPS = """l:
  - {city: Boston, zip: '02134'}
  - {city: New York, zip: '10001'}
  - {city: Newark, zip: '07102'}
"""
expect_values(
    "A2 AoH max(zip)", CLAUSE_MAXMIN, ZIPS, "l[max(zip)].city", ["New York"],
    "'10001' is greatest as text and as number")
expect_values(
    "A2b AoH !max(zip)", CLAUSE_MAXMIN, ZIPS, "l[!max(zip)].city",
    ["Boston", "Newark"])

# A3: hash-of-hashes, same attribute.
expect_values(
    "A3 hash-of-hashes max(zip)", CLAUSE_MAXMIN,
    "h:\n  bos: {zip: '02134'}\n  nyc: {zip: '10001'}\n",
    "h[max(zip)][name()]", ["nyc"])

# A4: the strings 'true' / 'false' among other strings.
expect_values(
    "A4 max of ['apple','true']", CLAUSE_MAXMIN,
    "s: ['apple', 'true']", "s[max()]", ["true"],
    "both are strings; 'true' > 'apple'")
expect_values(
    "A4b min of ['zebra','false']", CLAUSE_MAXMIN,
    "s: ['zebra', 'false']", "s[min()]", ["false"],
    "both are strings; 'false' < 'zebra'")

# ---------------------------------------------------------------------------
# B.  max/min over BOOLEAN scalars of which some are anchored/aliased (or were
#     re-written by set_value):  equal members are left out of the result and
#     show up among "the others".  Clause violated: same as A.
# ---------------------------------------------------------------------------
expect_values(
    "B1 max of [&t true, *t]", CLAUSE_MAXMIN,
    "s: [&t true, *t]", "s[max()]", [True, True],
    "both members are the very same true")
expect_values(
    "B1b !max of [&t true, *t]", CLAUSE_MAXMIN,
    "s: [&t true, *t]", "s[!max()]", [])
expect_values(
    "B1c min of [&f false, true, *f]", CLAUSE_MAXMIN,
    "s: [&f false, true, *f]", "s[min()]", [False, False])
BOOL_AOH = """flag: &on true
l:
  - {n: a, en: *on}
  - {n: b, en: false}
  - {n: c, en: *on}
"""
expect_values(
    "B2 AoH max(en), attribute is an alias of an anchored true",
    CLAUSE_MAXMIN, BOOL_AOH, "l[max(en)].n", ["a", "c"])
expect_values(
    "B2b AoH !max(en)", CLAUSE_MAXMIN, BOOL_AOH, "l[!max(en)].n", ["b"])
expect_values(
    "B3 set_value(s[0], true) and then max, no anchors involved",
    CLAUSE_MAXMIN, "s: [false, false, true]", "s[max()]", [True, True],
    "after the change the sequence is [true, false, true]",
    prep=lambda proc: proc.set_value(YAMLPath("s[0]"), True))

# ---------------------------------------------------------------------------
# C.  Keywords applied to a collection of hashes that was produced by a
#     Collector or a slice (the README/CHANGES recommend using keywords on
#     collected results).
# ---------------------------------------------------------------------------
COLL = """l:
  - {n: a, v: 3}
  - {n: b, v: 1}
  - {n: c, v: 3}
  - {n: d}
"""
CLAUSE_HC = "has_child returns exactly the hashes having (inverted: lacking) the named key"
# C1: has_child finds nothing; inverted it returns the whole collection.
expect_values(
    "C1 (l.*)[has_child(v)]", CLAUSE_HC, COLL, "(l.*)[has_child(v)].n",
    ["a", "b", "c"], "control l.*[has_child(v)].n gives a, b, c")
expect_values(
    "C1b (l.*)[!has_child(n)]", CLAUSE_HC, COLL, "(l.*)[!has_child(n)]",
    [], "every collected hash has n; observed is the entire collection")
expect_values(
    "C1c l[1:4][has_child(v)]", CLAUSE_HC, COLL, "l[1:4][has_child(v)].n",
    ["b", "c"])
# C2: name() after max/min over such a collection gives the position within
#     the virtual list, not the key/index under which the node is held;
#     unique/distinct over the very same collection give the real one.
CLAUSE_NAME = "name() returns the key or index under which the current node is held"
expect_values(
    "C2 l[1:3][min(v)][name()]", CLAUSE_NAME, COLL, "l[1:3][min(v)][name()]",
    [1], "{n: b, v: 1} is held under index 1 of l; "
    "control l[1:3][unique(v)][name()] gives 1, 2")
expect_values(
    "C2b (h.*)[max(v)][name()]", CLAUSE_NAME,
    "h:\n  a: {v: 3}\n  b: {v: 1}\n  c: {v: 3}\n", "(h.*)[max(v)][name()]",
    ["a", "c"], "control (h.*)[!unique(v)][name()] gives a, c")
# C3: parent() after max/min over such a collection gives the virtual list.
CLAUSE_PARENT = "parent(n) returns the n-th ancestor of the current node"
expect_values(
    "C3 l[1:3][min(v)][parent()][name()]", CLAUSE_PARENT, COLL,
    "l[1:3][min(v)][parent()][name()]", ["l"],
    "the parent of l[1] is l; control l[1:3][unique(v)][parent()][name()] "
    "gives l")

# ---------------------------------------------------------------------------
# D.  A Collector over ONE sequence node spreads its elements but gives every
#     element the sequence's own parent; parent(1) then skips a level.
#     Clause violated: parent(n) returns the n-th ancestor.
# ---------------------------------------------------------------------------
expect_values(
    "D1 (a.e)[max()][parent()]", CLAUSE_PARENT,
    "a:\n  e: [10, 20]\n", "(a.e)[max()][parent()]", [[10, 20]],
    "20 is a.e[1], its 1st ancestor is a.e; controls a.e[max()][parent()] "
    "and (a.e.*)[max()][parent()] give [10, 20]")

# ---------------------------------------------------------------------------
# E.  An EMPTY sequence: max()/min()/unique()/distinct() refuse with an
#     Array-of-Hashes complaint instead of selecting no member.
#     Clause violated: "On any collection ... return exactly the members ..."
# ---------------------------------------------------------------------------
for kw in ("max", "min", "unique", "distinct"):
    doc = "s: []"
    path = "s[{}()]".format(kw)
    got = query(load(doc), path, mustexist=False)
    report("E {}() of an empty sequence".format(kw),
           "on any collection the keyword returns exactly the qualifying "
           "members (here: none)", doc, path + "   (mustexist=False)",
           "[] without an error", got, got != [])

# ---------------------------------------------------------------------------
# F.  name() of an element reached through a negative index.
#     Clause violated: name() returns the ... index under which the current
#     node is held.
# ---------------------------------------------------------------------------
expect_values(
    "F1 s[-1][name()]", CLAUSE_NAME, "s: [x, y, z]", "s[-1][name()]", [2],
    "z is held under index 2; control s.*[name()] gives 0, 1, 2")

# ---------------------------------------------------------------------------
# G.  has_child over an Array-of-Hashes having a null member (max/min/unique
#     accept such an array as an Array-of-Hashes).
#     Clause violated: has_child returns exactly the hashes having the key.
# ---------------------------------------------------------------------------
NULLAOH = "l:\n  - null\n  - {n: d, v: 1}\n"
expect_values(
    "G1 AoH with a null member, has_child(v)", CLAUSE_HC, NULLAOH,
    "l[has_child(v)].n", ["d"], "control l[max(v)].n gives d")
expect_values(
    "G1b AoH with a null member, !has_child(n)", CLAUSE_HC, NULLAOH,
    "l[!has_child(n)]", [None],
    "at most the null member; observed is the whole array")

print("=" * 78)
print("{} violating case(s): {}".format(len(VIOLATIONS), ", ".join(VIOLATIONS)))
sys.exit(1 if VIOLATIONS else 0)
