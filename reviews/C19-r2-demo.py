#!/usr/bin/env python
"""
Stand-alone demonstration of inputs for which eyaml-rotate-keys violates:

  "After eyaml-rotate-keys succeeds on a file, every encrypted value decrypts
   under the new keys to the same plaintext it had under the old keys and no
   longer decrypts under the old ones, values shared through an anchor are
   rotated once and stay shared, and every non-encrypted key, value, ordering
   and anchor is unchanged.  A value is treated as encrypted exactly when,
   ignoring whitespace and line breaks, it begins with the ENC[ marker; a file
   holding no such value is neither rewritten nor backed up."

Run as:  cd /tmp/wt7-C19 && PYTHONPATH=/tmp/wt7-C19 /venv/bin/python demo.py
Exit status 1 when at least one case violates the property, 0 otherwise.

Only public entry points are used:  the eyaml-rotate-keys command
(yamlpath.commands.eyaml_rotate_keys.main, run in a child process) with -x pointing at a
deterministic stand-in "eyaml" executable that this program writes itself.
Two stand-ins are written, both speak the command-line protocol the tool uses
(encrypt|decrypt --quiet --stdin [--output=string|block] --pkcs7-public-key=..
--pkcs7-private-key=..):
  * eyaml-auth   : keyed stream cipher + 4-byte integrity tag; decrypting with
                   the wrong key FAILS (exit 1), like the real hiera-eyaml.
  * eyaml-noauth : keyed reversible shift cipher over printable ASCII with no
                   integrity tag; decrypting with the wrong key "works" and
                   yields different text.
"""
import os
import shutil
import subprocess
import sys
import tempfile

from ruamel.yaml import YAML
from ruamel.yaml.comments import CommentedMap

HERE = os.path.dirname(os.path.abspath(__file__))

COMMON = r'''#!%(py)s
import sys, base64, hashlib
def ks(key, n):
    out = b""; c = 0
    while len(out) < n:
        out += hashlib.sha256(key + c.to_bytes(4, "big")).digest(); c += 1
    return out[:n]
def emit(s, output):
    if output == "block":   # hiera-eyaml block layout: 4-space indent, 60 columns
        sys.stdout.write("    " + "\n    ".join(s[i:i+60] for i in range(0, len(s), 60)) + "\n")
    else:
        sys.stdout.write(s + "\n")
a = sys.argv[1:]; mode = a[0]; pub = priv = None; output = "string"
for x in a[1:]:
    if x.startswith("--pkcs7-public-key="): pub = x.split("=", 1)[1]
    elif x.startswith("--pkcs7-private-key="): priv = x.split("=", 1)[1]
    elif x.startswith("--output="): output = x.split("=", 1)[1]
data = sys.stdin.buffer.read()
def keyof(path): return open(path, "rb").read().strip().split(b":")[-1]
def token(data):
    s = data.decode("ascii").strip()
    if not (s.startswith("ENC[PKCS7,") and s.endswith("]")):
        sys.stderr.write("not an ENC[PKCS7,...] token\n"); sys.exit(1)
    try:
        return base64.b64decode(s[10:-1], validate=True)
    except Exception:
        sys.stderr.write("bad base64\n"); sys.exit(1)
'''

AUTH = COMMON + r'''
if mode == "encrypt":
    key = keyof(pub)
    body = hashlib.sha256(key + data).digest()[:4] + data
    ct = bytes(x ^ y for x, y in zip(body, ks(key, len(body))))
    emit("ENC[PKCS7," + base64.b64encode(ct).decode() + "]", output)
elif mode == "decrypt":
    key = keyof(priv); ct = token(data)
    body = bytes(x ^ y for x, y in zip(ct, ks(key, len(ct))))
    if hashlib.sha256(key + body[4:]).digest()[:4] != body[:4]:
        sys.stderr.write("wrong key\n"); sys.exit(1)
    sys.stdout.buffer.write(body[4:])
else:
    sys.exit(2)
'''

NOAUTH = COMMON + r'''
def shift(data, key, sign):
    out = bytearray()
    for b, s in zip(data, ks(key, len(data))):
        out.append(32 + (b - 32 + sign * s) %% 95 if 32 <= b < 127 else b)
    return bytes(out)
if mode == "encrypt":
    emit("ENC[PKCS7," + base64.b64encode(shift(data, keyof(pub), 1)).decode() + "]", output)
elif mode == "decrypt":
    sys.stdout.buffer.write(shift(token(data), keyof(priv), -1))
else:
    sys.exit(2)
'''


class Env:
    """A scratch directory with the two stand-in executables and two key pairs."""

    def __init__(self):
        self.dir = tempfile.mkdtemp(prefix="demo_c19_", dir=HERE)
        self.bins = {}
        for name, src in (("auth", AUTH), ("noauth", NOAUTH)):
            path = os.path.join(self.dir, "eyaml-" + name)
            with open(path, "w") as fhnd:
                fhnd.write(src % {"py": sys.executable})
            os.chmod(path, 0o755)
            self.bins[name] = path
        self.keys = {}
        for gen in ("old", "new"):
            priv = os.path.join(self.dir, gen + "_private_key.pem")
            pub = os.path.join(self.dir, gen + "_public_key.pem")
            for path, kind in ((priv, "private"), (pub, "public")):
                with open(path, "w") as fhnd:
                    fhnd.write("{}:{}-key-material\n".format(kind, gen))
            self.keys[gen] = (priv, pub)

    def close(self):
        shutil.rmtree(self.dir, ignore_errors=True)

    def _keyargs(self, gen):
        priv, pub = self.keys[gen]
        return ["--pkcs7-public-key=" + pub, "--pkcs7-private-key=" + priv]

    def enc(self, plaintext, cipher="auth", gen="old"):
        """One-line ENC[PKCS7,...] token for plaintext."""
        res = subprocess.run(
            [self.bins[cipher], "encrypt", "--quiet", "--stdin",
             "--output=string"] + self._keyargs(gen),
            input=plaintext.encode("utf-8"), stdout=subprocess.PIPE, check=True)
        return res.stdout.decode("ascii").strip()

    def dec(self, value, cipher, gen):
        """Plaintext of an ENC value under a key generation; None on failure."""
        clean = "".join(str(value).split())
        res = subprocess.run(
            [self.bins[cipher], "decrypt", "--quiet", "--stdin"]
            + self._keyargs(gen),
            input=clean.encode("ascii"), stdout=subprocess.PIPE,
            stderr=subprocess.PIPE)
        if res.returncode != 0:
            return None
        return res.stdout.decode("utf-8", "replace")

    def rotate(self, content, cipher="auth", backup=True, name="doc.yaml"):
        """Run eyaml-rotate-keys old->new on a file holding content."""
        path = os.path.join(self.dir, name)
        for old in (path, path + ".bak"):
            if os.path.exists(old):
                os.remove(old)
        with open(path, "w") as fhnd:
            fhnd.write(content)
        cmd = [sys.executable, "-c",
               "from yamlpath.commands.eyaml_rotate_keys import main; main()",
               "-x", self.bins[cipher],
               "-i", self.keys["old"][0], "-c", self.keys["old"][1],
               "-r", self.keys["new"][0], "-u", self.keys["new"][1]]
        if backup:
            cmd.append("-b")
        cmd.append(path)
        res = subprocess.run(cmd, stdout=subprocess.PIPE, stderr=subprocess.PIPE)
        with open(path) as fhnd:
            after = fhnd.read()
        return (res.returncode, after, os.path.exists(path + ".bak"),
                res.stderr.decode("utf-8", "replace"))


def is_enc(value):
    """The property's own definition of an encrypted value."""
    return isinstance(value, str) and "".join(value.split()).startswith("ENC[")


def leaves(node, path=""):
    if isinstance(node, CommentedMap):
        for key, val in node.items():
            yield from leaves(val, "{}/{}".format(path, key))
    elif isinstance(node, list):
        for idx, val in enumerate(node):
            yield from leaves(val, "{}[{}]".format(path, idx))
    else:
        yield path, node


def audit(env, cipher, before, after):
    """Compare the documents leaf by leaf; return the property violations."""
    problems = []
    bdoc = list(leaves(YAML().load(before)))
    adoc = list(leaves(YAML().load(after)))
    if [p for p, _ in bdoc] != [p for p, _ in adoc]:
        problems.append("keys/ordering changed: {} -> {}".format(
            [p for p, _ in bdoc], [p for p, _ in adoc]))
        return problems
    for (path, bval), (_, aval) in zip(bdoc, adoc):
        if is_enc(bval):
            want = env.dec(bval, cipher, "old")
            got_new = env.dec(aval, cipher, "new") if is_enc(aval) else None
            got_old = env.dec(aval, cipher, "old") if is_enc(aval) else None
            if want is not None and str(aval).strip() == want.strip():
                problems.append(
                    "{}: the file now holds the former PLAINTEXT {!r} in the"
                    " clear; it does not decrypt under the new keys"
                    .format(path, str(aval)))
            elif not is_enc(aval):
                problems.append(
                    "{}: no longer an ENC[...] value; the file now holds {!r}"
                    .format(path, str(aval)))
            elif got_new != want:
                problems.append(
                    "{}: plaintext was {!r} under the old keys but is {!r}"
                    " under the new keys".format(path, want, got_new))
            if got_old is not None and got_old == want:
                problems.append(
                    "{}: still decrypts to {!r} under the OLD keys"
                    .format(path, want))
        elif bval != aval or type(bval) is not type(aval):
            problems.append("{}: non-encrypted value changed {!r} -> {!r}"
                            .format(path, bval, aval))
    return problems


def show(title, text):
    print("  " + title)
    for line in text.rstrip("\n").split("\n"):
        print("    | " + line.replace("\t", "<TAB>"))


def run_case(env, label, clause, demand, content, cipher="auth", note=None):
    print("=" * 78)
    print("CASE " + label)
    print("  violated clause : " + clause)
    print("  stand-in eyaml  : eyaml-" + cipher)
    show("input file:", content)
    for path, val in leaves(YAML().load(content)):
        if is_enc(val):
            print("    plaintext of {} under the old keys = {!r}".format(
                path, env.dec(val, cipher, "old")))
    print("  property demands: " + demand)
    status, after, has_bak, stderr = env.rotate(content, cipher)
    print("  eyaml-rotate-keys exit status = {}; file rewritten = {}; .bak"
          " written = {}".format(status, after != content, has_bak))
    if stderr.strip():
        show("stderr:", stderr.strip()[-400:])
    show("file afterwards:", after)
    problems = audit(env, cipher, content, after)
    violated = status == 0 and bool(problems)
    for problem in problems:
        print("  OBSERVED: " + problem)
    if note:
        print("  note: " + note)
    if violated:
        print("  ==> VIOLATION (the command reported success)")
    elif status != 0:
        print("  ==> the command did not report success (exit {}); not counted"
              .format(status))
    else:
        print("  ==> property holds")
    return violated


def main():
    env = Env()
    results = []
    try:
        # ------------------------------------------------------------------
        # CASE 1 -- clause violated: "values shared through an anchor are
        # rotated once and stay shared" and "every encrypted value decrypts
        # under the new keys to the same plaintext it had under the old keys".
        # The encrypted scalar lives in a Hash (or Array) which is anchored
        # and aliased.  find_eyaml_paths() reports it once per route (a.secret
        # and b.secret) and, carrying no anchor OF ITS OWN, it escapes the
        # seen_anchors test, so it is decrypted-with-old/re-encrypted-with-new
        # TWICE.  With a cipher that has no integrity check the second pass
        # "decrypts" the already rotated value with the old key and re-encrypts
        # that garbage:  exit 0, secret destroyed.
        # ------------------------------------------------------------------
        sec = env.enc("alpha", "noauth")
        results.append(run_case(
            env, "1a aliased Hash holding an encrypted value (cipher without"
            " integrity check)",
            "values shared through an anchor are rotated once / same plaintext"
            " under the new keys",
            "/a/secret (== /b/secret, one shared node) decrypts to 'alpha'"
            " under the new keys",
            "---\na: &shared\n  secret: {}\n  other: plain\nb: *shared\n"
            .format(sec), cipher="noauth"))
        results.append(run_case(
            env, "1b aliased Array holding an encrypted element (cipher"
            " without integrity check)",
            "values shared through an anchor are rotated once / same plaintext"
            " under the new keys",
            "/a[0] (== /b[0]) decrypts to 'alpha' under the new keys",
            "---\na: &shared\n  - {}\n  - plain\nb: *shared\n".format(sec),
            cipher="noauth"))
        # Same input, authenticated cipher:  the second (redundant) rotation
        # is attempted all the same, the old key is rejected, and the command
        # ends with status 3 although the file was rewritten correctly.  Shown
        # for information; not counted because the command did not "succeed".
        run_case(
            env, "1c (information) same shape, cipher WITH integrity check",
            "values shared through an anchor are rotated once",
            "one rotation of the shared value and a successful exit",
            "---\na: &shared\n  secret: {}\n  other: plain\nb: *shared\n"
            .format(env.enc("alpha", "auth")), cipher="auth",
            note="the value is rotated correctly but a second rotation is"
                 " attempted and fails: spurious exit 3")

        # ------------------------------------------------------------------
        # CASE 2 -- clause violated: "every encrypted value decrypts under the
        # new keys to the same plaintext it had under the old keys".
        # The secret's plaintext itself starts with ENC[ (e.g. a value that was
        # encrypted twice, or a secret which documents the marker).  After
        # decrypting, set_eyaml_value() -> encrypt_eyaml() sees is_eyaml_value(
        # plaintext) and returns it unencrypted, so the plaintext is written
        # to the file in the clear and the command exits 0.
        # ------------------------------------------------------------------
        inner = env.enc("innermost secret")
        results.append(run_case(
            env, "2a plaintext which itself begins with ENC[ (value encrypted"
            " twice)",
            "decrypts under the new keys to the same plaintext it had under"
            " the old keys",
            "/k decrypts under the new keys to {!r}".format(inner),
            "---\nk: {}\nz: 1\n".format(env.enc(inner))))
        results.append(run_case(
            env, "2b plaintext 'ENC[ is our marker'",
            "decrypts under the new keys to the same plaintext it had under"
            " the old keys",
            "/l[0] decrypts under the new keys to 'ENC[ is our marker'",
            "---\nl:\n  - {}\n  - plain\n".format(
                env.enc("ENC[ is our marker"))))

        # ------------------------------------------------------------------
        # CASE 3 -- clause violated: "every encrypted value decrypts under the
        # new keys to the same plaintext it had under the old keys".
        # decrypt_eyaml() applies .rstrip() to what the eyaml command printed,
        # so trailing blanks / line breaks of the secret are dropped before it
        # is re-encrypted.
        # ------------------------------------------------------------------
        results.append(run_case(
            env, "3a plaintext with a trailing space",
            "decrypts under the new keys to the same plaintext it had under"
            " the old keys",
            "/k decrypts under the new keys to 'pass '",
            "---\nk: {}\nz: 1\n".format(env.enc("pass "))))
        results.append(run_case(
            env, "3b multi-line plaintext ending in a line break (a PEM-like"
            " secret)",
            "decrypts under the new keys to the same plaintext it had under"
            " the old keys",
            "/k decrypts to '-----BEGIN-----\\nabc\\n-----END-----\\n'",
            "---\nk: {}\nz: 1\n".format(
                env.enc("-----BEGIN-----\nabc\n-----END-----\n"))))

        # ------------------------------------------------------------------
        # CASE 4 -- clause violated: "A value is treated as encrypted exactly
        # when, ignoring whitespace and line breaks, it begins with the ENC[
        # marker" (hence also "no longer decrypts under the old ones").
        # is_eyaml_value() discards only ' ' and '\n'.  A folded scalar whose
        # text starts with a TAB is therefore not recognised:  exit 0, file
        # neither rewritten nor backed up, secret still under the old keys.
        # ------------------------------------------------------------------
        results.append(run_case(
            env, "4 folded value whose first character is a TAB",
            "a value is encrypted when, ignoring whitespace, it begins with"
            " ENC[; it must no longer decrypt under the old keys",
            "/k is rotated: decrypts to 'alpha' under the new keys only",
            "---\nk: >\n  \t{}\nz: 1\n".format(env.enc("alpha"))))
    finally:
        env.close()

    print("=" * 78)
    count = sum(1 for r in results if r)
    print("{} of {} counted cases violate the property".format(
        count, len(results)))
    sys.exit(1 if count else 0)


if __name__ == "__main__":
    main()
