#!/usr/bin/env python
"""
Demonstrations against the property

  "Evaluating any path on any document fails only with YAML Path errors":
  for any document and any syntactically valid YAML Path, a query either
  returns results or raises the library's YAML Path exception family; ...
  invalid regular expressions ... and deep traversals never surface as
  IndexError, TypeError, KeyError, re.error or RecursionError.

Run as:  cd /tmp/wt5-C15 && PYTHONPATH=/tmp/wt5-C15 /venv/bin/python demo.py

Only public entry points are used:  ruamel.yaml to load each document,
yamlpath.YAMLPath to parse each path, yamlpath.Processor.get_nodes(...,
mustexist=True) to evaluate it (the same call yaml-get makes).

Exit status:  1 when at least one counted case violates the property, else 0.
"""
import sys
import warnings
import multiprocessing
from types import SimpleNamespace

from ruamel.yaml import YAML

from yamlpath import Processor, YAMLPath
from yamlpath.exceptions import YAMLPathException
from yamlpath.wrappers import ConsolePrinter

warnings.simplefilter("ignore")
LOG = ConsolePrinter(SimpleNamespace(quiet=True, verbose=False, debug=False))
DEMAND = ("results, or an exception of the YAMLPathException family"
          " (the path parses without any error)")


def short(text, width=70):
    """Abbreviate long inputs for printing."""
    text = repr(text)
    if len(text) > width:
        text = "{} ...({} chars)... {}".format(
            text[:width // 2], len(text), text[-width // 4:])
    return text


def evaluate(document, path):
    """
    Evaluate one path on one document.

    Returns (violates, description-of-what-the-code-did).
    """
    data = YAML().load(document)

    # The path must be syntactically valid per the library's own parser
    try:
        yaml_path = YAMLPath(path)
        _ = yaml_path.escaped
        _ = yaml_path.unescaped
    except YAMLPathException as ex:
        return (False, "path rejected by the parser: {}".format(ex))

    try:
        count = 0
        for _ in Processor(LOG, data).get_nodes(yaml_path, mustexist=True):
            count += 1
        return (False, "returned {} result(s)".format(count))
    except YAMLPathException as ex:
        return (False, "raised {}: {}".format(
            type(ex).__name__, str(ex)[:60]))
    except BaseException as ex:  # pylint: disable=broad-except
        return (True, "raised {}: {}".format(
            type(ex).__name__, str(ex)[:70]))


def _slice_worker(document, path):
    data = YAML().load(document)
    for _ in Processor(LOG, data).get_nodes(path, mustexist=True):
        pass


def evaluate_with_timeout(document, path, seconds):
    """Evaluate in a child process; report whether it ever comes back."""
    proc = multiprocessing.Process(
        target=_slice_worker, args=(document, path))
    proc.start()
    proc.join(seconds)
    if proc.is_alive():
        proc.terminate()
        proc.join()
        return (True, "neither returned nor raised within {} seconds (the"
                      " loop runs once per integer between the slice bounds;"
                      " this one needs ~10^12 iterations)".format(seconds))
    return (False, "finished, exit code {}".format(proc.exitcode))


def alias_chain(levels):
    """A document whose nesting depth is built by chaining aliases."""
    lines = ["n0: &n0 [1]"]
    for idx in range(1, levels):
        lines.append("n{0}: &n{0} [*n{1}]".format(idx, idx - 1))
    return "\n".join(lines) + "\n"


CASES = []


def case(label, clause, document, path, counted=True, runner=None):
    """Register one separately labelled case."""
    CASES.append((label, clause, document, path, counted, runner))


# ---------------------------------------------------------------------------
# A. NotImplementedError from paths the parser accepts
# ---------------------------------------------------------------------------
# Clause violated:  "a query either returns results or raises the library's
# YAML Path exception family" (title:  fails ONLY with YAML Path errors).
# NotImplementedError is not a YAMLPathException.  Whatever follows a closing
# ")" without a separator -- or a "]" closing a bracket that held a "(...)"
# -- is parsed into a (COLLECTOR, <str>) segment which no evaluator branch
# accepts.
case("A1 search term written in parentheses",
     "only YAML Path errors (NotImplementedError surfaces)",
     "l: [1, 2]\n", "l[.=(1)]")
case("A2 key directly after a Collector",
     "only YAML Path errors (NotImplementedError surfaces)",
     "a: 1\n", "(a)b")
case("A3 Collector inside brackets",
     "only YAML Path errors (NotImplementedError surfaces)",
     "a: 1\n", "[(a)]")

# ---------------------------------------------------------------------------
# B. Regular expressions which re.compile() refuses with something other
#    than re.error
# ---------------------------------------------------------------------------
# Clause violated:  "invalid regular expressions ... never surface as ...";
# only re.error is translated to YAMLPathException in
# Searches.search_matches, yet re.compile() also raises OverflowError,
# ValueError and RecursionError.
case("B1 regex with an oversized repetition count",
     "invalid regular expressions (OverflowError surfaces)",
     "- abc\n", "[.=~/a{4294967296}/]")
case("B2 regex with incompatible inline flags",
     "invalid regular expressions (ValueError surfaces)",
     "- abc\n", "[.=~/(?u)(?a)x/]")
case("B3 regex with 500 nested groups",
     "invalid regular expressions / RecursionError surfaces",
     "- abc\n", "[.=~/" + "(" * 500 + "a" + ")" * 500 + "/]")
case("B4 wildcard key whose text becomes such a regex",
     "invalid regular expressions (OverflowError surfaces)",
     "abc: 1\n", "a{4294967296}*b*")

# ---------------------------------------------------------------------------
# C. RecursionError
# ---------------------------------------------------------------------------
# Clause violated:  "... and deep traversals never surface as ...
# RecursionError".  These inputs are outside the C01 corpus proper (hence
# the lower confidence) but they are legitimate YAML / legitimate paths.
case("C1 self-referential sequence, plain key",
     "RecursionError surfaces (anchors and aliases)",
     "&r\n- *r\n", "a")
case("C2 self-referential sequence, keyword search",
     "RecursionError surfaces (keyword searches)",
     "&r\n- *r\n", "[max()]")
case("C3 self-referential sequence, deep traversal",
     "RecursionError surfaces (deep traversals)",
     "&r\n- {k: *r}\n", "**")
case("C4 600 levels of nesting built from chained aliases, search",
     "RecursionError surfaces (searches over children)",
     alias_chain(600), "n599[.=1]")
case("C5 1200 levels of nesting built from chained aliases, traversal",
     "RecursionError surfaces (deep traversals)",
     alias_chain(1200), "n1199.**")
case("C6 a valid path of 1001 segments on a one-key document",
     "RecursionError surfaces (any syntactically valid YAML Path)",
     "a: 1\n", "a" + "[.=1]" * 1000)

# ---------------------------------------------------------------------------
# D. A slice far past the end never comes back
# ---------------------------------------------------------------------------
# Clause violated (liveness reading):  "slices past either end ...  a query
# either returns results or raises ...".  _get_nodes_by_index iterates
# range(min, max) in Python, skipping out-of-range members one by one.
case("D1 slice whose upper bound is far past the end",
     "slices past either end:  neither results nor an exception",
     "l: [1, 2, 3]\n", "l[0:1000000000000]",
     runner=lambda doc, path: evaluate_with_timeout(doc, path, 10))

# ---------------------------------------------------------------------------
# E. Informational only, NOT counted:  outside the stated scope because the
#    left Collector operand selects a Hash ("collectors limited to operands
#    selecting scalars")
# ---------------------------------------------------------------------------
case("E1 (Hash) - (scalar) Collector subtraction  [outside scope]",
     "TypeError surfaces, but the operand is not a scalar",
     "m: {x: {v: 1}}\nl: [1]\n", "(m.x)-(l[0])", counted=False)
case("E2 (Hash) - (text scalar) Collector subtraction  [outside scope]",
     "AttributeError surfaces, but the operand is not a scalar",
     "m: {x: {v: 1}}\nl: [x]\n", "(m.x)-(l[0])", counted=False)


def main():
    """Run every case."""
    violations = 0
    for label, clause, document, path, counted, runner in CASES:
        if runner is None:
            violates, observed = evaluate(document, path)
        else:
            violates, observed = runner(document, path)

        verdict = "ok"
        if violates:
            verdict = "VIOLATION" if counted else "violation (not counted)"
            if counted:
                violations += 1

        print("=== {}".format(label))
        print("    document : {}".format(short(document)))
        print("    path     : {}".format(short(path)))
        print("    clause   : {}".format(clause))
        print("    demanded : {}".format(DEMAND))
        print("    observed : {}".format(observed))
        print("    verdict  : {}".format(verdict))

    print()
    print("{} counted violation(s) in {} case(s)".format(
        violations, len(CASES)))
    return 1 if violations else 0


if __name__ == "__main__":
    sys.exit(main())
