#!/usr/bin/env python
"""
Reproduced violations of the property

  "EYAML key rotation re-keys every secret once and touches nothing else"

against eyaml-rotate-keys (yamlpath/commands/eyaml_rotate_keys.py and
yamlpath/eyaml/eyamlprocessor.py) AS THE CODE IS.

Run:  cd /tmp/wt5-C19 && PYTHONPATH=/tmp/wt5-C19 /venv/bin/python demo.py

Only the public command entry point (eyaml_rotate_keys.main, run in a child
process exactly like the console script) is used.  The eyaml executable is a
deterministic stand-in written by this program: a keyed, reversible cipher
(keystream XOR + base64, with a 4-byte marker so a wrong key is detected and
reported with a non-zero exit status) speaking the same command line protocol
(encrypt|decrypt --quiet --stdin --output=string|block
--pkcs7-public-key=F --pkcs7-private-key=F).  Like the real eyaml (Ruby
`puts`), it ends its output with one line break.

Exit status: 1 when at least one case violates the property, 0 otherwise.
"""
import base64
import hashlib
import os
import re
import shutil
import subprocess
import sys
import tempfile
import warnings

from ruamel.yaml import YAML

PY = sys.executable
HERE = os.path.dirname(os.path.abspath(__file__))

STANDIN = r'''#!%s
import sys, re, base64, hashlib
MAGIC = b"EYML"
def keyid(path):
    with open(path, "rb") as f:
        return f.read().strip().split(b":", 1)[1]
def stream(kid, n):
    out = b""; c = 0
    while len(out) < n:
        out += hashlib.sha256(kid + b"/" + str(c).encode()).digest(); c += 1
    return out[:n]
def xor(kid, data):
    return bytes(a ^ b for a, b in zip(data, stream(kid, len(data))))
def main():
    args = sys.argv[1:]
    if not args: sys.exit(2)
    cmd = args[0]
    opts = {}
    for a in args[1:]:
        if a.startswith("--") and "=" in a:
            k, v = a[2:].split("=", 1); opts[k] = v
    data = sys.stdin.buffer.read()
    if cmd == "encrypt":
        kid = keyid(opts["pkcs7-public-key"])
        tok = "ENC[PKCS7," + base64.b64encode(xor(kid, MAGIC + data)).decode("ascii") + "]"
        if opts.get("output", "string") == "block":
            out = "    " + "\n    ".join(tok[i:i+60] for i in range(0, len(tok), 60))
        else:
            out = tok
        sys.stdout.write(out + "\n")
    elif cmd == "decrypt":
        kid = keyid(opts["pkcs7-private-key"])
        def rep(m):
            pt = xor(kid, base64.b64decode(re.sub(r"\s", "", m.group(1))))
            if pt[:4] != MAGIC:
                sys.stderr.write("stand-in eyaml: wrong key\n"); sys.exit(1)
            return pt[4:].decode("latin-1")
        out = re.sub(r"ENC\[PKCS7,([A-Za-z0-9+/=\s]*)\]", rep, data.decode("ascii"))
        sys.stdout.buffer.write(out.encode("latin-1"))
        if not out.endswith("\n"):
            sys.stdout.buffer.write(b"\n")
    else:
        sys.exit(2)
main()
''' % PY

MAGIC = b"EYML"


def _stream(kid, size):
    out = b""
    ctr = 0
    while len(out) < size:
        out += hashlib.sha256(kid + b"/" + str(ctr).encode()).digest()
        ctr += 1
    return out[:size]


def _xor(kid, data):
    return bytes(a ^ b for a, b in zip(data, _stream(kid, len(data))))


def enc(plaintext, kid=b"old"):
    """Ciphertext token of `plaintext` under the OLD keys (same cipher)."""
    return ("ENC[PKCS7,"
            + base64.b64encode(
                _xor(kid, MAGIC + plaintext.encode("latin-1"))).decode()
            + "]")


def dec(value, kid):
    """Plaintext of an ENC[...] value under key `kid`; None if impossible."""
    clean = re.sub(r"\s", "", str(value))
    match = re.match(r"^ENC\[PKCS7,([A-Za-z0-9+/=]*)\]$", clean)
    if not match:
        return None
    try:
        raw = base64.b64decode(match.group(1))
    except Exception:  # pylint: disable=broad-except
        return None
    ptx = _xor(kid, raw)
    if ptx[:4] != MAGIC:
        return None
    return ptx[4:].decode("latin-1")


class Env:
    """A scratch directory with the stand-in eyaml and two key pairs."""

    def __init__(self):
        self.dir = tempfile.mkdtemp(prefix="c19-demo-")
        self.eyaml = os.path.join(self.dir, "eyaml")
        with open(self.eyaml, "w") as fhnd:
            fhnd.write(STANDIN)
        os.chmod(self.eyaml, 0o755)
        self.keys = {}
        for name in ("old", "new"):
            pub = os.path.join(self.dir, name + ".pub.pem")
            priv = os.path.join(self.dir, name + ".priv.pem")
            with open(pub, "w") as fhnd:
                fhnd.write("PUB:" + name + "\n")
            with open(priv, "w") as fhnd:
                fhnd.write("PRIV:" + name + "\n")
            self.keys[name] = (priv, pub)
        self.count = 0

    def rotate(self, text):
        """Write `text`, run eyaml-rotate-keys --backup on it."""
        self.count += 1
        path = os.path.join(self.dir, "case%d.yaml" % self.count)
        with open(path, "w", encoding="utf-8", newline="") as fhnd:
            fhnd.write(text)
        environ = dict(os.environ)
        environ["PYTHONPATH"] = HERE + os.pathsep + environ.get(
            "PYTHONPATH", "")
        cmd = [
            PY, "-c",
            "import sys; sys.argv[0]='eyaml-rotate-keys';"
            " from yamlpath.commands.eyaml_rotate_keys import main; main()",
            "--backup", "--eyaml", self.eyaml,
            "--newprivatekey", self.keys["new"][0],
            "--newpublickey", self.keys["new"][1],
            "--oldprivatekey", self.keys["old"][0],
            "--oldpublickey", self.keys["old"][1],
            path]
        res = subprocess.run(
            cmd, capture_output=True, text=True, env=environ, cwd=HERE)
        with open(path, encoding="utf-8", newline="") as fhnd:
            after = fhnd.read()
        return res, after, os.path.exists(path + ".bak")


def load(text):
    """Load with plain ruamel.yaml (round-trip), None when unparsable."""
    yaml = YAML()
    with warnings.catch_warnings():
        warnings.simplefilter("ignore")
        try:
            return yaml.load(text)
        except Exception as ex:  # pylint: disable=broad-except
            return ex


ENV = Env()
RESULTS = []


def case(label, clause, text, demand, judge):
    """
    Run one case.

    `judge(result, after_text, after_doc, backed_up)` returns a list of
    observed deviations from `demand` (empty = property holds).
    """
    res, after, bak = ENV.rotate(text)
    doc = load(after)
    print("=" * 74)
    print("CASE %s" % label)
    print("clause violated: %s" % clause)
    print("--- input file")
    print(text.rstrip("\n"))
    print("--- property demands")
    print(demand)
    print("--- code did: exit status %d, file rewritten: %s, backup made: %s"
          % (res.returncode, after != text, bak))
    if res.stderr.strip():
        print("    stderr: " + res.stderr.strip().splitlines()[-1])
    print("--- file after eyaml-rotate-keys")
    print(after.rstrip("\n"))
    deviations = judge(res, after, doc, bak)
    if res.returncode != 0:
        # The property speaks about successful runs only
        deviations = []
        print("--- (command did not report success: outside the property)")
    if deviations:
        print("--- VIOLATION")
        for dev in deviations:
            print("    * " + dev)
    else:
        print("--- property holds")
    RESULTS.append((label, bool(deviations)))


def want_rotated(doc_value, plaintext, where):
    """Deviations of one value from 'rotated once, same plaintext'."""
    out = []
    new_pt = dec(doc_value, b"new")
    old_pt = dec(doc_value, b"old")
    if new_pt is None:
        out.append("%s does not decrypt under the NEW keys (value now %r)"
                   % (where, str(doc_value)))
    elif new_pt != plaintext:
        out.append("%s decrypts under the NEW keys to %r, not to %r"
                   % (where, new_pt, plaintext))
    if old_pt is not None:
        out.append("%s still decrypts under the OLD keys (to %r)"
                   % (where, old_pt))
    return out


def want_same(doc_value, expected, where):
    """Deviation of one non-encrypted value from 'unchanged'."""
    if doc_value != expected or type(doc_value) is not type(expected):
        if str(doc_value) != str(expected):
            return ["%s was the non-encrypted value %r, now %r"
                    % (where, expected, str(doc_value))]
    return []


# ---------------------------------------------------------------------------
# CASE 1
# Clause: "every encrypted value decrypts under the new keys to the same
# plaintext it had under the old keys".
# A secret whose plaintext itself begins with ENC[ is decrypted and then
# EYAMLProcessor.encrypt_eyaml() refuses to encrypt it ("already encrypted"),
# so the PLAINTEXT is written into the file.
# ---------------------------------------------------------------------------
case(
    "1 plaintext that itself begins with ENC[",
    "every encrypted value decrypts under the new keys to the same plaintext",
    "---\nsecret: %s\n" % enc("ENC[not-a-ciphertext]"),
    "secret: decrypts under the new keys to 'ENC[not-a-ciphertext]'",
    lambda res, after, doc, bak:
        want_rotated(doc["secret"], "ENC[not-a-ciphertext]", "secret"))

# ---------------------------------------------------------------------------
# CASE 2
# Clause: "... to the same plaintext it had under the old keys".
# decrypt_eyaml() rstrip()s whatever eyaml printed, so trailing blanks / tabs
# which belong to the plaintext are lost by the rotation.
# ---------------------------------------------------------------------------
case(
    "2 plaintext with trailing blanks",
    "every encrypted value decrypts under the new keys to the same plaintext",
    "---\nspaces: %s\ntab: %s\n" % (enc("pass  "), enc("pass\t")),
    "spaces: decrypts to 'pass  ';  tab: decrypts to 'pass\\t'",
    lambda res, after, doc, bak:
        want_rotated(doc["spaces"], "pass  ", "spaces")
        + want_rotated(doc["tab"], "pass\t", "tab"))

# ---------------------------------------------------------------------------
# CASE 3
# Clauses: "every encrypted value decrypts under the new keys ... and no
# longer decrypts under the old ones" and "every non-encrypted ... value ...
# is unchanged".
# The YAML Path built for the integer key 1 is the text "1", which the
# processor resolves to the *text* key "1": the plain value is encrypted and
# the real secret is never rotated.  The same happens for true/"True",
# 1.5/"1.5", ~/"None" and date keys.
# ---------------------------------------------------------------------------
case(
    "3 non-text key next to the text key spelled the same",
    "every encrypted value re-keyed; every non-encrypted value unchanged",
    "---\n\"1\": plain\n1: %s\n" % enc("intkey-secret"),
    "\"1\" stays 'plain';  1: decrypts under the new keys to 'intkey-secret'",
    lambda res, after, doc, bak:
        want_same(doc["1"], "plain", 'text key "1"')
        + want_rotated(doc[1], "intkey-secret", "integer key 1"))

# ---------------------------------------------------------------------------
# CASE 4
# Same clauses as case 3.
# A hash key spelled like an anchor reference ("&s") is not escaped by
# YAMLPath.escape_path_section(), so its YAML Path selects the sibling which
# carries the anchor s instead.
# ---------------------------------------------------------------------------
case(
    "4 hash key spelled like an anchor reference",
    "every encrypted value re-keyed; every non-encrypted value unchanged",
    "---\nfirst: &s plain\n\"&s\": %s\n" % enc("amp-secret"),
    "first stays 'plain';  \"&s\": decrypts under the new keys to"
    " 'amp-secret'",
    lambda res, after, doc, bak:
        want_same(doc["first"], "plain", "first")
        + want_rotated(doc["&s"], "amp-secret", 'key "&s"'))

# ---------------------------------------------------------------------------
# CASE 5
# Same clauses as case 3.
# List elements are addressed as [&anchor]; an anchor name holding a "!" is
# not escaped and the "!" is swallowed by the YAML Path parser, so [&a!b]
# selects the element anchored &ab.
# ---------------------------------------------------------------------------
case(
    "5 anchored list element whose anchor name holds a '!'",
    "every encrypted value re-keyed; every non-encrypted value unchanged",
    "---\nl:\n  - &ab plain\n  - &a!b %s\n" % enc("bang-secret"),
    "l[0] stays 'plain';  l[1]: decrypts under the new keys to 'bang-secret'",
    lambda res, after, doc, bak:
        want_same(doc["l"][0], "plain", "l[0]")
        + want_rotated(doc["l"][1], "bang-secret", "l[1]"))

# ---------------------------------------------------------------------------
# CASE 6
# Clause: "every encrypted value decrypts under the new keys to the same
# plaintext it had under the old keys".
# "*" in a key is not escaped, so the key "a*" is a wildcard matching "a*" and
# "ab"; the re-encrypted value of "a*" is stored into every match, and through
# the alias into `first` as well.  The seen-anchor shortcut hides the damage
# and the command reports success.
# ---------------------------------------------------------------------------
case(
    "6 key holding a '*' next to a matching aliased sibling",
    "every encrypted value decrypts under the new keys to the same plaintext",
    "---\nfirst: &s %s\n\"a*\": %s\nab: *s\n"
    % (enc("shared-secret"), enc("star-secret")),
    "first and ab: decrypt to 'shared-secret';  \"a*\": decrypts to"
    " 'star-secret'",
    lambda res, after, doc, bak:
        want_rotated(doc["first"], "shared-secret", "first")
        + want_rotated(doc["ab"], "shared-secret", "ab")
        + want_rotated(doc["a*"], "star-secret", 'key "a*"'))

# ---------------------------------------------------------------------------
# CASE 7
# Clause: "every encrypted value decrypts under the new keys ... and no longer
# decrypts under the old ones"; also "a file holding no such value is neither
# rewritten nor backed up" applied the wrong way round (the file HOLDS one).
# The scan uses non_merged_items(), so a value which exists only inside an
# inline merge mapping is never seen.
# ---------------------------------------------------------------------------
case(
    "7 encrypted value inside an inline merge mapping",
    "every encrypted value is re-keyed",
    "---\nm:\n  <<: {pw: \"%s\"}\n  x: 1\n" % enc("merged-secret"),
    "m.pw: decrypts under the new keys to 'merged-secret', not under the old",
    lambda res, after, doc, bak:
        want_rotated(doc["m"]["pw"], "merged-secret", "m.pw"))

# ---------------------------------------------------------------------------
# CASE 8
# Clause: "every non-encrypted key, value, ordering and anchor is unchanged".
# A literal block whose first line is indented deeper than the block needs an
# indentation indicator; the editor configured by Parsers.get_yaml_editor()
# (sequence=4) writes "|4" for a block it indents by 2, so the rewritten file
# is no longer loadable at all.
# ---------------------------------------------------------------------------
def judge_literal(res, after, doc, bak):
    if isinstance(doc, Exception):
        return ["the rewritten file is not loadable YAML any more: %s"
                % str(doc).splitlines()[0]]
    return want_same(doc["motd"], "  indented\nbase\n", "motd")


case(
    "8 plain literal block starting with a deeper-indented line",
    "every non-encrypted value is unchanged",
    "---\nsecret: %s\nmotd: |2\n    indented\n  base\n" % enc("x"),
    "motd stays '  indented\\nbase\\n'",
    judge_literal)

# ---------------------------------------------------------------------------
# CASE 9
# Clause: "A value is treated as encrypted exactly when, ignoring whitespace
# and line breaks, it begins with the ENC[ marker".
# is_eyaml_value() ignores only blanks and LF; a TAB (or CR) in front of the
# marker makes the value invisible: not rotated, file neither rewritten nor
# backed up, exit status 0.
# ---------------------------------------------------------------------------
case(
    "9 whitespace other than blank/LF in front of the marker",
    "treated as encrypted exactly when, ignoring whitespace, it begins ENC[",
    "---\ntabbed: \"\\t%s\"\nother: 1\n" % enc("tab-secret"),
    "tabbed: decrypts under the new keys to 'tab-secret', not under the old",
    lambda res, after, doc, bak:
        want_rotated(doc["tabbed"], "tab-secret", "tabbed"))

# ---------------------------------------------------------------------------
# CASE 10
# Clause: "A value is treated as encrypted exactly when ... it begins with the
# ENC[ marker" / "every encrypted value ...".
# A scalar carrying an application tag is loaded as a TaggedScalar, which
# is_eyaml_value() rejects because it is not a str.
# ---------------------------------------------------------------------------
case(
    "10 encrypted scalar carrying an application tag",
    "every encrypted value is re-keyed",
    "---\ntagged: !secret %s\nplain: %s\n"
    % (enc("tagged-secret"), enc("untagged-secret")),
    "tagged: decrypts under the new keys to 'tagged-secret', not under the"
    " old",
    lambda res, after, doc, bak:
        want_rotated(getattr(doc["tagged"], "value", doc["tagged"]),
                     "tagged-secret", "tagged")
        + want_rotated(doc["plain"], "untagged-secret", "plain"))

# ---------------------------------------------------------------------------
# CASE 11
# Clause: "every non-encrypted key, value, ordering and anchor is unchanged".
# An anchor on a null value (and every alias of it) disappears from the
# rewritten file.
# ---------------------------------------------------------------------------
def judge_null_anchor(res, after, doc, bak):
    out = []
    if "&nothing" not in after:
        out.append("the anchor &nothing is gone from the file")
    if "*nothing" not in after:
        out.append("the alias *nothing is gone from the file")
    return out


case(
    "11 anchor on a null value",
    "every non-encrypted anchor is unchanged",
    "---\nsecret: %s\nn: &nothing\nuse: *nothing\n" % enc("x"),
    "n keeps its anchor &nothing and use stays the alias *nothing",
    judge_null_anchor)

print("=" * 74)
for label, bad in RESULTS:
    print("%-9s %s" % ("VIOLATED" if bad else "holds", label))
shutil.rmtree(ENV.dir, ignore_errors=True)
sys.exit(1 if any(bad for _, bad in RESULTS) else 0)
