#!/usr/bin/env python
"""
Stand-alone demonstration of inputs for which yamlpath's diff engine violates

  "A diff is truthful and complete; it is empty of changes iff the data are
   equal"

Run as:  cd /tmp/wt7-C06 && PYTHONPATH=/tmp/wt7-C06 /venv/bin/python demo.py
Exit status: 1 when at least one case violates the property, else 0.

Only public entry points are used: yamlpath.common.Parsers, yamlpath.Processor,
yamlpath.differ.Differ / DifferConfig (library) and the yaml-diff command
(python -m yamlpath.commands.yaml_diff).
"""
import json
import os
import subprocess
import sys
import tempfile
from types import SimpleNamespace

from yamlpath import Processor, YAMLPath
from yamlpath.common import Parsers
from yamlpath.differ import Differ, DifferConfig
from yamlpath.differ.enums import DiffActions
from yamlpath.wrappers import ConsolePrinter

LOG = ConsolePrinter(SimpleNamespace(quiet=True, verbose=False, debug=False))
TMP = tempfile.mkdtemp(prefix="c06demo")
VIOLATIONS = []


def load(text):
    """Parse one YAML document from text."""
    (data, ok) = Parsers.get_yaml_data(
        Parsers.get_yaml_editor(), LOG, text, literal=True)
    assert ok, text
    return data


def diff(lhs_text, rhs_text, arrays=None, aoh=None, config=None):
    """Library diff of two YAML texts; returns (lhs, rhs, [DiffEntry])."""
    lhs = load(lhs_text)
    rhs = load(rhs_text)
    args = SimpleNamespace(arrays=arrays, aoh=aoh, config=config)
    differ = Differ(DifferConfig(LOG, args), LOG, lhs)
    differ.compare_to(rhs)
    return lhs, rhs, list(differ.get_report())


def jsn(data):
    return json.dumps(Parsers.jsonify_yaml_data(data), default=str)


def show(entries):
    if not entries:
        print("      (the diff has no entries at all)")
    for ent in entries:
        act = {"s": "SAME", "c": "CHANGE", "a": "ADD", "d": "DELETE"}[
            str(ent.action)]
        # DiffEntry has no public rhs accessor; str(entry) shows it, the
        # attribute is read here only for compact printing.
        print("      {:6} path={!r:14} lhs={} rhs={}".format(
            act, str(ent.path), jsn(ent.lhs), jsn(getattr(ent, "_rhs"))))


def has_change(entries):
    return any(e.action is not DiffActions.SAME for e in entries)


def cli(*argv):
    """Run the yaml-diff command; returns (exit status, stdout+stderr)."""
    proc = subprocess.run(
        [sys.executable, "-m", "yamlpath.commands.yaml_diff", *argv],
        stdout=subprocess.PIPE, stderr=subprocess.STDOUT, text=True,
        env=dict(os.environ), check=False)
    return proc.returncode, proc.stdout


def tmpfile(name, content):
    path = os.path.join(TMP, name)
    with open(path, "w", encoding="utf-8") as fhnd:
        fhnd.write(content)
    return path


def header(num, title, lhs, rhs, opts, demand):
    print("=" * 78)
    print("CASE {}: {}".format(num, title))
    print("   LHS    : {}".format(lhs.strip().replace("\n", " | ")))
    print("   RHS    : {}".format(rhs.strip().replace("\n", " | ")))
    print("   options: {}".format(opts))
    print("   property demands: {}".format(demand))
    print("   observed:")


def verdict(num, violated, why):
    print("   --> {}: {}".format(
        "VIOLATION" if violated else "ok (not reproduced)", why))
    if violated:
        VIOLATIONS.append(num)


# ---------------------------------------------------------------------------
# CASE 1
# Clauses violated: "every leaf of either document is covered by an entry at
# its path or an ancestor path" and "each left element is accounted for
# exactly once as same, changed or deleted and each right element exactly once
# as same, changed or added".  An empty container that is present, and equal,
# on both sides produces NO entry whenever the differ descends into it (Hash
# values, elements of scalar lists, dpos/deep/value records).  Users see it in
# `yaml-diff --same`: the node is simply missing from the listing.
# ---------------------------------------------------------------------------
def case1():
    lhs = "a: {}\nb: []\nc: [[], 1]\n"
    rhs = lhs
    header(1, "equal empty containers are not covered / accounted for",
           lhs, rhs, "defaults (positional); also --arrays value",
           "SAME entries covering a, b, c[0] and c[1]; element c[0] accounted"
           " for once on each side")
    _, _, ents = diff(lhs, rhs)
    show(ents)
    paths = {str(e.path) for e in ents}
    _, _, ents_v = diff("[[]]", "[[]]", arrays="value")
    print("      -- '[[]]' vs '[[]]' with arrays=value:")
    show(ents_v)
    missing = [p for p in ("a", "b", "c[0]") if p not in paths]
    violated = bool(missing) or len(ents_v) == 0
    verdict(1, violated,
            "no entry at {} (only c[1] is reported); the single element of"
            " [[]] is accounted for zero times".format(missing))


# ---------------------------------------------------------------------------
# CASE 2
# Clause violated: "In every array mode ... key-synchronised - the diff
# contains a non-SAME entry exactly when the two documents differ as data -
# sequence order disregarded in the synchronised modes".  The RHS is the LHS
# with its two records swapped; both records carry the same identity-key value
# (a repeated value).  Every LHS record has an identical twin in the RHS, yet
# the key matcher pairs each record with the FIRST record of equal key and
# reports two CHANGEs (key mode) / two CHANGEd leaves (deep mode).
# ---------------------------------------------------------------------------
def case2():
    lhs = "- {id: 1, a: 1}\n- {id: 1, a: 2}\n"
    rhs = "- {id: 1, a: 2}\n- {id: 1, a: 1}\n"
    header(2, "key/deep: reordered records with a repeated identity value",
           lhs, rhs, "aoh=key, then aoh=deep",
           "no non-SAME entry (the documents are equal once sequence order"
           " is disregarded; each record has an identical twin)")
    violated = False
    for mode in ("key", "deep"):
        _, _, ents = diff(lhs, rhs, aoh=mode)
        print("      -- aoh={}".format(mode))
        show(ents)
        violated = violated or has_change(ents)
    # The same happens without any repeated value in the intended identity
    # field when the RHS merely spells its first record's keys in another
    # order (the identity key is inferred from the first key of RHS[0]).
    lhs2 = "- {id: 1, name: a}\n- {id: 2, name: a}\n"
    rhs2 = "- {name: a, id: 2}\n- {name: a, id: 1}\n"
    _, _, ents = diff(lhs2, rhs2, aoh="key")
    print("      -- aoh=key, LHS {} RHS {}".format(
        lhs2.strip().replace("\n", " | "), rhs2.strip().replace("\n", " | ")))
    show(ents)
    violated = violated or has_change(ents)
    verdict(2, violated, "CHANGE entries although the data are equal")


# ---------------------------------------------------------------------------
# CASE 3
# Clauses violated: positional truthfulness ("a SAME ... entry's right value
# is what the right document holds there") and "the diff contains a non-SAME
# entry exactly when the two documents differ".  A [rules] line selects
# value-synchronisation for ONE list, x.list.  DifferConfig._get_config_for
# compares nodes with == instead of identity, so the rule is also applied to
# y.list whenever the RHS y subtree happens to equal the RHS x subtree.
# y.list is therefore - by configuration - a positional list, LHS [2, 1] vs
# RHS [1, 2], and the diff says it is all SAME.
# ---------------------------------------------------------------------------
def case3():
    lhs = "x: {list: [1, 2]}\ny: {list: [2, 1]}\n"
    rhs = "x: {list: [1, 2]}\ny: {list: [1, 2]}\n"
    cfg = tmpfile("rules.ini", "[rules]\nx.list = value\n")
    header(3, "a [rules] entry for x.list leaks onto the equal-looking y.list",
           lhs, rhs, "config: [rules] x.list = value   (everything else"
           " positional, the default)",
           "y.list is positional: CHANGE y.list[0] 2->1 and CHANGE y.list[1]"
           " 1->2; the diff must contain a non-SAME entry")
    _, rdoc, ents = diff(lhs, rhs, config=cfg)
    show(ents)
    untruthful = []
    for ent in ents:
        if str(ent.path).startswith("y.") and ent.action is DiffActions.SAME:
            held = [n.node for n in Processor(LOG, rdoc).get_nodes(
                YAMLPath(str(ent.path)), mustexist=True)][0]
            if held != getattr(ent, "_rhs"):
                untruthful.append("{} says rhs={} but RHS holds {}".format(
                    ent.path, jsn(getattr(ent, "_rhs")), jsn(held)))
    # Control: as soon as RHS y differs from RHS x the rule no longer leaks
    _, _, ctl = diff(lhs, "x: {list: [1, 2]}\ny: {list: [1, 2], z: 0}\n",
                     config=cfg)
    print("      -- control (RHS y gets an extra key z so that y != x):")
    show(ctl)
    verdict(3, (not has_change(ents)) or bool(untruthful),
            "no non-SAME entry; " + "; ".join(untruthful))


# ---------------------------------------------------------------------------
# CASE 4
# Clauses violated: "the diff contains a non-SAME entry exactly when the two
# documents differ as data" and "a SAME ... entry's left value is what the
# left document holds".  yaml-diff's get_docs() turns every root scalar whose
# str() is empty into null, so the document "" (an empty string) compared
# with the document ~ (null) is reported SAME with exit status 0, and the
# entry shows null for the left side.  The library itself gets this right.
# ---------------------------------------------------------------------------
def case4():
    lhs = '""\n'
    rhs = "~\n"
    header(4, "yaml-diff: a root empty string equals a root null",
           lhs, rhs, "command line: yaml-diff --same LHS RHS",
           "a CHANGE entry (\"\" -> null) and exit status 1")
    lfile = tmpfile("estr.yaml", lhs)
    rfile = tmpfile("null.yaml", rhs)
    status, out = cli("--same", lfile, rfile)
    print("      exit status {}; output: {}".format(
        status, out.strip().replace("\n", " | ")))
    _, _, ents = diff(lhs, rhs)
    print("      -- the library on the same two documents:")
    show(ents)
    verdict(4, status == 0, "the command reports no difference")


# ---------------------------------------------------------------------------
# CASE 5
# Clause violated: "the diff contains a non-SAME entry exactly when the two
# documents differ as data - sequence order disregarded in the synchronised
# modes".  Whether a list is an "Array-of-Hashes" is decided by looking at
# RHS[0] only.  For a list that mixes one Hash and one scalar, --arrays value
# therefore synchronises in one direction and compares positionally in the
# other: diff(X, Y) shows no difference while diff(Y, X) shows two CHANGEs.
# "Differ as data" is symmetric, so one of the two answers breaks the iff.
# ---------------------------------------------------------------------------
def case5():
    one = "[{a: 1}, 5]"
    two = "[5, {a: 1}]"
    header(5, "arrays=value on a mixed list: the answer depends on direction",
           one, two, "arrays=value (aoh left at its default), both directions",
           "both directions agree on whether the documents differ")
    _, _, fwd = diff(one, two, arrays="value")
    print("      -- diff(LHS, RHS):")
    show(fwd)
    _, _, rev = diff(two, one, arrays="value")
    print("      -- diff(RHS, LHS):")
    show(rev)
    verdict(5, has_change(fwd) != has_change(rev),
            "diff(LHS,RHS) has_change={} but diff(RHS,LHS) has_change={}"
            .format(has_change(fwd), has_change(rev)))


# ---------------------------------------------------------------------------
# CASE 6
# Clause violated: "sequence order disregarded in the synchronised modes".
# With --arrays value a list of lists is synchronised at the top level only:
# elements are paired by order-SENSITIVE equality, so an inner list that was
# merely reordered is reported DELETEd and ADDed.  The same happens to a
# scalar list inside an Array-of-Hashes record that is compared "as a whole
# unit" (aoh=key / value / position), while aoh=deep on the same input finds
# no difference.  (README: "matching up all identical elements" - so this is
# arguably the documented behaviour; reported with low confidence.)
# ---------------------------------------------------------------------------
def case6():
    lhs = "[[1, 2], [3]]"
    rhs = "[[3], [2, 1]]"
    header(6, "arrays=value: order still matters one level down",
           lhs, rhs, "arrays=value",
           "no non-SAME entry (only sequence order differs)")
    _, _, ents = diff(lhs, rhs, arrays="value")
    show(ents)
    lhs2 = "[{id: 1, l: [1, 2]}]"
    rhs2 = "[{id: 1, l: [2, 1]}]"
    _, _, ents_key = diff(lhs2, rhs2, arrays="value", aoh="key")
    print("      -- {} vs {} with arrays=value aoh=key:".format(lhs2, rhs2))
    show(ents_key)
    _, _, ents_deep = diff(lhs2, rhs2, arrays="value", aoh="deep")
    print("      -- same input with arrays=value aoh=deep:")
    show(ents_deep)
    verdict(6, has_change(ents) or has_change(ents_key),
            "DELETE/ADD/CHANGE entries for data that differ in order only")


# ---------------------------------------------------------------------------
# CASE 7 (borderline scope: the RHS list is all Hashes, the LHS list is not)
# Clause violated: "the diff contains a non-SAME entry exactly when the two
# documents differ" - there is no diff at all: with aoh=key or aoh=deep a
# list of scalars that became a list of Hashes (a type clash between the
# elements) makes synchronize_lods_by_key() evaluate `key in <scalar>` and the
# comparison dies with a TypeError.
# ---------------------------------------------------------------------------
def case7():
    lhs = "a: [1, 2]"
    rhs = "a: [{id: 1}]"
    header(7, "key/deep: scalar list on the left, Hash list on the right",
           lhs, rhs, "aoh=key, then aoh=deep with LHS a: [id]",
           "a diff with non-SAME entries (as aoh=position/dpos/value give)")
    violated = False
    for (ltxt, mode) in ((lhs, "key"), ("a: [id]", "deep")):
        try:
            _, _, ents = diff(ltxt, rhs, aoh=mode)
            print("      -- LHS {} aoh={}".format(ltxt, mode))
            show(ents)
        except Exception as ex:  # pylint: disable=broad-except
            violated = True
            print("      -- LHS {} aoh={}: {}: {}".format(
                ltxt, mode, type(ex).__name__, ex))
    verdict(7, violated, "uncaught TypeError instead of a diff")


# ---------------------------------------------------------------------------
# CASE 8 (borderline scope: needs Hash keys spelled like YAML Path syntax)
# Clause violated: "a SAME/CHANGE/DELETE entry's left value is what the left
# document holds at the entry's path, a SAME/CHANGE/ADD entry's right value is
# what the right document holds there".  YAMLPath.escape_path_section() does
# not neutralise & and * and cannot express an empty key, so the paths the
# differ reports for such keys select nothing, something else, or several
# nodes.
# ---------------------------------------------------------------------------
def case8():
    header(8, "entry paths for keys spelled '&x', 'a*b' and ''",
           "{'&x': 1, 'a*b': 1, axb: 9, p: {'': 1}}",
           "{'&x': 2, 'a*b': 2, axb: 9, p: {'': 2}}",
           "defaults (positional)",
           "every CHANGE entry's path selects, in each document, exactly the"
           " node whose value the entry shows")
    lhs = "{'&x': 1, 'a*b': 1, axb: 9, p: {'': 1}}"
    rhs = "{'&x': 2, 'a*b': 2, axb: 9, p: {'': 2}}"
    ldoc, _, ents = diff(lhs, rhs)
    show(ents)
    bad = []
    for ent in ents:
        if ent.action is not DiffActions.CHANGE:
            continue
        try:
            held = [n.node for n in Processor(LOG, ldoc).get_nodes(
                YAMLPath(str(ent.path)), mustexist=True)]
        except Exception as ex:  # pylint: disable=broad-except
            held = "<{}>".format(ex)
        if held != [ent.lhs]:
            bad.append("path {!r} shows lhs={} but selects {} in LHS".format(
                str(ent.path), jsn(ent.lhs),
                held if isinstance(held, str) else jsn(held)))
    for line in bad:
        print("      " + line)
    verdict(8, bool(bad), "{} untruthful path(s)".format(len(bad)))


def main():
    for case in (case1, case2, case3, case4, case5, case6, case7, case8):
        case()
    print("=" * 78)
    print("violating cases: {}".format(VIOLATIONS if VIOLATIONS else "none"))
    sys.exit(1 if VIOLATIONS else 0)


if __name__ == "__main__":
    main()
