#!/usr/bin/env python
"""
Demonstrations against the property

  "Queries never modify the document; creation adds exactly the missing path"

Run as:  cd /tmp/wt7-C09 && PYTHONPATH=/tmp/wt7-C09 /venv/bin/python demo.py

Only public entry points are used:  yamlpath.Processor (exists, get_nodes,
set_value), yamlpath.common.Parsers and the yaml-set command
(python -m yamlpath.commands.yaml_set).  Exit status 1 when at least one case
violates the property, 0 otherwise.
"""
import io
import os
import subprocess
import sys
import tempfile
from types import SimpleNamespace

from yamlpath import Processor
from yamlpath.common import Parsers
from yamlpath.exceptions import YAMLPathException
from yamlpath.wrappers import ConsolePrinter

LOG = ConsolePrinter(SimpleNamespace(quiet=True, verbose=False, debug=False))
HERE = os.path.dirname(os.path.abspath(__file__))


def load(text):
    editor = Parsers.get_yaml_editor()
    (data, loaded) = Parsers.get_yaml_data(editor, LOG, text, literal=True)
    assert loaded, "the demo document must load"
    return editor, data


def dump(editor, data):
    buf = io.StringIO()
    editor.dump(data, buf)
    return buf.getvalue()


def resolves_to(processor, path):
    """What a required-match query finds at path, or None when unmatched."""
    try:
        return [nc.node for nc in processor.get_nodes(path, mustexist=True)]
    except YAMLPathException:
        return None


def indent(text):
    return "".join("      " + line + "\n" for line in text.splitlines())


VIOLATIONS = []


def report(label, clause, doc, operation, demand, observed, violated):
    print("=" * 78)
    print("CASE {}".format(label))
    print("  clause   : {}".format(clause))
    print("  input document:")
    print(indent(doc), end="")
    print("  operation: {}".format(operation))
    print("  property demands: {}".format(demand))
    print("  code did :")
    print(indent(observed), end="")
    print("  => {}".format("VIOLATION" if violated else "ok"))
    if violated:
        VIOLATIONS.append(label)


# ---------------------------------------------------------------------------
# CASE 1 -- a set_value() whose missing tail of TWO OR MORE segments starts
# inside a YAML Set destroys the whole Set.
# Clause violated:  "exactly the missing tail is created so that the path now
# resolves to the supplied value ... and every node that existed before is
# unchanged".  (The one-segment tail was repaired earlier; longer tails still
# fall through to the Set's own coordinates.)
# ---------------------------------------------------------------------------
def case_1():
    doc = "keep: 1\ns: !!set\n  ? a\n  ? b\n"
    path = "s.c.d"
    editor, data = load(doc)
    proc = Processor(LOG, data)
    error = None
    try:
        proc.set_value(path, "NEW")
    except YAMLPathException as ex:
        error = ex
    after = dump(editor, data)
    s_node = data["s"]
    set_survives = (not isinstance(s_node, str)) and "a" in s_node \
        and "b" in s_node
    found = resolves_to(proc, path)
    violated = not set_survives
    report(
        "1  set_value('s.c.d') under a Set",
        "creation: every node that existed before is unchanged; the path"
        " now resolves",
        doc, "Processor.set_value({!r}, 'NEW')".format(path),
        "the Set s keeps its members a and b (the existing prefix is 's');"
        " either the tail is created so that s.c.d resolves to NEW, or the"
        " request is refused with the document untouched",
        "error raised: {!r}\nrequired query of {} now finds: {!r}\n"
        "document afterwards:\n{}".format(error, path, found, after),
        violated)


# ---------------------------------------------------------------------------
# CASE 1b -- the same defect through the yaml-set command:  exit status 0 and
# the Set is gone from the file.
# Clause violated:  same as CASE 1.
# ---------------------------------------------------------------------------
def case_1b():
    doc = "---\nkeep: 1\ns: !!set\n  ? a\n  ? b\n"
    with tempfile.NamedTemporaryFile(
        "w", suffix=".yaml", dir=HERE, delete=False
    ) as fhnd:
        fhnd.write(doc)
        fname = fhnd.name
    try:
        proc = subprocess.run(
            [sys.executable, "-W", "ignore", "-m",
             "yamlpath.commands.yaml_set", "--nostdin",
             "--change=s.c.d", "--value=NEW", fname],
            stdout=subprocess.PIPE, stderr=subprocess.STDOUT, text=True,
            check=False)
        with open(fname, "r", encoding="utf-8") as fhnd:
            after = fhnd.read()
    finally:
        os.unlink(fname)
    _, data = load(after)
    s_node = data["s"]
    set_survives = (not isinstance(s_node, str)) and "a" in s_node \
        and "b" in s_node
    report(
        "1b yaml-set --change=s.c.d --value=NEW under a Set",
        "creation: every node that existed before is unchanged",
        doc, "yaml-set --nostdin --change=s.c.d --value=NEW FILE",
        "the Set s keeps its members a and b, or the command fails and"
        " leaves the file alone",
        "exit status: {}\noutput: {!r}\nfile afterwards:\n{}".format(
            proc.returncode, proc.stdout.strip(), after),
        not set_survives)


# ---------------------------------------------------------------------------
# CASE 1c -- the optional-match query with the same path adds a stray member
# 'c' to the Set, reports the Set itself as the match, raises nothing, and
# the path still does not resolve.
# Clause violated:  "exactly the missing tail is created so that the path now
# resolves to the supplied value".
# ---------------------------------------------------------------------------
def case_1c():
    doc = "s: !!set\n  ? a\n  ? b\n"
    path = "s.c.d"
    editor, data = load(doc)
    proc = Processor(LOG, data)
    error = None
    got = None
    try:
        got = [nc.node for nc in proc.get_nodes(
            path, mustexist=False, default_value="NEW")]
    except YAMLPathException as ex:
        error = ex
    after = dump(editor, data)
    found = resolves_to(proc, path)
    changed = after != dump(*load(doc))
    violated = changed and found != ["NEW"]
    report(
        "1c get_nodes('s.c.d', mustexist=False, default_value='NEW') under"
        " a Set",
        "creation: exactly the missing tail is created so that the path now"
        " resolves to the supplied value",
        doc, "Processor.get_nodes({!r}, mustexist=False,"
        " default_value='NEW')".format(path),
        "s.c.d resolves to NEW afterwards, or the request is refused and"
        " nothing is added",
        "error raised: {!r}\nnodes yielded: {!r}\nrequired query of {} now"
        " finds: {!r}\ndocument afterwards:\n{}".format(
            error, got, path, found, after),
        violated)


# ---------------------------------------------------------------------------
# CASE 2 -- an optional-match query on a path which ALREADY EXISTS (exists()
# is True, the required-match query yields a node) changes the document when
# the path fans out (Array-of-Hashes pass-through, a slice, or a search) and
# one of the branches lacks the last key:  a null-valued key is added there.
# Clause violated:  "an optional-match query on a path that already exists
# leave[s] the document exactly as it was, for every kind of path".
# ---------------------------------------------------------------------------
def case_2():
    doc = "- s: {k: 1}\n- s: {}\n"
    violated_any = False
    for path in ("s.k", "[0:2].s.k", "[s!=zz].s.k"):
        editor, data = load(doc)
        proc = Processor(LOG, data)
        before = dump(editor, data)
        existed = proc.exists(path)
        required = resolves_to(proc, path)
        unchanged_by_required = dump(editor, data) == before
        got = [nc.node for nc in proc.get_nodes(path, mustexist=False)]
        after = dump(editor, data)
        violated = existed and after != before
        violated_any = violated_any or violated
        report(
            "2  optional query of existing path {!r}".format(path),
            "purity: an optional-match query on a path that already exists"
            " leaves the document exactly as it was",
            doc, "Processor.get_nodes({!r}, mustexist=False)".format(path),
            "document identical before and after (exists() said {}, the"
            " required query found {!r} and left the document {})".format(
                existed, required,
                "unchanged" if unchanged_by_required else "CHANGED"),
            "nodes yielded: {!r}\ndocument afterwards:\n{}".format(
                got, after),
            violated)
    return violated_any


# ---------------------------------------------------------------------------
# CASE 3 -- a negative index in the missing tail:  the request is refused
# with a YAMLPathException, but the part of the tail which precedes the
# negative index has already been created (and Arrays padded) and stays.
# Clause violated:  "exactly the missing tail is created so that the path now
# resolves to the supplied value, sequences are padded only up to the
# requested index" -- here nodes are created, an Array is padded, and the
# path does not resolve.
# ---------------------------------------------------------------------------
def case_3():
    doc = "m: {}\nlst: [1]\n"
    for (path, how) in (
        ("m.a.b[-1]", "set"), ("lst[3][-1]", "set"), ("m.a[-1]", "get")
    ):
        editor, data = load(doc)
        proc = Processor(LOG, data)
        before = dump(editor, data)
        error = None
        try:
            if how == "set":
                proc.set_value(path, "NEW")
            else:
                list(proc.get_nodes(
                    path, mustexist=False, default_value="NEW"))
        except YAMLPathException as ex:
            error = ex
        after = dump(editor, data)
        found = resolves_to(proc, path)
        violated = after != before and found != ["NEW"]
        report(
            "3  negative index in the missing tail, {!r} via {}".format(
                path, "set_value" if how == "set" else "get_nodes"),
            "creation: exactly the missing tail is created so that the path"
            " now resolves; Arrays are padded only up to the requested index",
            doc,
            ("Processor.set_value({!r}, 'NEW')" if how == "set" else
             "Processor.get_nodes({!r}, mustexist=False,"
             " default_value='NEW')").format(path),
            "either the path resolves to NEW afterwards or -- when the"
            " request is refused -- nothing has been created",
            "error raised: {!r}\nrequired query of {} now finds: {!r}\n"
            "document afterwards:\n{}".format(error, path, found, after),
            violated)


def main():
    case_1()
    case_1b()
    case_1c()
    case_2()
    case_3()
    print("=" * 78)
    if VIOLATIONS:
        print("{} violating case(s):".format(len(VIOLATIONS)))
        for label in VIOLATIONS:
            print("  - " + label)
        return 1
    print("no violations")
    return 0


if __name__ == "__main__":
    sys.exit(main())
