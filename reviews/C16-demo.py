#!/usr/bin/env python
"""
Stand-alone demonstration of inputs for which the yamlpath command-line tools
violate the property

  "The command-line tools deliver the library's answers and honest exit codes"

Run as:  cd /tmp/wt5-C16 && PYTHONPATH=/tmp/wt5-C16 /venv/bin/python demo.py

Every case drives the REAL console entry points (yamlpath.commands.*.main) in a
child interpreter, builds its own input files in a temporary directory, prints
the input, what the property demands and what the code did.  Exit state is 1
when at least one case violates the property, else 0.
"""
import os
import subprocess
import sys
import tempfile
import datetime
import shutil

from ruamel.yaml import YAML

HERE = os.path.dirname(os.path.abspath(__file__))
ENV = dict(os.environ, PYTHONPATH=HERE)
TMP = tempfile.mkdtemp(prefix="c16demo_", dir=HERE)
VIOLATIONS = []
_COUNTER = [0]


def cli(tool, args, stdin=""):
    """Run one console entry point; returns (exit code, stdout, stderr)."""
    module = "yamlpath.commands." + tool.replace("-", "_")
    code = ("import sys; from {} import main; sys.argv[0] = {!r}; main()"
            .format(module, tool))
    proc = subprocess.run(
        [sys.executable, "-c", code] + list(args), input=stdin,
        capture_output=True, text=True, env=ENV, cwd=TMP)
    return proc.returncode, proc.stdout, proc.stderr


def mkfile(text, suffix=".yaml"):
    _COUNTER[0] += 1
    name = os.path.join(TMP, "in{}{}".format(_COUNTER[0], suffix))
    with open(name, "w", encoding="utf-8") as fhnd:
        fhnd.write(text)
    return name


def plain(node):
    """Reduce ruamel.yaml round-trip data to plain Python data."""
    if isinstance(node, dict):
        return {plain(k): plain(v) for k, v in node.items()}
    if isinstance(node, (list, tuple)):
        return [plain(e) for e in node]
    if isinstance(node, (set, frozenset)) or type(node).__name__ == "CommentedSet":
        return {"!!set": sorted(str(e) for e in node)}
    if hasattr(node, "value") and hasattr(node, "tag"):     # TaggedScalar
        return plain(node.value)
    if isinstance(node, bool):
        return bool(node)
    if isinstance(node, datetime.date):
        return node.isoformat()
    if isinstance(node, int):
        return int(node)
    if isinstance(node, float):
        return float(node)
    if isinstance(node, str):
        return str(node)
    return node


def reload_file(name):
    """Independently reload a file; (True, data) or (False, reason)."""
    try:
        with open(name, "r", encoding="utf-8") as fhnd:
            text = fhnd.read()
        return True, plain(YAML().load(text))
    except Exception as ex:  # pylint: disable=broad-except
        return False, "{}: {}".format(type(ex).__name__, str(ex)[:80])


def last_line(text):
    lines = [l for l in text.strip().split("\n") if l.strip()]
    return lines[-1] if lines else ""


def report(label, clause, input_desc, expected, observed, violated):
    print("=" * 78)
    print("CASE {}".format(label))
    print("  property clause : {}".format(clause))
    print("  input           : {}".format(input_desc))
    print("  property demands: {}".format(expected))
    print("  code did        : {}".format(observed))
    print("  verdict         : {}".format(
        "VIOLATION" if violated else "ok (not reproduced)"))
    if violated:
        VIOLATIONS.append(label)


# -----------------------------------------------------------------------------
# CASE 1
# Clause violated:  "yaml-set leaves a file that reloads to the document the
# set/delete model predicts".
# Changing one scalar also rewrites every !!set of the document which contains
# an equal member (the old member is discarded, the new value is added).
# -----------------------------------------------------------------------------
def case_set_collateral_set_change():
    doc = "s: !!set {a, b}\nq: a\n"
    for delivery in ("file", "stdin"):
        if delivery == "file":
            fname = mkfile(doc)
            rcode, _, err = cli("yaml-set", ["-S", "-g", "q", "-a", "z", fname])
            okay, data = reload_file(fname)
        else:
            rcode, out, err = cli("yaml-set", ["-g", "q", "-a", "z", "-"], doc)
            try:
                okay, data = True, plain(YAML().load(out))
            except Exception as ex:  # pylint: disable=broad-except
                okay, data = False, str(ex)
        expected = {"s": {"!!set": ["a", "b"]}, "q": "z"}
        report(
            "1/{}  yaml-set changes an unrelated Set".format(delivery),
            "yaml-set leaves a file that reloads to the predicted document",
            "{!r};  yaml-set -g q -a z  ({})".format(doc, delivery),
            "exit 0 and document {}".format(expected),
            "exit {} and document {} {}".format(rcode, data, last_line(err)),
            not (okay and data == expected and rcode == 0))


# -----------------------------------------------------------------------------
# CASE 2
# Clause violated:  "yaml-set leaves a file that reloads to the document the
# set/delete model predicts".
# Same root cause as case 1, other symptom: when no member of the Set equals
# the old value, the command dies with a KeyError trace-back and nothing is
# set at all.
# -----------------------------------------------------------------------------
def case_set_crash_with_set_in_document():
    doc = "s: !!set {a, b}\nq: 1\n"
    fname = mkfile(doc)
    rcode, _, err = cli("yaml-set", ["-S", "-g", "q", "-a", "2", fname])
    okay, data = reload_file(fname)
    expected = {"s": {"!!set": ["a", "b"]}, "q": 2}
    report(
        "2  yaml-set cannot change anything in a document which has a Set",
        "yaml-set leaves a file that reloads to the predicted document",
        "{!r};  yaml-set -g q -a 2".format(doc),
        "exit 0 and document {}".format(expected),
        "exit {} and document {};  stderr ends: {}".format(
            rcode, data, last_line(err)),
        not (okay and data == expected and rcode == 0))


# -----------------------------------------------------------------------------
# CASE 3
# Clause violated:  "yaml-set leaves a file that reloads to the document the
# set/delete model predicts".
# The target file is opened for writing BEFORE the document is serialized; any
# serialization failure leaves a truncated file.  Tagging (or setting with a
# tag) any non-text scalar makes ruamel.yaml fail, so the user's file is
# replaced with the 3 bytes "---".
# -----------------------------------------------------------------------------
def case_set_tag_destroys_file():
    doc = "a: 0\nkeep: me\n"
    for args, want in (
        (["-g", "a", "-T", "tag"], {"a": 0, "keep": "me"}),
        (["-g", "a", "-a", "5", "-T", "tag"], {"a": 5, "keep": "me"}),
    ):
        fname = mkfile(doc)
        rcode, _, err = cli("yaml-set", ["-S"] + args + [fname])
        with open(fname, "r", encoding="utf-8") as fhnd:
            raw = fhnd.read()
        okay, data = reload_file(fname)
        report(
            "3  yaml-set {} truncates the file".format(" ".join(args)),
            "yaml-set leaves a file that reloads to the predicted document",
            "{!r};  yaml-set {}".format(doc, " ".join(args)),
            "a file which reloads to {} (or, on refusal, the untouched"
            " original)".format(want),
            "exit {}; file content is now {!r} which reloads to {!r};"
            " stderr ends: {}".format(rcode, raw, data, last_line(err)),
            not (okay and data in (want, {"a": 0, "keep": "me"})))


# -----------------------------------------------------------------------------
# CASE 4
# Clause violated:  "yaml-set leaves a file that reloads to the document the
# set/delete model predicts".
# Same write-before-serialize defect through the JSON writer:  a flow-style
# YAML document (written via json.dump) with a date key.
# -----------------------------------------------------------------------------
def case_set_flow_datekey_destroys_file():
    doc = "{2024-01-01: x, a: 1}\n"
    fname = mkfile(doc)
    rcode, _, err = cli("yaml-set", ["-S", "-g", "a", "-a", "2", fname])
    with open(fname, "r", encoding="utf-8") as fhnd:
        raw = fhnd.read()
    okay, data = reload_file(fname)
    want = {"2024-01-01": "x", "a": 2}
    report(
        "4  yaml-set truncates a flow-style document which has a date key",
        "yaml-set leaves a file that reloads to the predicted document",
        "{!r};  yaml-set -g a -a 2".format(doc),
        "a file which reloads to {} (or the untouched original)".format(want),
        "exit {}; file content is now {!r}; reload: {!r}; stderr ends: {}"
        .format(rcode, raw, data, last_line(err)),
        not (okay and data in (want, {"2024-01-01": "x", "a": 1})))


# -----------------------------------------------------------------------------
# CASE 5
# Clauses violated:  "yaml-diff exits 0 exactly when the two documents are
# data-equal" and "Reading a document from a file or from standard input gives
# the same outcome".
# An empty document is a null document when it comes from STDIN but an
# "index too high" error when it comes from a file.
# -----------------------------------------------------------------------------
def case_diff_empty_file_vs_stdin():
    empty = mkfile("")
    nulldoc = mkfile("--- ~\n")
    adoc = mkfile("a: 1\n")
    f_rc, f_out, f_err = cli("yaml-diff", [empty, nulldoc])
    s_rc, s_out, s_err = cli("yaml-diff", ["-", nulldoc], "")
    report(
        "5a  yaml-diff <empty> <null document>: file versus STDIN",
        "yaml-diff exit code + file/STDIN equivalence",
        "LHS '' (empty), RHS '--- ~'",
        "same outcome for both deliveries (exit 0: both documents are null)",
        "file: exit {} {!r} | stdin: exit {} {!r}".format(
            f_rc, last_line(f_err), s_rc, (s_out + s_err).strip()),
        (f_rc, f_out) != (s_rc, s_out) or f_rc != 0)
    f_rc, f_out, f_err = cli("yaml-diff", [empty, adoc])
    s_rc, s_out, s_err = cli("yaml-diff", ["-", adoc], "")
    report(
        "5b  yaml-diff <empty> 'a: 1': file versus STDIN",
        "file/STDIN equivalence; 'otherwise prints the differ's entries'",
        "LHS '' (empty), RHS 'a: 1'",
        "same outcome for both deliveries (exit 1 and the differ's entries)",
        "file: exit {} stdout {!r} stderr {!r} | stdin: exit {} stdout {!r}"
        .format(f_rc, f_out, last_line(f_err), s_rc, s_out),
        (f_rc, f_out) != (s_rc, s_out))


# -----------------------------------------------------------------------------
# CASE 6
# Clause violated:  "yaml-get ... exits 0 exactly when something matched".
# Against an empty (null) document nothing is printed -- nothing matched -- yet
# the exit state is 0, whatever the query.
# -----------------------------------------------------------------------------
def case_get_empty_document():
    for delivery in ("file", "stdin"):
        if delivery == "file":
            rcode, out, err = cli(
                "yaml-get", ["-S", "-p", "no.such.key", mkfile("")])
        else:
            rcode, out, err = cli("yaml-get", ["-p", "no.such.key", "-"], "")
        report(
            "6/{}  yaml-get on an empty document".format(delivery),
            "yaml-get exits 0 exactly when something matched",
            "'' (empty document);  yaml-get -p no.such.key ({})".format(
                delivery),
            "no output and a non-zero exit (as for 'a: 1', which gives exit 1)",
            "exit {} stdout {!r} stderr {!r}".format(rcode, out, err),
            rcode == 0 and out == "")


# -----------------------------------------------------------------------------
# CASE 7
# Clause violated:  "yaml-get prints one line per matched node ... (JSON for
# containers) and exits 0 exactly when something matched".
# A matched Hash which has a date (or sequence) key cannot be printed: trace-
# back, no line, exit 1 although the node matched.
# -----------------------------------------------------------------------------
def case_get_container_with_date_key():
    doc = "a: {2024-01-01: x}\n"
    rcode, out, err = cli("yaml-get", ["-S", "-p", "a", mkfile(doc)])
    report(
        "7  yaml-get of a Hash which has a date key",
        "yaml-get prints one (JSON) line per matched node and exits 0",
        "{!r};  yaml-get -p a".format(doc),
        "exit 0 and one JSON line such as {\"2024-01-01\": \"x\"}",
        "exit {} stdout {!r}; stderr ends: {}".format(
            rcode, out, last_line(err)),
        not (rcode == 0 and len(out.strip().split("\n")) == 1 and out.strip()))


# -----------------------------------------------------------------------------
# CASE 8
# Clause violated:  "yaml-paths prints exactly the search results".
# For keys spelled like YAML Path syntax the printed path does not designate
# the matched node: it designates other nodes (and --values prints THEIR
# values), or no node at all (--values then dies with a trace-back).
# -----------------------------------------------------------------------------
def case_paths_keys_spelled_like_syntax():
    samples = [
        ("x: v1\n'*': v4\n", "=v4", "v4"),
        ("f: &f v2\n'&f': v1\n", "=v1", "v1"),
        ("x: v0\n'': v3\n", "=v3", "v3"),
        ("x: v0\n'/abs': vL\n", "=vL", "vL"),
    ]
    for doc, expr, value in samples:
        fname = mkfile(doc)
        p_rc, p_out, _ = cli("yaml-paths", ["-S", "-F", "-s", expr, fname])
        path = p_out.rstrip("\n")
        g_rc, g_out, g_err = cli("yaml-get", ["-S", "-p", path, fname])
        l_rc, l_out, l_err = cli(
            "yaml-paths", ["-S", "-F", "-L", "-s", expr, fname])
        good = (p_rc == 0 and g_rc == 0 and g_out == value + "\n"
                and l_rc == 0 and l_out == "{}: {}\n".format(path, value))
        report(
            "8  yaml-paths -s {} in {!r}".format(expr, doc),
            "yaml-paths prints exactly the search results",
            "{!r};  yaml-paths -F [-L] -s {}".format(doc, expr),
            "one path which designates exactly the node holding {!r}; with"
            " --values that very value".format(value),
            "printed path {!r}; yaml-get of that path: exit {} {!r} {}; with"
            " -L: exit {} {!r} {}".format(
                path, g_rc, g_out, last_line(g_err), l_rc, l_out,
                last_line(l_err)),
            not good)


# -----------------------------------------------------------------------------
# CASE 9
# Clause violated:  "yaml-paths prints exactly the search results".
# With non-text keys (boolean, null, float, date) --values dies with a trace-
# back, printing none of the results, exit 1.
# -----------------------------------------------------------------------------
def case_paths_values_nontext_keys():
    for doc in ("true: v1\n", "1.5: v1\n", "2024-01-01: v1\n", "~: v1\n"):
        fname = mkfile(doc)
        rcode, out, err = cli(
            "yaml-paths", ["-S", "-F", "-L", "-s", "=v1", fname])
        report(
            "9  yaml-paths --values with a non-text key, {!r}".format(doc),
            "yaml-paths prints exactly the search results",
            "{!r};  yaml-paths -F -L -s =v1".format(doc),
            "exit 0 and one line '<path>: v1'",
            "exit {} stdout {!r}; stderr ends: {}".format(
                rcode, out, last_line(err)),
            not (rcode == 0 and out.endswith(": v1\n")
                 and out.count("\n") == 1))


# -----------------------------------------------------------------------------
# CASE 10
# Clause violated:  "yaml-diff exits 0 exactly when the two documents are
# data-equal".
# A document which is the empty string is silently turned into null.
# -----------------------------------------------------------------------------
def case_diff_empty_string_root():
    lhs = mkfile('--- ""\n')
    rhs = mkfile("--- ~\n")
    rcode, out, err = cli("yaml-diff", [lhs, rhs])
    report(
        "10  yaml-diff of the documents \"\" and null",
        "yaml-diff exits 0 exactly when the documents are data-equal",
        "LHS '--- \"\"', RHS '--- ~'  (compare: 'a: \"\"' versus 'a: ~' is"
        " reported as a change)",
        "exit 1 and a change entry:  '' is not null",
        "exit {} stdout {!r} {}".format(rcode, out, last_line(err)),
        rcode == 0)


# -----------------------------------------------------------------------------
# CASE 11  (lower confidence: JSON has no such numbers)
# Clause violated:  "yaml-merge prints or writes the model merge of its inputs
# in the requested format".
# With JSON output, not-a-number and infinite floats come out as the TEXT
# "NaN" / "Infinity" (yaml-set, for the same data, writes the bare tokens).
# -----------------------------------------------------------------------------
def case_merge_json_nonfinite_floats():
    lhs = mkfile("c: .inf\n")
    rhs = mkfile("b: 2\n")
    rcode, out, err = cli("yaml-merge", ["-S", "-D", "json", lhs, rhs])
    import json
    try:
        data = json.loads(out)
    except Exception as ex:  # pylint: disable=broad-except
        data = str(ex)
    report(
        "11  yaml-merge -D json of an infinite float",
        "yaml-merge prints the model merge in the requested format",
        "'c: .inf' + 'b: 2';  yaml-merge -D json",
        "JSON whose c is the float infinity ({\"c\": Infinity, \"b\": 2})",
        "exit {} stdout {!r} -> {!r} {}".format(
            rcode, out, data, last_line(err)),
        not (isinstance(data, dict) and isinstance(data.get("c"), float)))


def main():
    case_set_collateral_set_change()
    case_set_crash_with_set_in_document()
    case_set_tag_destroys_file()
    case_set_flow_datekey_destroys_file()
    case_diff_empty_file_vs_stdin()
    case_get_empty_document()
    case_get_container_with_date_key()
    case_paths_keys_spelled_like_syntax()
    case_paths_values_nontext_keys()
    case_diff_empty_string_root()
    case_merge_json_nonfinite_floats()
    print("=" * 78)
    print("{} violating case(s):".format(len(VIOLATIONS)))
    for label in VIOLATIONS:
        print("  - " + label)
    shutil.rmtree(TMP, ignore_errors=True)
    sys.exit(1 if VIOLATIONS else 0)


if __name__ == "__main__":
    main()
