#!/usr/bin/env python
"""
Stand-alone demonstration of inputs for which yaml-set violates the property

  "A failing or interrupted tool run never loses the user's file":
  whenever yaml-set or yaml-merge ends with a non-zero status for a reason
  detected before writing (... impossible change, ... anchor conflict ...),
  the target file is byte-for-byte unchanged and no output or backup file has
  appeared.

Run as:  cd /tmp/wt7-C17 && PYTHONPATH=/tmp/wt7-C17 /venv/bin/python demo.py

Every case builds its own input in a fresh temporary directory, runs the
public command entry point (yamlpath.commands.<tool>.main) in a child process
and compares the directory before and after.  Exit status 1 when at least one
case violates the property, 0 otherwise.
"""
import os
import shutil
import subprocess
import sys
import tempfile

RUNNER = (
    "import sys; from yamlpath.commands.{tool} import main;"
    " sys.argv[0] = '{tool}'; main()")


def snapshot(directory):
    """Map every file name in directory to its bytes."""
    found = {}
    for name in sorted(os.listdir(directory)):
        with open(os.path.join(directory, name), "rb") as fhnd:
            found[name] = fhnd.read()
    return found


def run_case(label, clause, tool, argv, files, target):
    """Run one case; return True when the property is violated."""
    workdir = tempfile.mkdtemp(prefix="c17demo_")
    try:
        for name, content in files.items():
            with open(os.path.join(workdir, name), "wb") as fhnd:
                fhnd.write(content.encode("utf-8"))
        before = snapshot(workdir)
        proc = subprocess.run(
            [sys.executable, "-c", RUNNER.format(tool=tool)] + argv,
            cwd=workdir, stdin=subprocess.DEVNULL,
            stdout=subprocess.PIPE, stderr=subprocess.PIPE, check=False)
        after = snapshot(workdir)
    finally:
        shutil.rmtree(workdir, ignore_errors=True)

    appeared = sorted(set(after) - set(before))
    target_same = after.get(target) == before.get(target)
    last_err = (proc.stderr.decode("utf-8", "replace").strip().splitlines()
                or [""])[-1]
    violated = proc.returncode != 0 and (not target_same or bool(appeared))

    print("=" * 78)
    print("CASE {}".format(label))
    print("  clause violated : {}".format(clause))
    print("  command         : {} {}".format(
        tool.replace("_", "-"), " ".join(repr(a) for a in argv)))
    print("  input {:10}: {!r}".format(target, before[target]))
    print("  property demands: exit status != 0  =>  {} byte-for-byte"
          " unchanged, no new file".format(target))
    print("  observed        : exit status {}; last stderr line: {}".format(
        proc.returncode, last_err[:110]))
    print("                    {} afterwards: {!r}{}".format(
        target, after.get(target),
        "  (UNCHANGED)" if target_same else "  (ORIGINAL CONTENT LOST)"))
    print("                    new files: {}".format(appeared or "none"))
    print("  verdict         : {}".format(
        "VIOLATION" if violated else "ok (property holds)"))
    return violated


YAML_DOC = "---\na: 1\nb: two\nh: {x: 1}\n# trailing comment\n"
JSON_DOC = '{"a": 1, "h": {"x": 1, "sub": {"y": 2}}}\n'

CASES = [
    # ------------------------------------------------------------------
    # 1. --tag on a node whose value is not text.  Nodes.apply_yaml_tag wraps
    #    the int in a TaggedScalar which ruamel.yaml cannot serialise
    #    (TypeError: 'int' object is not subscriptable).  The refusal comes
    #    only after save_to_yaml_file() has already truncated YAML_FILE.
    # Clause: "ends with a non-zero status for ... impossible change => the
    #    target file is byte-for-byte unchanged".
    ("1  yaml-set --tag on an existing integer value (no --backup)",
     "non-zero status => target file byte-for-byte unchanged",
     "yaml_set", ["-g", "/a", "-T", "!x", "f.yaml"],
     {"f.yaml": YAML_DOC}, "f.yaml"),

    # 2. Same mechanism, reached through the everyday "new value plus tag"
    #    form; the new value is read as a number (also true, 1.5, --null).
    # Clause: same as case 1.
    ("2  yaml-set --value 5 --tag !x (new numeric value, no --backup)",
     "non-zero status => target file byte-for-byte unchanged",
     "yaml_set", ["-g", "/b", "-a", "5", "-T", "!x", "f.yaml"],
     {"f.yaml": YAML_DOC}, "f.yaml"),

    # 3. Case 1 with --backup: the run fails, yet the target is truncated AND
    #    a backup file has appeared.
    # Clause: "... the target file is byte-for-byte unchanged and no output
    #    or backup file has appeared".
    ("3  yaml-set --null --tag !x --backup",
     "non-zero status => target unchanged AND no backup file appeared",
     "yaml_set", ["-g", "/b", "-N", "-T", "!x", "-b", "f.yaml"],
     {"f.yaml": YAML_DOC}, "f.yaml"),

    # 3b. --tag on a Set.  Nodes.node_is_leaf() takes a CommentedSet for a
    #    Scalar, so the Set is wrapped in a TaggedScalar as in case 1
    #    (TypeError: 'CommentedSet' object is not subscriptable).
    # Clause: same as case 1.
    ("3b yaml-set --tag on a Set (no --backup)",
     "non-zero status => target file byte-for-byte unchanged",
     "yaml_set", ["-g", "/s", "-T", "!mine", "f.yaml"],
     {"f.yaml": "---\nname: demo\ns: !!set\n  ? p\n  ? q\n"}, "f.yaml"),

    # 4. --anchor with a character YAML forbids in Anchor names (, [ ] { }
    #    TAB or new-line).  validateargs() strips only ' ', '&' and '*'; the
    #    name is refused by the emitter (EmitterError) in the middle of the
    #    dump, after the target was truncated; the file keeps only the text
    #    emitted before the Anchor.
    # Clause: "non-zero status for ... anchor conflict / impossible change =>
    #    target byte-for-byte unchanged".
    ("4  yaml-set --aliasof /a --anchor 'a,b'",
     "non-zero status => target file byte-for-byte unchanged",
     "yaml_set", ["-g", "/b", "-A", "/a", "-H", "a,b", "f.yaml"],
     {"f.yaml": YAML_DOC}, "f.yaml"),

    # 5. Same Anchor defect through --mergekey, with --backup.
    # Clause: as case 3.
    ("5  yaml-set --mergekey /h --anchor 'x[0]' --backup",
     "non-zero status => target unchanged AND no backup file appeared",
     "yaml_set", ["-g", "/new", "-K", "/h", "-H", "x[0]", "-b", "f.yaml"],
     {"f.yaml": YAML_DOC}, "f.yaml"),

    # 6. JSON file: --aliasof naming an ancestor of the changed node.  JSON
    #    cannot hold the resulting reference cycle; save_to_json_file() opens
    #    (truncates) the file first and only then calls jsonify_yaml_data(),
    #    which dies with RecursionError.  The file is left EMPTY.
    # Clause: "non-zero status for ... impossible change => target unchanged".
    ("6  yaml-set --aliasof <ancestor> on a JSON file",
     "non-zero status => target file byte-for-byte unchanged",
     "yaml_set", ["-g", "/h/x", "-A", "/h", "f.json"],
     {"f.json": JSON_DOC}, "f.json"),

    # 7. JSON file: --mergekey naming an ancestor of the target Hash; same
    #    outcome as case 6, here with --backup.
    # Clause: as case 3.
    ("7  yaml-set --mergekey <ancestor> --backup on a JSON file",
     "non-zero status => target unchanged AND no backup file appeared",
     "yaml_set", ["-g", "/h/sub", "-K", "/h", "-b", "f.json"],
     {"f.json": JSON_DOC}, "f.json"),
]


def main():
    """Run every case."""
    import yamlpath
    print("yamlpath imported from {}".format(yamlpath.__file__))
    violations = 0
    for (label, clause, tool, argv, files, target) in CASES:
        if run_case(label, clause, tool, argv, files, target):
            violations += 1
    print("=" * 78)
    print("{} of {} cases violate the property".format(
        violations, len(CASES)))
    sys.exit(1 if violations else 0)


if __name__ == "__main__":
    main()
