#!/usr/bin/env python
"""
Review demo for the property
  "Parsing any text as a YAML Path ends in segments or a YAML Path error".

Run as:  cd /tmp/wt5-C14 && PYTHONPATH=/tmp/wt5-C14 /venv/bin/python demo.py
Exits 1 when at least one COUNTED case violates the property, else 0.

Only public entry points are used:  yamlpath.YAMLPath (escaped / unescaped /
str / separator), SearchKeywordTerms.parameters, Processor.get_nodes.
"""
import sys
from types import SimpleNamespace

from yamlpath import YAMLPath, Processor
from yamlpath.common import Parsers
from yamlpath.enums import PathSeparators, PathSegmentTypes
from yamlpath.exceptions import YAMLPathException
from yamlpath.path import SearchKeywordTerms, CollectorTerms, SearchTerms
from yamlpath.wrappers import ConsolePrinter

SEPS = (("auto", None), ("dot", PathSeparators.DOT),
        ("fslash", PathSeparators.FSLASH))


def full_parse(text, sep):
    """
    Parse text completely: both segment lists, the stringification and the
    parameter list of every Search Keyword segment.  Returns a list of
    (stage, exception) for every exception that is NOT a YAMLPathException.
    """
    wrong = []
    try:
        path = YAMLPath(text)
        if sep is not None:
            path.separator = sep
    except YAMLPathException:
        return wrong
    except Exception as ex:         # pylint: disable=broad-except
        return [("construct", ex)]

    for stage in ("escaped", "unescaped", "str"):
        try:
            if stage == "str":
                str(path)
                continue
            for (_, attrs) in getattr(path, stage):
                if isinstance(attrs, SearchKeywordTerms):
                    try:
                        attrs.parameters
                    except YAMLPathException:
                        pass
                    except Exception as ex:  # pylint: disable=broad-except
                        wrong.append((stage + " -> keyword parameters", ex))
        except YAMLPathException:
            pass
        except Exception as ex:     # pylint: disable=broad-except
            wrong.append((stage, ex))
    return wrong


def ill_typed(segments):
    """Name the segments whose attributes do not fit their segment type."""
    found = []
    for (stype, attrs) in segments:
        if ((stype is PathSegmentTypes.COLLECTOR
             and not isinstance(attrs, CollectorTerms))
                or (stype is PathSegmentTypes.KEYWORD_SEARCH
                    and not isinstance(attrs, SearchKeywordTerms))
                or (stype is PathSegmentTypes.SEARCH
                    and not isinstance(attrs, SearchTerms))
                or (stype in (PathSegmentTypes.KEY, PathSegmentTypes.ANCHOR)
                    and not isinstance(attrs, str))):
            found.append("({}, {!r})".format(stype.name, attrs))
    return found


def case_exception(label, text, clause):
    """COUNTED case: a non-YAMLPathException escapes from parsing."""
    print("=" * 72)
    print("CASE {}  [counted]".format(label))
    print("  input (YAML Path text): {!r}".format(text))
    print("  clause violated       : {}".format(clause))
    print("  property demands      : a segment list, or YAMLPathException;"
          " no other exception type")
    violated = False
    for (sepname, sep) in SEPS:
        wrong = full_parse(text, sep)
        if wrong:
            violated = True
            for (stage, ex) in wrong:
                print("  observed [{:6}] {}: raises {}: {}".format(
                    sepname, stage, type(ex).__name__, ex))
        else:
            print("  observed [{:6}] conforms".format(sepname))
    print("  VERDICT: {}".format("VIOLATION" if violated else "conforms"))
    return violated


def case_illtyped(label, text, processor):
    """UNCOUNTED (borderline) case: an ill-typed segment list is produced."""
    print("=" * 72)
    print("CASE {}  [borderline - not counted in the exit status]".format(
        label))
    print("  input (YAML Path text): {!r}".format(text))
    print("  clause at stake       : \"either produces a segment list or"
          " raises the library's YAML Path exception describing the"
          " problem\" (misplaced closing marks are neither rejected nor"
          " turned into usable segments)")
    odd = False
    try:
        segments = YAMLPath(text).escaped
        bad = ill_typed(segments)
        print("  observed parse        : {} segment(s), ill-typed: {}".format(
            len(segments), ", ".join(bad) if bad else "none"))
        odd = bool(bad)
    except YAMLPathException as ex:
        print("  observed parse        : YAMLPathException: {}".format(ex))
        return False
    try:
        found = [n.node for n in processor.get_nodes(
            YAMLPath(text), mustexist=False)]
        print("  observed get_nodes    : {} node(s)".format(len(found)))
    except YAMLPathException as ex:
        print("  observed get_nodes    : YAMLPathException: {}".format(ex))
    except Exception as ex:         # pylint: disable=broad-except
        print("  observed get_nodes    : raises {} {!r}".format(
            type(ex).__name__, str(ex)))
    print("  VERDICT: {}".format(
        "ODD (accepted, yields an unusable segment)" if odd else "conforms"))
    return odd


def main():
    violations = 0

    # A control: the parser normally notices a quotation mark left open
    # within Search Keyword parameters.
    print("CONTROL  '[max(\"a)]'  ->", end=" ")
    try:
        print(list(YAMLPath('[max("a)]').escaped))
    except YAMLPathException as ex:
        print("YAMLPathException:", ex)

    # Case A1.  Clause: "it never raises any other exception type ...
    # whatever mixture of brackets, quotes, ... and parentheses the text
    # contains".  The ")" of a Search Keyword closes whatever mark is open
    # (here the quotation mark), the first "]" then closes the "(", so the
    # path parser accepts the text; the parameter parser (searchkeywordterms
    # .py) then meets the unmatched quotation mark and raises ValueError.
    violations += case_exception(
        "A1: unmatched quotation mark within Search Keyword parameters",
        "[max(')]]",
        "never raises any other exception type (ValueError)")

    # Case A2.  Same clause; longer, more natural spelling, after a key and
    # in forward-slash notation.
    violations += case_exception(
        "A2: same, forward-slash notation, after a key",
        "/a[has_child(\"b)]]",
        "never raises any other exception type (ValueError)")

    # Borderline cases (not counted).  Clause: "either produces a segment
    # list or raises the library's YAML Path exception describing the
    # problem".  A segment list IS produced, yet it holds a COLLECTOR /
    # KEYWORD_SEARCH segment whose attributes are a bare str, which the
    # Processor (and yaml-get) answers with a bare NotImplementedError.
    log = ConsolePrinter(SimpleNamespace(quiet=True, verbose=False,
                                         debug=False))
    yaml = Parsers.get_yaml_editor()
    (data, _) = Parsers.get_yaml_data(
        yaml, log, "a: {b: 1}\nb: 2\n", literal=True)
    processor = Processor(log, data)
    for (label, text) in (
            ("B1: text directly after a Collector", "(a)b"),
            ("B2: surplus closing parenthesis", "(a))"),
            ("B3: Collector within brackets", "[(a)]"),
            ("B4: crossed ] and ) in a Search Keyword", "[max(])"),
    ):
        case_illtyped(label, text, processor)

    print("=" * 72)
    print("counted violations: {}".format(violations))
    return 1 if violations else 0


if __name__ == "__main__":
    sys.exit(main())
