#!/usr/bin/env python
"""
Demonstrations of inputs for which yaml-merge / yamlpath.merger.Merger violate:

  "A merge aimed at a path changes only what lies under that path":
  (a) each node the path matches becomes the policy-defined merge of its old
      content with the right-hand document,
  (b) a missing target path is created to hold the right-hand document,
  (c) everything outside the matched subtrees is unchanged,
  (d) a path that matches nothing and cannot be created yields a merge error
      and leaves no partial write-out.

Run:  cd /tmp/wt7-C11 && PYTHONPATH=/tmp/wt7-C11 /venv/bin/python demo.py
Exit status 1 when at least one case violates the property, else 0.

Only public entry points are used: yamlpath.merger.Merger / MergerConfig
(merge_with) and the yaml-merge command (python -m
yamlpath.commands.yaml_merge).
"""
import io
import os
import subprocess
import sys
import tempfile
from types import SimpleNamespace

from yamlpath.common import Parsers
from yamlpath.wrappers import ConsolePrinter
from yamlpath.merger import Merger, MergerConfig
from yamlpath.merger.exceptions import MergeException
from yamlpath.exceptions import YAMLPathException
from ruamel.yaml.comments import CommentedMap, CommentedSeq, CommentedSet
from ruamel.yaml.scalarbool import ScalarBoolean

VIOLATIONS = []
HERE = os.path.dirname(os.path.abspath(__file__))


# --------------------------------------------------------------------------
# helpers
# --------------------------------------------------------------------------
def load(text):
    return Parsers.get_yaml_editor().load(text)


def dump(data):
    buf = io.StringIO()
    Parsers.get_yaml_editor().dump(data, buf)
    return buf.getvalue()


def plain(node, _seen=None):
    """Reduce a ruamel.yaml DOM to builtin, type-exact Python data."""
    _seen = _seen or []
    if any(node is s for s in _seen):
        return "<<RECURSION>>"
    if isinstance(node, (CommentedMap, dict)):
        return {"map": [(plain(k, _seen + [node]), plain(v, _seen + [node]))
                        for k, v in node.items()]}
    if isinstance(node, (CommentedSeq, list)):
        return {"seq": [plain(e, _seen + [node]) for e in node]}
    if isinstance(node, (CommentedSet, set)):
        return {"set": sorted(str(plain(e)) for e in node)}
    if node is None:
        return None
    if isinstance(node, (bool, ScalarBoolean)):
        return ("bool", bool(node))
    if isinstance(node, int):
        return ("int", int(node))
    if isinstance(node, float):
        return ("float", float(node))
    if isinstance(node, str):
        return ("str", str(node))
    return (type(node).__name__, str(node))


def lib_merge(lhs, rhs_docs, mergeat, rules=None, keys=None, **opts):
    """Merge with the library.  Returns (result_dom, error_text_or_None)."""
    args = SimpleNamespace(
        mergeat=mergeat, quiet=True, verbose=False, debug=False, **opts)
    log = ConsolePrinter(args)
    extra = {}
    if rules is not None:
        extra["rules"] = rules
    if keys is not None:
        extra["keys"] = keys
    merger = Merger(log, load(lhs), MergerConfig(log, args, **extra))
    try:
        for rhs in rhs_docs:
            merger.merge_with(load(rhs))
    except (MergeException, YAMLPathException) as ex:
        return merger.data, "{}: {}".format(type(ex).__name__, ex)
    return merger.data, None


def cli_merge(lhs, rhs_docs, cli_args):
    """Merge with the yaml-merge command.  Returns (exit, stdout, stderr)."""
    with tempfile.TemporaryDirectory() as tmpd:
        files = []
        for idx, text in enumerate([lhs] + list(rhs_docs)):
            fname = os.path.join(tmpd, "doc{}.yaml".format(idx))
            with open(fname, "w", encoding="utf-8") as fhnd:
                fhnd.write(text)
            files.append(fname)
        env = dict(os.environ)
        env["PYTHONPATH"] = HERE + os.pathsep + env.get("PYTHONPATH", "")
        proc = subprocess.run(
            [sys.executable, "-m", "yamlpath.commands.yaml_merge", "--nostdin"]
            + list(cli_args) + files,
            stdout=subprocess.PIPE, stderr=subprocess.PIPE,
            stdin=subprocess.DEVNULL, universal_newlines=True, env=env,
            timeout=120, check=False)
        return proc.returncode, proc.stdout, proc.stderr


def report(label, clause, lhs, rhs_docs, how, demanded, observed, violated):
    print("=" * 76)
    print("CASE {}".format(label))
    print("  clause violated : {}".format(clause))
    print("  how             : {}".format(how))
    print("  LHS             :")
    for line in lhs.splitlines() or [""]:
        print("      " + line)
    for idx, rhs in enumerate(rhs_docs):
        print("  RHS #{}          :".format(idx + 1))
        for line in rhs.splitlines() or [""]:
            print("      " + line)
    print("  property demands: {}".format(demanded))
    print("  code did        :")
    for line in str(observed).splitlines() or [""]:
        print("      " + line)
    print("  VERDICT         : {}".format(
        "VIOLATION" if violated else "ok (no violation)"))
    if violated:
        VIOLATIONS.append(label)


def same(dom, expected_yaml):
    return plain(dom) == plain(load(expected_yaml))


# --------------------------------------------------------------------------
# CASE 1 -- two right-hand documents, one after the other, at a multi-match
#           path:  the first one's sub-trees are SHARED by every target, so
#           the second one is merged into the shared sub-tree once per target.
# Clause (a): each matched node must become merge(old content, RHS).
# --------------------------------------------------------------------------
def case_1():
    lhs = "hs:\n  h1: {}\n  h2: {}\nout: 1\n"
    rhs = ["z: [1]\n", "z: [2]\n"]
    expected = "hs:\n  h1: {z: [1, 2]}\n  h2: {z: [1, 2]}\nout: 1\n"
    code, out, err = cli_merge(lhs, rhs, ["--mergeat=/hs/*"])
    bad = code != 0 or not same(load(out), expected)
    report(
        "1 (sequence of two RHS documents, wildcard target, default policies)",
        "(a) each matched node = merge(old content, RHS)",
        lhs, rhs, "yaml-merge --mergeat='/hs/*' LHS RHS1 RHS2",
        "hs.h1.z == hs.h2.z == [1, 2] (Array policy 'all': old [1] + new [2])",
        "exit={}\n{}{}".format(code, out, err), bad)

    # same thing with one multi-document right-hand file
    rhs_multi = ["---\nz: [1]\n---\nz: [2]\n"]
    code, out, err = cli_merge(lhs, rhs_multi, ["--mergeat=/hs/*"])
    bad = code != 0 or not same(load(out), expected)
    report(
        "1b (same, the two RHS documents come from one multi-document file)",
        "(a) each matched node = merge(old content, RHS)",
        lhs, rhs_multi, "yaml-merge --mergeat='/hs/*' LHS RHS",
        "hs.h1.z == hs.h2.z == [1, 2]",
        "exit={}\n{}{}".format(code, out, err), bad)


# --------------------------------------------------------------------------
# CASE 2 -- a right-hand document which is a quoted String is re-typed (or
#           refused, or exploded) when it lands on a Scalar target or on a
#           missing path.
# Clauses (a) and (b): the node must become / be created to hold the RHS
# document, which is the *String* "5", "[1, 2]", "{}", "0x1f", "true".
# --------------------------------------------------------------------------
def case_2():
    lhs = "a: 1\ns: text\n"
    probes = [
        ("2a", "'5'\n", "/s", "a: 1\ns: '5'\n"),
        ("2b", "'5'\n", "/new", "a: 1\ns: text\nnew: '5'\n"),
        ("2c", "\"true\"\n", "/s", "a: 1\ns: 'true'\n"),
        ("2d", "'[1, 2]'\n", "/new", "a: 1\ns: text\nnew: '[1, 2]'\n"),
        ("2e", "'{}'\n", "/new", "a: 1\ns: text\nnew: '{}'\n"),
        ("2f", "'0x1f'\n", "/s", "a: 1\ns: '0x1f'\n"),
    ]
    for label, rhs, mergeat, expected in probes:
        code, out, err = cli_merge(lhs, [rhs], ["--mergeat=" + mergeat])
        bad = code != 0 or not same(load(out), expected)
        report(
            "{} (String RHS document {} at {})".format(
                label, rhs.strip(), mergeat),
            "(b) missing path created to hold the RHS document"
            if mergeat == "/new" else
            "(a) matched Scalar node becomes the RHS document",
            lhs, [rhs], "yaml-merge --mergeat={} LHS RHS".format(mergeat),
            "the node at {} is the String {} (type and text intact)".format(
                mergeat, rhs.strip()),
            "exit={}\n{}{}".format(code, out, err), bad)


# --------------------------------------------------------------------------
# CASE 3 -- a replacing policy (hashes/arrays/sets = right, arrays = unique)
#           at a path which reaches the same container object twice: only the
#           first match is replaced, the second is skipped as "already done".
# Clause (a): EACH matched node must become the policy-defined merge.
# --------------------------------------------------------------------------
def case_3():
    # 3a: one operation, the left document uses an Alias
    lhs = "t:\n  x: &x {k: 1}\n  y: *x\nz: 3\n"
    rhs = ["n: 2\n"]
    data, err = lib_merge(lhs, rhs, "/t/*", hashes="right")
    expected = "t:\n  x: {n: 2}\n  y: {n: 2}\nz: 3\n"
    report(
        "3a (hashes=right, wildcard target, /t/y is an Alias of /t/x)",
        "(a) EACH matched node = policy-defined merge (right: the RHS)",
        lhs, rhs, "Merger.merge_with, mergeat=/t/*, hashes=right",
        "t.x == t.y == {n: 2}",
        "error={}\n{}".format(err, dump(data)),
        err is not None or not same(data, expected))

    # 3b: no Alias anywhere: two operations in a row
    lhs = "hs:\n  h1: {a: 1}\n  h2: {a: 2}\nout: 1\n"
    rhs = ["z: 1\n", "z: 2\n"]
    code, out, err = cli_merge(
        lhs, rhs, ["--mergeat=/hs/*", "--hashes=right"])
    expected = "hs:\n  h1: {z: 2}\n  h2: {z: 2}\nout: 1\n"
    report(
        "3b (hashes=right, wildcard target, two RHS documents in a row)",
        "(a) EACH matched node = policy-defined merge (right: the last RHS)",
        lhs, rhs, "yaml-merge --hashes=right --mergeat='/hs/*' LHS RHS1 RHS2",
        "hs.h1 == hs.h2 == {z: 2}",
        "exit={}\n{}{}".format(code, out, err),
        code != 0 or not same(load(out), expected))

    # 3c: arrays=right with an aliased Array
    lhs = "t:\n  x: &x [1, 2]\n  y: *x\nz: 3\n"
    rhs = ["[2, 3]\n"]
    data, err = lib_merge(lhs, rhs, "/t/*", arrays="right")
    expected = "t:\n  x: [2, 3]\n  y: [2, 3]\nz: 3\n"
    report(
        "3c (arrays=right, wildcard target, aliased Array)",
        "(a) EACH matched node = policy-defined merge",
        lhs, rhs, "Merger.merge_with, mergeat=/t/*, arrays=right",
        "t.x == t.y == [2, 3]",
        "error={}\n{}".format(err, dump(data)),
        err is not None or not same(data, expected))

    # 3d: arrays=unique with an aliased Array
    data, err = lib_merge(lhs, rhs, "/t/*", arrays="unique")
    expected = "t:\n  x: [1, 2, 3]\n  y: [1, 2, 3]\nz: 3\n"
    report(
        "3d (arrays=unique, wildcard target, aliased Array)",
        "(a) EACH matched node = policy-defined merge",
        lhs, rhs, "Merger.merge_with, mergeat=/t/*, arrays=unique",
        "t.x == t.y == [1, 2, 3]",
        "error={}\n{}".format(err, dump(data)),
        err is not None or not same(data, expected))


# --------------------------------------------------------------------------
# CASE 4 -- a Scalar RHS aimed at a key which the target Hash owns through a
#           YAML Merge Key (<<: *anchor):  "success", and nothing changed.
# Clause (a): the matched node must become the RHS Scalar (or: clause (d), an
# error), but the merge is reported as performed and nothing is written.
# --------------------------------------------------------------------------
def case_4():
    lhs = "defs: &d\n  p: old\na:\n  <<: *d\n  own: 3\n"
    rhs = ["new\n"]
    data, err = lib_merge(lhs, rhs, "/a/p")
    got = data["a"]["p"] if err is None else None
    report(
        "4 (Scalar RHS at /a/p, where p comes to /a through '<<: *d')",
        "(a) the matched node becomes the RHS document",
        lhs, rhs, "Merger.merge_with, mergeat=/a/p",
        "afterwards /a/p reads 'new' (or the merge is refused with an error)",
        "error={}; /a/p reads {!r}\n{}".format(err, got, dump(data)),
        err is None and str(got) != "new")


# --------------------------------------------------------------------------
# CASE 5 -- Anchor "conflict" detection compares 1, 1.0 and true as equal; the
#           left-hand anchored node -- outside the merge target -- is replaced
#           by the right-hand one.
# Clause (c): everything outside the matched subtrees is unchanged.
# --------------------------------------------------------------------------
def case_5():
    lhs = "x: &a 1\ny: *a\nt: {}\n"
    rhs = ["k: &a true\n"]
    data, err = lib_merge(lhs, rhs, "/t")
    outside_ok = (err is not None) or (
        plain(data["x"]) == ("int", 1) and plain(data["y"]) == ("int", 1))
    report(
        "5 (same Anchor name on 1 (LHS, outside /t) and true (RHS))",
        "(c) everything outside the matched subtree is unchanged",
        lhs, rhs, "Merger.merge_with, mergeat=/t, anchors=stop (default)",
        "/x and /y stay the Integer 1 (or: an Anchor conflict error)",
        "error={}\n{}".format(err, dump(data)), not outside_ok)


# --------------------------------------------------------------------------
# CASE 6 -- empty left document, wildcard target:  the path matches nothing
#           and cannot be created, yet the merge "succeeds" with a document
#           which contains itself.
# Clause (d): merge error expected.
# --------------------------------------------------------------------------
def case_6():
    lhs = ""
    rhs = ["k: {x: 1}\n"]
    data, err = lib_merge(lhs, rhs, "/*")
    recursive = "<<RECURSION>>" in repr(plain(data))
    report(
        "6 (empty LHS document, mergeat=/*, Hash RHS holding a Hash)",
        "(d) a path matching nothing which cannot be created is an error",
        lhs, rhs, "Merger.merge_with, mergeat=/*",
        "a MergeException (there is nothing for /* to match)",
        "error={}; result is self-referential={}\n{}".format(
            err, recursive, dump(data)),
        err is None)
    # (an empty FILE is no document at all to the command, which then takes
    # the next file as LHS; "~" is an empty -- null -- document)
    code, out, errtxt = cli_merge("~\n", rhs, ["--mergeat=/*"])
    crashed = "Traceback" in errtxt
    report(
        "6b (same through the command; the LHS file holds the null document ~)",
        "(d) a MERGE ERROR (not a crash) and no write-out",
        "~\n", rhs, "yaml-merge --mergeat='/*' LHS RHS",
        "an ERROR: message about the unmatched path, exit status 1x",
        "exit={}; stdout={!r}; stderr ends with: {}".format(
            code, out, errtxt.strip().splitlines()[-1:] ),
        code == 0 or crashed)


# --------------------------------------------------------------------------
# CASE 7 -- Array slice as the (multi-match) target:  Hash elements are
#           refused as "Scalar destination"; with a Scalar RHS, Hash elements
#           are REPLACED where a wildcard over the same elements refuses.
# Clause (a).
# --------------------------------------------------------------------------
def case_7():
    lhs = "l:\n  - {a: 1}\n  - {a: 2}\n  - {a: 3}\no: 1\n"
    rhs = ["z: 1\n"]
    data, err = lib_merge(lhs, rhs, "/l[0:2]")
    expected = "l:\n  - {a: 1, z: 1}\n  - {a: 2, z: 1}\n  - {a: 3}\no: 1\n"
    report(
        "7a (Hash RHS at the Array slice /l[0:2] of Hashes)",
        "(a) each matched node = merge(old content, RHS)",
        lhs, rhs, "Merger.merge_with, mergeat=/l[0:2]",
        "l[0] and l[1] gain z: 1 (just as /l/* or the Hash slice /h[a:b] do)",
        "error={}\n{}".format(err, dump(data)),
        err is not None or not same(data, expected))

    lhs = "l:\n  - {a: 1}\n  - 2\n  - {a: 3}\no: 1\n"
    rhs = ["9\n"]
    data, err = lib_merge(lhs, rhs, "/l[0:2]")
    wild_data, wild_err = lib_merge(lhs, rhs, "/l/*")
    report(
        "7b (Scalar RHS at the Array slice /l[0:2] holding a Hash)",
        "(a) policy-defined merge: a Scalar cannot be merged into a Hash",
        lhs, rhs, "Merger.merge_with, mergeat=/l[0:2]  (vs mergeat=/l/*)",
        "the same refusal as for /l/* ({}), l[0] stays a Hash".format(
            (wild_err or "")[:60] + "..."),
        "error={}\n{}".format(err, dump(data)),
        err is None and plain(data["l"][0]) != plain(load("{a: 1}")))


# --------------------------------------------------------------------------
# CASE 8 -- lower confidence, policy x target-path combinations
# --------------------------------------------------------------------------
def case_8():
    # 8a: sets=right, Scalar RHS into a Set target: nothing happens, "success"
    lhs = "s: !!set {a}\no: 1\n"
    rhs = ["b\n"]
    data, err = lib_merge(lhs, rhs, "/s", sets="right")
    l_data, _ = lib_merge(lhs, ["[b]\n"], "/s", sets="right")
    report(
        "8a (sets=right, Scalar RHS 'b' into the Set at /s)",
        "(a) matched node = policy-defined merge (right: RHS wins)",
        lhs, rhs, "Merger.merge_with, mergeat=/s, sets=right",
        "the Set becomes {{b}} (as it does for RHS [b]: {}) ".format(
            sorted(str(e) for e in l_data["s"])),
        "error={}\n{}".format(err, dump(data)),
        err is None and sorted(str(e) for e in data["s"]) != ["b"])

    # 8b: a [rules] entry for a node below a wildcard merge point is ignored
    lhs = "hs:\n  h1: {c: [1]}\n  h2: {c: [1]}\n"
    rhs = ["c: [2]\n"]
    data, err = lib_merge(lhs, rhs, "/hs/*", rules={"/hs/h1/c": "left"})
    expected = "hs:\n  h1: {c: [1]}\n  h2: {c: [1, 2]}\n"
    report(
        "8b ([rules] /hs/h1/c = left, with mergeat=/hs/*)",
        "(a) matched node = POLICY-DEFINED merge",
        lhs, rhs, "Merger.merge_with, mergeat=/hs/*, rules={/hs/h1/c: left}",
        "hs.h1.c stays [1] (rule: left), hs.h2.c becomes [1, 2]",
        "error={}\n{}".format(err, dump(data)),
        err is not None or not same(data, expected))

    # 8c: hashes=left does not protect a Hash target from a Set RHS
    lhs = "h: {a: 1}\no: 1\n"
    rhs = ["!!set {a, b}\n"]
    data, err = lib_merge(lhs, rhs, "/h", hashes="left")
    report(
        "8c (hashes=left, Set RHS into the Hash at /h)",
        "(a) matched node = policy-defined merge (left: LHS values win)",
        lhs, rhs, "Merger.merge_with, mergeat=/h, hashes=left",
        "h.a is still 1",
        "error={}\n{}".format(err, dump(data)),
        err is None and plain(data["h"].get("a")) != ("int", 1))


def main():
    for case in (case_1, case_2, case_3, case_4, case_5, case_6, case_7,
                 case_8):
        case()
    print("=" * 76)
    print("{} violating case(s): {}".format(
        len(VIOLATIONS), ", ".join(v.split(" ")[0] for v in VIOLATIONS)))
    sys.exit(1 if VIOLATIONS else 0)


if __name__ == "__main__":
    main()
