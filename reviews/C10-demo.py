#!/usr/bin/env python
"""
Demonstrations against the property

  "Anchor conflicts in a merge follow the chosen policy and the result reloads"

Run as:  cd /tmp/wt5-C10 && PYTHONPATH=/tmp/wt5-C10 /venv/bin/python demo.py

Only public entry points are used: yamlpath.common.Parsers.get_yaml_editor(),
yamlpath.merger.MergerConfig, yamlpath.merger.Merger (merge_with,
prepare_for_dump, .data) and the ruamel.yaml editor's load()/dump().
Exit status is 1 when at least one case violates the property, else 0.
"""
import io
import sys
import warnings
from types import SimpleNamespace

from ruamel.yaml.comments import CommentedSet, TaggedScalar

from yamlpath.common import Parsers
from yamlpath.wrappers import ConsolePrinter
from yamlpath.merger import Merger, MergerConfig
from yamlpath.merger.exceptions import MergeException

LOG = ConsolePrinter(SimpleNamespace(quiet=True, verbose=False, debug=False))


def load(text):
    """Load one YAML document the way the yaml-merge command does."""
    return Parsers.get_yaml_editor().load(text)


def plain(node):
    """Type-faithful, alias-free, order-free picture of a ruamel DOM."""
    if isinstance(node, (CommentedSet, set, frozenset)):
        return ("set", tuple(sorted(repr(plain(x)) for x in node)))
    if isinstance(node, dict):
        return ("map", tuple(sorted(
            (repr(plain(k)), repr(plain(v))) for k, v in node.items())))
    if isinstance(node, list):
        return ("seq", tuple(plain(x) for x in node))
    if isinstance(node, TaggedScalar):
        return ("tagged", node.tag.value, node.value)
    if node is None:
        return ("null",)
    if isinstance(node, bool) or type(node).__name__ == "ScalarBoolean":
        return ("bool", bool(node))
    if isinstance(node, int):
        return ("int", int(node))
    if isinstance(node, float):
        return ("float", repr(float(node)))
    if isinstance(node, str):
        return ("str", str(node))
    return (type(node).__name__, str(node))


def merge(lhs_text, rhs_text, **opts):
    """
    Merge rhs_text into lhs_text with the given options.

    Returns (status, text, merger) where status is "REFUSED" (text is the
    message) or "OK" (text is the serialized YAML).
    """
    config = MergerConfig(LOG, SimpleNamespace(**opts))
    merger = Merger(LOG, load(lhs_text), config)
    try:
        merger.merge_with(load(rhs_text))
    except MergeException as ex:
        return ("REFUSED", str(ex), None)
    writer = Parsers.get_yaml_editor()
    merger.prepare_for_dump(writer)
    buf = io.StringIO()
    writer.dump(merger.data, buf)
    return ("OK", buf.getvalue(), merger)


def strict_reload(text):
    """
    Reload text, treating ruamel.yaml's duplicate-anchor warning as an error.

    Returns (data, None) or (None, one-line-message).
    """
    try:
        with warnings.catch_warnings():
            warnings.simplefilter("error")
            return (load(text), None)
    except Exception as ex:  # pylint: disable=broad-except
        return (None, " ".join(str(ex).split())[:160])


def lenient_reload(text):
    """Reload text with duplicate-anchor warnings silenced."""
    with warnings.catch_warnings():
        warnings.simplefilter("ignore")
        return load(text)


def show(title, lhs, rhs, opts, demand):
    print("=" * 72)
    print(title)
    print("options:", opts)
    print("LEFT document:")
    print("    " + lhs.rstrip("\n").replace("\n", "\n    "))
    print("RIGHT document:")
    print("    " + rhs.rstrip("\n").replace("\n", "\n    "))
    print("property demands:", demand)


def observed(status, text):
    print("code did: %s" % status)
    print("    " + text.rstrip("\n").replace("\n", "\n    "))


RESULTS = []


def verdict(name, reasons):
    if reasons:
        print("VIOLATION:")
        for reason in reasons:
            print("  - " + reason)
    else:
        print("no violation")
    RESULTS.append((name, bool(reasons)))


# ---------------------------------------------------------------------------
# CASE 1 -- the right document IS a scalar that carries the anchor
# Clauses violated: "'left' makes every alias of that name in the result read
# the left value" and "the result serializes to YAML with no duplicate ...
# anchor".  Anchors.replace_anchor(rhs, ...) only descends into maps and
# sequences, so a right document which is itself the anchored scalar is never
# substituted; it is then appended with its conflicting &x still attached.
# ---------------------------------------------------------------------------
def case_1a():
    lhs, rhs, opts = "- &x 1\n- *x\n", "&x 2\n", dict(anchors="left")
    show("CASE 1a: anchored scalar right document appended to a list, "
         "policy 'left'", lhs, rhs, opts,
         "accepted; anchor x is defined once, every node named x reads 1 "
         "(i.e. data [1, 1, 1]); output reloads")
    status, text, _ = merge(lhs, rhs, **opts)
    observed(status, text)
    reasons = []
    if status == "OK":
        _, err = strict_reload(text)
        if err:
            reasons.append("output does not reload cleanly: " + err)
        if text.count("&x") > 1:
            reasons.append("anchor x is defined %d times" % text.count("&x"))
        if plain(lenient_reload(text)) != plain([1, 1, 1]):
            reasons.append("a node named x does not read the left value 1")
    else:
        reasons.append("merge was refused under 'left'")
    verdict("1a", reasons)


def case_1b():
    lhs, rhs = "a: &x 1\nb: *x\n", "&x 2\n"
    opts = dict(anchors="left", mergeat="/c")
    show("CASE 1b: anchored scalar right document placed at a new key, "
         "policy 'left'", lhs, rhs, opts,
         "accepted; c reads the left value 1, x defined once; output reloads")
    status, text, _ = merge(lhs, rhs, **opts)
    observed(status, text)
    reasons = []
    if status == "OK":
        _, err = strict_reload(text)
        if err:
            reasons.append("output does not reload cleanly: " + err)
        if plain(lenient_reload(text)) != plain({"a": 1, "b": 1, "c": 1}):
            reasons.append("the node named x at /c does not read the left "
                           "value 1")
    else:
        reasons.append("merge was refused under 'left'")
    verdict("1b", reasons)


# Clause violated: "'rename' keeps both values by renaming the right-hand
# anchor" (and "'left' ... read the left value").  Lower confidence: the
# right scalar is written THROUGH the aliased left node, so the left value of
# x disappears although the right anchor was supposedly renamed to x_1.
def case_1c():
    lhs, rhs = "a: &x 1\nb: *x\n", "&x 2\n"
    reasons = []
    for policy, want in (("rename", {"a": 1, "b": 2}),
                         ("left", {"a": 1, "b": 1})):
        opts = dict(anchors=policy, mergeat="/b")
        show("CASE 1c: anchored scalar right document merged onto an alias "
             "of the same name, policy '%s'" % policy, lhs, rhs, opts,
             "data %r (left value of x kept%s)" % (
                 want, "; right value kept under a new name"
                 if policy == "rename" else ""))
        status, text, _ = merge(lhs, rhs, **opts)
        observed(status, text)
        if status != "OK":
            reasons.append("[%s] refused" % policy)
        elif plain(lenient_reload(text)) != plain(want):
            reasons.append(
                "[%s] the left value 1 of anchor x is gone from the result"
                % policy)
    verdict("1c", reasons)


# ---------------------------------------------------------------------------
# CASE 2 -- values of different YAML types that Python's == calls equal
# Clauses violated: "'stop' refuses the merge" when the values differ, and
# "'left' makes every alias of that name in the result read the left value".
# The conflict test is `lhs_anchor == rhs_anchor`, so true/1/1.0 (bool, int,
# float) are "equal"; the no-conflict branch then overwrites every LEFT node
# with the RIGHT node, silently turning the left document's `true` into `1`.
# ---------------------------------------------------------------------------
def case_2():
    reasons = []
    for lval, rval, lplain in (("true", "1", True), ("1.0", "1", 1.0)):
        lhs = "a: &x %s\nb: *x\n" % lval
        rhs = "c: &x %s\nd: *x\n" % rval
        for policy in ("stop", "left"):
            opts = dict(anchors=policy)
            demand = ("refusal (x is %s on the left, %s on the right)"
                      % (lval, rval)) if policy == "stop" else (
                "a, b, c, d all read the left value %s" % lval)
            show("CASE 2: %s vs %s under '%s'" % (lval, rval, policy),
                 lhs, rhs, opts, demand)
            status, text, _ = merge(lhs, rhs, **opts)
            observed(status, text)
            if policy == "stop":
                if status != "REFUSED":
                    reasons.append(
                        "[%s vs %s, stop] accepted instead of refused; left "
                        "document's a/b changed to %s"
                        % (lval, rval, rval))
            elif status != "OK":
                reasons.append("[%s vs %s, left] refused" % (lval, rval))
            else:
                want = {k: lplain for k in "abcd"}
                if plain(lenient_reload(text)) != plain(want):
                    reasons.append(
                        "[%s vs %s, left] aliases of x read the RIGHT value "
                        "%s, not the left value %s"
                        % (lval, rval, rval, lval))
    verdict("2", reasons)


# ---------------------------------------------------------------------------
# CASE 3 -- the substituted anchor lives inside a Hash that others pull in
# through a YAML merge key
# Clause violated: "reloading it yields the same data the merge computed".
# replace_anchor swaps the scalar under `base`, but ruamel.yaml cached the
# merge-key view of `d` at load time; merger.data still says d.p == 1 while
# the text it serializes to says d.p == 2.
# ---------------------------------------------------------------------------
def case_3():
    reasons = []
    for policy, lhs, rhs in (
        ("right", "base: &b\n  p: &x 1\nd:\n  <<: *b\n", "c: &x 2\n"),
        ("left", "c: &x 2\n", "base: &b\n  p: &x 1\nd:\n  <<: *b\n"),
    ):
        opts = dict(anchors=policy)
        show("CASE 3: scalar anchor inside a merge-keyed Hash, policy '%s'"
             % policy, lhs, rhs, opts,
             "the reloaded output equals the data held by the merger "
             "(merger.data)")
        status, text, merger = merge(lhs, rhs, **opts)
        observed(status, text)
        if status != "OK":
            reasons.append("[%s] refused" % policy)
            continue
        computed = merger.data["d"]["p"]
        reloaded = lenient_reload(text)["d"]["p"]
        print("merger.data['d']['p'] = %r ; reloaded ['d']['p'] = %r"
              % (computed, reloaded))
        if plain(merger.data) != plain(lenient_reload(text)):
            reasons.append(
                "[%s] merge computed d.p == %r but the serialized result "
                "reloads with d.p == %r" % (policy, computed, reloaded))
    verdict("3", reasons)


# ---------------------------------------------------------------------------
# CASE 4 -- scalar anchors that are members of a YAML set (!!set)
# Clauses violated: "'stop' refuses the merge", "'rename' ... renaming the
# right-hand anchor", "no duplicate ... anchor" / result reloads.
# scan_for_anchors, rename_anchor and replace_anchor never look inside a
# CommentedSet, so anchors defined there are invisible (4a) or are left
# behind when the same name is substituted elsewhere (4b).
# ---------------------------------------------------------------------------
def case_4a():
    lhs = "s: !!set\n  ? &x foo\n  ? other\n"
    rhs = "s: !!set\n  ? &x bar\n  ? more\n"
    reasons = []
    for policy in ("stop", "left", "right", "rename"):
        opts = dict(anchors=policy)
        show("CASE 4a: same-name anchors on set members, policy '%s'"
             % policy, lhs, rhs, opts,
             "refusal" if policy == "stop" else
             "accepted, with anchor x defined once (or renamed) so that the "
             "output reloads")
        status, text, _ = merge(lhs, rhs, **opts)
        observed(status, text)
        if policy == "stop":
            if status != "REFUSED":
                reasons.append("[stop] x is foo vs bar yet the merge was "
                               "accepted")
            continue
        if status != "OK":
            reasons.append("[%s] refused" % policy)
            continue
        _, err = strict_reload(text)
        if err:
            reasons.append("[%s] output does not reload cleanly: %s"
                           % (policy, err))
    verdict("4a", reasons)


def case_4b():
    lhs = "s: !!set\n  ? &x foo\nl:\n  - *x\n"
    rhs = "k: &x bar\nl2:\n  - *x\n"
    opts = dict(anchors="right")
    show("CASE 4b: left anchor defined on a set member and aliased in a "
         "list, policy 'right'", lhs, rhs, opts,
         "accepted; every node named x reads bar, x is defined once; "
         "output reloads")
    status, text, _ = merge(lhs, rhs, **opts)
    observed(status, text)
    reasons = []
    if status != "OK":
        reasons.append("refused")
    else:
        _, err = strict_reload(text)
        if err:
            reasons.append("output does not reload cleanly: " + err)
        if "? &x foo" in text:
            reasons.append("the set member still defines x as the left "
                           "value foo")
    verdict("4b", reasons)


# ---------------------------------------------------------------------------
# CASE 5 -- scalar values whose anchor the loader silently discards
# Clauses violated: "'stop' refuses the merge" and "'left' makes every alias
# of that name in the result read the left value".  Parsers.get_yaml_editor()
# (ruamel.yaml round-trip loader) returns plain int/float/None objects for
# 0, null, .inf, .nan -- with no anchor attribute -- so the Merger never sees
# that the left document defined &x at all.  (Lower confidence: the root
# cause is in the loader, but nothing in the merge notices or reports it.)
# ---------------------------------------------------------------------------
def case_5():
    reasons = []
    for lval, lplain in (("0", 0), ("~", None)):
        lhs = "a: &x %s\nb: *x\n" % lval
        rhs = "c: &x 5\nd: *x\n"
        for policy in ("stop", "left"):
            opts = dict(anchors=policy)
            show("CASE 5: left defines &x %s, right defines &x 5, policy '%s'"
                 % (lval, policy), lhs, rhs, opts,
                 "refusal" if policy == "stop" else
                 "c and d read the left value %s" % lval)
            status, text, _ = merge(lhs, rhs, **opts)
            observed(status, text)
            if policy == "stop":
                if status != "REFUSED":
                    reasons.append("[&x %s, stop] accepted instead of "
                                   "refused" % lval)
            elif status != "OK":
                reasons.append("[&x %s, left] refused" % lval)
            else:
                want = {k: lplain for k in "abcd"}
                if plain(lenient_reload(text)) != plain(want):
                    reasons.append(
                        "[&x %s, left] the right document's aliases of x "
                        "still read 5" % lval)
    verdict("5", reasons)


# ---------------------------------------------------------------------------
# CONTROL -- the ordinary case behaves as the property says (sanity check of
# this program's own checks; never counts as a violation).
# ---------------------------------------------------------------------------
def control():
    lhs, rhs = "a: &x 1\nb: *x\n", "c: &x 2\nd: *x\n"
    wants = {
        "left": {"a": 1, "b": 1, "c": 1, "d": 1},
        "right": {"a": 2, "b": 2, "c": 2, "d": 2},
        "rename": {"a": 1, "b": 1, "c": 2, "d": 2},
    }
    good = merge(lhs, rhs, anchors="stop")[0] == "REFUSED"
    for policy, want in wants.items():
        status, text, merger = merge(lhs, rhs, anchors=policy)
        data, err = strict_reload(text) if status == "OK" else (None, "x")
        good = good and err is None and plain(data) == plain(want) \
            and plain(merger.data) == plain(want)
    print("=" * 72)
    print("CONTROL (maps with &x 1 / &x 2 under all four policies): %s"
          % ("behaves as the property says" if good else "UNEXPECTED"))


def main():
    control()
    for case in (case_1a, case_1b, case_1c, case_2, case_3, case_4a,
                 case_4b, case_5):
        case()
    print("=" * 72)
    print("SUMMARY")
    for name, violated in RESULTS:
        print("  case %-3s %s" % (name, "VIOLATES the property"
                                  if violated else "ok"))
    sys.exit(1 if any(v for _, v in RESULTS) else 0)


if __name__ == "__main__":
    main()
