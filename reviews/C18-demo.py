#!/usr/bin/env python
"""
Demonstration of violations of the property

  "Multi-document merges combine documents as the selected mode defines:
   ... matrix merges every right document into every left document; each
   pairwise step is the C05 merge."

Run as:  cd /tmp/wt5-C18 && PYTHONPATH=/tmp/wt5-C18 /venv/bin/python demo.py

How every case is judged
------------------------
* OBSERVED is what the `yaml-merge` command (yamlpath.commands.yaml_merge)
  prints for `--multi-doc-mode=matrix_merge LEFT RIGHT`.
* DEMANDED is built from the public library exactly as the property words it:
  every left document becomes a `yamlpath.merger.Merger` and every right
  document -- as it is read from the right stream -- is handed to
  `Merger.merge_with()` (the C05 pairwise merge), for every left document in
  turn.  Each left document gets its own freshly parsed right stream, so no
  node is shared between two results.
* Both are serialised as YAML and re-read with a plain (safe) YAML loader, so
  that only DATA is compared (anchors, aliases and `<<:` spelling are resolved
  away; a date and a timestamp are different data).
* For streams of one document each, the three modes must coincide by
  definition (one pairwise C05 merge); the output of merge_across is shown as
  a cross-check.

Exit status: 1 when at least one case violates the property, else 0.
"""
import io
import os
import subprocess
import sys
import tempfile
from types import SimpleNamespace

from ruamel.yaml import YAML

from yamlpath.common import Parsers
from yamlpath.merger import Merger, MergerConfig
from yamlpath.wrappers import ConsolePrinter

TMPDIR = tempfile.mkdtemp(prefix="c18-demo-")
_COUNTER = [0]


def write_file(text):
    _COUNTER[0] += 1
    path = os.path.join(TMPDIR, "stream{}.yaml".format(_COUNTER[0]))
    with open(path, "w", encoding="utf-8") as fhnd:
        fhnd.write(text)
    return path


def run_yaml_merge(mode, left, right, extra=()):
    """Run the yaml-merge command; return (exit code, stdout, stderr)."""
    cmd = [sys.executable, "-m", "yamlpath.commands.yaml_merge",
           "--nostdin", "--document-format=yaml",
           "--multi-doc-mode={}".format(mode)]
    cmd += list(extra) + [write_file(left), write_file(right)]
    proc = subprocess.run(
        cmd, stdin=subprocess.DEVNULL, capture_output=True, text=True,
        env=dict(os.environ, PYTHONPATH=os.pathsep.join(
            [os.getcwd()] + sys.path)))
    return proc.returncode, proc.stdout, proc.stderr


def safe_docs(text):
    """Plain-Python view of every document of a YAML stream."""
    return list(YAML(typ="safe", pure=True).load_all(text))


def demanded_matrix(left, right, **options):
    """Matrix merge as the property defines it, from C05 pairwise merges."""
    args = SimpleNamespace(document_format="yaml", **options)
    log = ConsolePrinter(SimpleNamespace(quiet=True, verbose=False,
                                         debug=False))
    results = []
    left_docs = list(Parsers.get_yaml_editor().load_all(left))
    for left_doc in left_docs:
        merger = Merger(log, left_doc, MergerConfig(log, args))
        # every left document receives every right document, exactly as read
        for right_doc in Parsers.get_yaml_editor().load_all(right):
            merger.merge_with(right_doc)
        writer = Parsers.get_yaml_editor()
        merger.prepare_for_dump(writer, "")
        buf = io.StringIO()
        writer.dump(merger.data, buf)
        results.append(buf.getvalue())
    return results


def indent(text, pad="      "):
    return "\n".join(pad + line for line in text.rstrip("\n").split("\n"))


def run_case(label, clause, left, right, extra=(), **options):
    print("=" * 78)
    print("CASE {}".format(label))
    print("  violated clause: {}".format(clause))
    print("  LEFT stream:\n{}".format(indent(left)))
    print("  RIGHT stream:\n{}".format(indent(right)))
    if extra:
        print("  options: {}".format(" ".join(extra)))

    want_texts = demanded_matrix(left, right, **options)
    want = [safe_docs(t)[0] for t in want_texts]
    code, out, err = run_yaml_merge("matrix_merge", left, right, extra)
    got = safe_docs(out) if code == 0 else None

    print("  DEMANDED (C05 merge of every right document into every left"
          " document):")
    for text in want_texts:
        print(indent(text))
        print("      ...")
    print("    as data: {!r}".format(want))
    print("  OBSERVED (yaml-merge -M matrix_merge), exit {}:".format(code))
    print(indent(out if code == 0 else err))
    print("    as data: {!r}".format(got))

    if len(safe_docs(left)) == 1 and len(safe_docs(right)) == 1:
        xcode, xout, _ = run_yaml_merge("merge_across", left, right, extra)
        print("  cross-check, same 1x1 streams with -M merge_across (must be"
              " the same single pairwise merge), exit {}:".format(xcode))
        print(indent(xout))

    violated = got != want
    print("  RESULT: {}".format(
        "VIOLATION -- the matrix result is not the C05 merge of the right"
        " document(s)" if violated else "conforms"))
    return violated


def main():
    violations = 0

    # ---------------------------------------------------------------------
    # Case 1.  Clause violated: "matrix merges every right document into
    # every left document; each pairwise step is the C05 merge".
    # merge_matrix() merges deepcopy(rhs_doc.data) rather than the right
    # document.  Deep-copying a ruamel.yaml CommentedMap turns every key that
    # is only *referenced* through a YAML merge key (<<: *anchor) into a
    # concrete key of the copy.  The C05 merge deliberately skips merge-key
    # references (rhs.non_merged_items()), so the left value of use.k (5)
    # must survive; in matrix mode the concretised k: 1 overwrites it.
    # ---------------------------------------------------------------------
    violations += run_case(
        "1: a right-hand YAML merge key overrides a left-hand value"
        " (1 x 1 documents)",
        "matrix ... each pairwise step is the C05 merge",
        "use: {k: 5}\n",
        "base: &b {k: 1}\nuse:\n  <<: *b\n")

    # ---------------------------------------------------------------------
    # Case 2.  Same clause, streams of 2 x 2 documents (one of them empty):
    # every left document is affected, whichever right document carries the
    # merge key.
    # ---------------------------------------------------------------------
    violations += run_case(
        "2: the same with 2 x 2 documents, one right document empty",
        "matrix merges every right document into every left document; each"
        " pairwise step is the C05 merge",
        "---\nuse: {k: 5}\n---\nuse: {k: 6, j: 7}\n",
        "---\n---\nbase: &b {k: 1}\nuse:\n  <<: *b\n")

    # ---------------------------------------------------------------------
    # Case 3.  Same clause, with the C05 policy --aoh=deep: the record
    # {id: 1, <<: *b} must not replace the left-hand j: 9 (C05 result keeps
    # 9); in matrix mode it becomes 2.
    # ---------------------------------------------------------------------
    violations += run_case(
        "3: --aoh=deep, a merge key inside an Array-of-Hashes record",
        "matrix ... each pairwise step is the C05 merge (policy aoh=deep)",
        "r: [{id: 1, j: 9}]\n",
        "b: &b {j: 2}\nr: [{id: 1, <<: *b}]\n",
        extra=("--aoh=deep",), aoh="deep")

    # ---------------------------------------------------------------------
    # Case 4.  Same clause.  The copy made by merge_matrix() goes through
    # yamlpath.patches.timestamp.AnchoredTimeStamp.__deepcopy__, which turns
    # an AnchoredDate into an AnchoredTimeStamp: the right-hand DATE arrives
    # in the left document as a TIMESTAMP (2020-01-02 00:00:00).
    # ---------------------------------------------------------------------
    violations += run_case(
        "4: a right-hand date becomes a timestamp",
        "matrix ... each pairwise step is the C05 merge",
        "a: 1\n",
        "d: 2020-01-02\n")

    # ---------------------------------------------------------------------
    # Case 5.  Same clause, same __deepcopy__: the fraction of a second of a
    # right-hand timestamp is dropped (…05.678 becomes …05).
    # ---------------------------------------------------------------------
    violations += run_case(
        "5: a right-hand timestamp loses its fraction of a second",
        "matrix ... each pairwise step is the C05 merge",
        "l: [1]\n",
        "l: [2020-01-02T03:04:05.678Z]\n")

    print("=" * 78)
    print("{} of 5 cases violate the property".format(violations))
    sys.exit(1 if violations else 0)


if __name__ == "__main__":
    main()
