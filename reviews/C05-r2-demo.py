#!/usr/bin/env python
"""
Demonstrations: inputs for which yamlpath's Merger / yaml-merge do not yield
the policy-defined merge result.

Run:  cd /tmp/wt7-C05 && PYTHONPATH=/tmp/wt7-C05 /venv/bin/python demo.py
Exit status is 1 when at least one case violates the property, else 0.

Only public entry points are used:  yamlpath.merger.Merger / MergerConfig,
yamlpath.common.Parsers and the yaml-merge command (its main()).
"""
import io
import os
import subprocess
import sys
import tempfile
import traceback
from types import SimpleNamespace

from ruamel.yaml.comments import CommentedSet, TaggedScalar

from yamlpath.common import Parsers
from yamlpath.wrappers import ConsolePrinter
from yamlpath.merger import Merger, MergerConfig
from yamlpath.merger.exceptions import MergeException

LOG = ConsolePrinter(SimpleNamespace(quiet=True, verbose=False, debug=False))
HERE = os.path.dirname(os.path.abspath(__file__))


# --------------------------------------------------------------------------
# helpers
# --------------------------------------------------------------------------
def load(text):
    """Parse one YAML document with the library's own editor."""
    editor = Parsers.get_yaml_editor()
    (data, loaded) = Parsers.get_yaml_data(editor, LOG, text, literal=True)
    if not loaded:
        raise RuntimeError("cannot parse: " + text)
    return data


def plain(data):
    """Reduce ruamel.yaml data to plain Python for comparisons."""
    if isinstance(data, (CommentedSet, set)):
        return {"!!set": [plain(ele) for ele in data]}
    if isinstance(data, dict):
        return {plain(key): plain(val) for key, val in data.items()}
    if isinstance(data, list):
        return [plain(ele) for ele in data]
    if isinstance(data, TaggedScalar):
        return "{} {}".format(data.tag.value, data.value)
    if isinstance(data, bool):
        return bool(data)
    if isinstance(data, int):
        return int(data)
    if isinstance(data, float):
        return float(data)
    if isinstance(data, str):
        return str(data)
    return data


def typed_eq(lhs, rhs):
    """Equality which does not confuse 1, 1.0 and True."""
    if type(lhs) is not type(rhs):
        return False
    if isinstance(lhs, dict):
        return (list(lhs.keys()) == list(rhs.keys())
                and all(typed_eq(lhs[k], rhs[k]) for k in lhs))
    if isinstance(lhs, list):
        return (len(lhs) == len(rhs)
                and all(typed_eq(a, b) for a, b in zip(lhs, rhs)))
    return lhs == rhs


def lib_merge(lhs_text, rhs_texts, rules=None, keys=None, **options):
    """
    Merge via the library.  Returns (kind, payload):
      ("OK", plain merged data) / ("MERGE-ERROR", msg) / ("CRASH", msg)
    """
    if isinstance(rhs_texts, str):
        rhs_texts = [rhs_texts]
    kwargs = {}
    if rules is not None:
        kwargs["rules"] = rules
    if keys is not None:
        kwargs["keys"] = keys
    try:
        merger = Merger(
            LOG, load(lhs_text),
            MergerConfig(LOG, SimpleNamespace(**options), **kwargs))
        for rhs_text in rhs_texts:
            merger.merge_with(load(rhs_text))
        return ("OK", plain(merger.data))
    except MergeException as mex:
        return ("MERGE-ERROR", str(mex).split("  This issue")[0])
    except Exception as ex:  # pylint: disable=broad-except
        return ("CRASH", "{}: {}".format(type(ex).__name__, ex))


def cli_merge(file_texts, *argv, config=None):
    """Run the yaml-merge command.  Returns (rc, stdout, last stderr line)."""
    tmpdir = tempfile.mkdtemp(prefix="c05demo_")
    paths = []
    for idx, text in enumerate(file_texts):
        path = os.path.join(tmpdir, "doc{}.yaml".format(idx))
        with open(path, "w", encoding="utf-8") as fhnd:
            fhnd.write(text)
        paths.append(path)
    args = list(argv)
    if config is not None:
        cfg = os.path.join(tmpdir, "merge.ini")
        with open(cfg, "w", encoding="utf-8") as fhnd:
            fhnd.write(config)
        args += ["--config", cfg]
    env = dict(os.environ)
    env["PYTHONPATH"] = HERE + os.pathsep + env.get("PYTHONPATH", "")
    proc = subprocess.run(
        [sys.executable, "-c",
         "from yamlpath.commands.yaml_merge import main; main()",
         "--nostdin"] + args + paths,
        capture_output=True, text=True, env=env, cwd=HERE, check=False)
    err_lines = [l for l in proc.stderr.strip().splitlines() if l.strip()]
    return (proc.returncode, proc.stdout,
            err_lines[-1] if err_lines else "",
            "Traceback (most recent call last)" in proc.stderr)


VIOLATIONS = []
CASE_COUNT = [0]


def report(label, inputs, demanded, observed, violated):
    """Print one case."""
    CASE_COUNT[0] += 1
    print("=" * 78)
    print("CASE {}".format(label))
    for line in inputs:
        print("  input    : {}".format(line))
    print("  demanded : {}".format(demanded))
    print("  observed : {}".format(observed))
    print("  verdict  : {}".format("VIOLATION" if violated else "ok"))
    if violated:
        VIOLATIONS.append(label)


# --------------------------------------------------------------------------
# cases
# --------------------------------------------------------------------------
def case_01():
    # Clause violated:  "... for every option mix ... given as defaults or as
    # per-path rules ..." and "... never as a crash".  Dimensions:  AoH policy
    # 'deep' as a per-path rule x EMPTY right-hand container.  An empty
    # right-hand Array at a path whose rule is the AoH-only value 'deep' is
    # looked up as a plain Array and ArrayMergeOpts.from_str('deep') raises
    # NameError; yaml-merge dies with a traceback.
    lhs = "c: [{id: 1, v: L}]\n"
    rhs = "c: []\n"
    got = lib_merge(lhs, rhs, rules={"/c": "deep"})
    (rcode, out, err, tback) = cli_merge(
        [lhs, rhs], config="[rules]\n/c = deep\n")
    want = {"c": [{"id": 1, "v": "L"}]}
    bad = got[0] != "OK" or not typed_eq(got[1], want) or tback
    report(
        "01 per-path AoH rule 'deep' + empty right-hand Array -> NameError",
        ["LHS " + repr(lhs), "RHS " + repr(rhs), "[rules] /c = deep"],
        "merged document {} (nothing to add), or at worst a merge error"
        .format(want),
        "library: {} {!r}; yaml-merge rc={} traceback={} last stderr line: {}"
        .format(got[0], got[1], rcode, tback, err),
        bad)


def case_02():
    # Clause violated:  "A structurally impossible merge (array into hash,
    # scalar into hash, hash into set) is reported as a merge error, never as
    # a crash".  Dimensions:  type clash at equal keys x per-path rule.  The
    # rule is a legitimate Array policy for /c (which IS an Array on the
    # left); the right-hand document holds a Hash there.  Without the rule
    # the clash is a MergeException; with it the process crashes (NameError).
    lhs = "c: [1]\n"
    rhs = "c: {x: 2}\n"
    without = lib_merge(lhs, rhs)
    got = lib_merge(lhs, rhs, rules={"/c": "unique"})
    (rcode, _, err, tback) = cli_merge(
        [lhs, rhs], config="[rules]\n/c = unique\n")
    bad = got[0] != "MERGE-ERROR" or tback
    report(
        "02 type clash (Hash onto Array) under a per-path Array rule"
        " -> NameError, not a merge error",
        ["LHS " + repr(lhs), "RHS " + repr(rhs), "[rules] /c = unique"],
        "a MergeException (as without the rule: {} {!r})".format(*without),
        "library: {} {!r}; yaml-merge rc={} traceback={} last stderr line: {}"
        .format(got[0], got[1], rcode, tback, err),
        bad)

    # Same defect, Array-of-Hashes policy where the right-hand side holds a
    # plain Array (Array onto Array is NOT impossible: it must just merge).
    lhs = "c: [{id: 1}]\n"
    rhs = "c: [7]\n"
    got = lib_merge(lhs, rhs, rules={"/c": "deep"})
    report(
        "02b per-path AoH rule 'deep' where right-hand side holds plain"
        " Array elements -> NameError",
        ["LHS " + repr(lhs), "RHS " + repr(rhs), "[rules] /c = deep"],
        "a merged document or a MergeException, never a crash",
        "library: {} {!r}".format(*got),
        got[0] == "CRASH")


def case_03():
    # Clause violated:  "array-of-hashes (... deep by identity key) ... given
    # ... as per-path rules/keys ... the merged document equals the result
    # those policies define".  Dimensions:  [keys] override x two AoH holding
    # equal content.  MergerConfig.aoh_merge_key() finds the applicable
    # [keys] entry by comparing the right-hand Array with == against every
    # registered node, so the key registered for /k1 is also used for /k2
    # whenever the two right-hand Arrays happen to be equal -- it even beats
    # the key registered for /k2 itself.
    lhs = "k1: [{v: 1, id: a}]\nk2: [{v: 1, id: b, z: L}]\n"
    rhs = "k1: [{v: 1, id: a}]\nk2: [{v: 1, id: a}]\n"
    want = {"k1": [{"v": 1, "id": "a"}],
            "k2": [{"v": 1, "id": "a", "z": "L"}]}
    base = lib_merge(lhs, rhs, aoh="deep")
    got1 = lib_merge(lhs, rhs, aoh="deep", keys={"/k1": "id"})
    got2 = lib_merge(lhs, rhs, aoh="deep", keys={"/k1": "id", "/k2": "v"})
    report(
        "03a [keys] /k1 = id is also applied to /k2 (equal right-hand"
        " content)",
        ["LHS " + repr(lhs), "RHS " + repr(rhs), "--aoh=deep",
         "[keys] /k1 = id"],
        "/k2 keeps the inferred identity key 'v' (first attribute), so its"
        " one record merges: {}  (result without any [keys]: {})"
        .format(want, base[1]),
        "{} {!r}".format(*got1),
        got1[0] != "OK" or not typed_eq(got1[1], want))
    report(
        "03b [keys] /k2 = v is overruled by [keys] /k1 = id",
        ["LHS " + repr(lhs), "RHS " + repr(rhs), "--aoh=deep",
         "[keys] /k1 = id ; /k2 = v"],
        "{}".format(want),
        "{} {!r}".format(*got2),
        got2[0] != "OK" or not typed_eq(got2[1], want))


def case_04():
    # Clause violated:  "set (left/right/unique) policies ... the merged
    # document equals the result those policies define ... never ... a
    # silently different document".  Dimensions:  Set x Scalar document x
    # sets=right.  _insert_scalar() runs _merge_sets() but discards what it
    # returns, so under RIGHT (which returns the right-hand Set) the
    # right-hand content vanishes and the merge is still reported performed.
    lhs = "!!set {a, c}\n"
    as_set = lib_merge(lhs, "!!set {b}\n", sets="right")
    as_list = lib_merge(lhs, "[b]\n", sets="right")
    got = lib_merge(lhs, "b\n", sets="right")
    want = {"!!set": ["b"]}
    report(
        "04 Scalar merged into a Set with sets=right is silently dropped",
        ["LHS " + repr(lhs), "RHS 'b'", "--sets=right"],
        "{} -- as for RHS '!!set {{b}}' ({}) and RHS '[b]' ({})"
        .format(want, as_set[1], as_list[1]),
        "{} {!r}  (no error, right-hand document lost)".format(*got),
        got[0] != "OK" or not typed_eq(got[1], want))


def case_05():
    # Clause violated:  "array-of-hashes ... deep by identity key" and
    # "left-hand content not named by the right-hand document keeps its
    # value".  Dimensions:  AoH deep x identity values "spelled like other
    # things".  Identity values are passed through Nodes.typed_value()
    # (ast.literal_eval) before comparison, so two DIFFERENT strings name the
    # same record when they evaluate to equal Python literals.
    want_tpl = "two records: the untouched left-hand one plus the new one"
    for (tag, lid, rid) in (
        ("a", "'16'", "'0x10'"),
        ("b", "'true'", "'1'"),
        ("c", "' 7'", "'7'"),
    ):
        lhs = "- {{id: {}, v: L}}\n".format(lid)
        rhs = "- {{id: {}, v: R}}\n".format(rid)
        got = lib_merge(lhs, rhs, aoh="deep")
        lval = load(lid)
        rval = load(rid)
        want = [{"id": lval, "v": "L"}, {"id": rval, "v": "R"}]
        report(
            "05{} AoH deep: string identities {} and {} are taken for the"
            " same record".format(tag, lid, rid),
            ["LHS " + repr(lhs), "RHS " + repr(rhs), "--aoh=deep"],
            "{}: {}".format(want_tpl, want),
            "{} {!r}".format(*got),
            got[0] != "OK" or not typed_eq(got[1], want))


def case_06():
    # Clause violated:  "left-hand content not named by the right-hand
    # document keeps its value".  Dimensions:  Hash deep merge x YAML Merge
    # Key in the LEFT document (x JSON output).  _merge_dicts() deletes every
    # key a left-hand Hash owns through '<<:' before merging into it and never
    # restores them:  Merger.data no longer has them, and yaml-merge -D json
    # writes the Hash without them.  The right-hand document names only d.w.
    lhs = "base: &b {x: 1, y: 2}\nd:\n  <<: *b\n  z: 3\n"
    rhs = "d: {w: 4}\n"
    want_d = {"x": 1, "y": 2, "z": 3, "w": 4}
    got = lib_merge(lhs, rhs)
    (rcode, out, err, _) = cli_merge([lhs, rhs], "-D", "json")
    got_d = got[1].get("d") if got[0] == "OK" else None
    bad = (got[0] != "OK"
           or sorted(got_d.items()) != sorted(want_d.items())
           or '"x": 1' not in out.split('"d"')[-1])
    report(
        "06 left-hand Hash loses the keys it owns through '<<:' as soon as"
        " the right-hand document names that Hash",
        ["LHS " + repr(lhs), "RHS " + repr(rhs), "defaults; CLI adds -D json"],
        "d == {} (x and y are left-hand content the RHS does not name)"
        .format(want_d),
        "Merger.data['d'] == {!r}; yaml-merge -D json rc={} wrote {!r} {}"
        .format(got_d, rcode, out, err),
        bad)


def case_07():
    # Clause violated:  "hashes combine per key" / "never ... a silently
    # different document".  Dimensions:  YAML Merge Key in the RIGHT document
    # x (root Hash | AoH deep record).  Right-hand keys contributed by '<<:'
    # are skipped (non_merged_items) and the '<<:' reference itself is only
    # carried over for Hashes nested under a key -- not for the document root
    # and not for records matched by --aoh=deep.  (For a nested Hash, and for
    # --aoh=all, the same content does arrive.)
    lhs = "z: 3\n"
    rhs = "base: &b {extra: 1}\nw: 4\n<<: *b\n"
    got = lib_merge(lhs, rhs)
    (_, out, _, _) = cli_merge([lhs, rhs])
    report(
        "07a root-level '<<:' of the right-hand document is dropped",
        ["LHS " + repr(lhs), "RHS " + repr(rhs), "defaults"],
        "root Hash has z, base, w AND extra: 1 (the RHS root Hash has it)",
        "{} {!r}; yaml-merge wrote {!r}".format(got[0], got[1], out),
        got[0] != "OK" or "extra" not in got[1] and "extra: 1\n" not in
        out.replace("base:\n  extra: 1\n", ""))

    lhs = "c: [{id: 1, v: L}]\n"
    rhs = "c: [{id: 1, <<: {extra: 1}}]\n"
    got = lib_merge(lhs, rhs, aoh="deep")
    got_all = lib_merge(lhs, rhs, aoh="all")
    (_, out, _, _) = cli_merge([lhs, rhs], "-O", "deep")
    report(
        "07b '<<:' content of a right-hand AoH record is dropped by"
        " --aoh=deep",
        ["LHS " + repr(lhs), "RHS " + repr(rhs), "--aoh=deep"],
        "c == [{id: 1, v: L, extra: 1}]  (with --aoh=all the record does"
        " keep it: " + repr(got_all[1]) + ")",
        "{} {!r}; yaml-merge wrote {!r}".format(got[0], got[1], out),
        got[0] != "OK" or "extra" not in out)


def case_08():
    # Clause violated:  "arrays ... de-duplicate" and "left-hand content not
    # named by the right-hand document keeps its value".  Dimensions:  Array
    # unique x Scalars that Python (not YAML) holds equal.  Under
    # arrays=unique an RHS element that == an LHS element REPLACES it, so the
    # integer 1 becomes the boolean true / the float 1.0.
    for (tag, lhs, rhs, want) in (
        ("a", "[1, 2]\n", "[true]\n", [1, 2, True]),
        ("b", "[1, 2]\n", "[1.0]\n", [1, 2, 1.0]),
    ):
        got = lib_merge(lhs, rhs, arrays="unique")
        report(
            "08{} arrays=unique rewrites a left-hand element with a"
            " different right-hand value".format(tag),
            ["LHS " + repr(lhs), "RHS " + repr(rhs), "--arrays=unique"],
            "{!r} (1 and {} are different YAML values; at the very least"
            " the left-hand 1 stays 1)".format(want, rhs.strip()),
            "{} {!r}".format(*got),
            got[0] != "OK" or not typed_eq(got[1][0], 1))


def case_09():
    # Clause violated:  "arrays concatenate / de-duplicate / replace".
    # Dimensions:  Array unique x repeated values x empty container.
    # arrays=unique only compares against the ORIGINAL left-hand elements, so
    # repeats inside the right-hand Array all arrive (aoh=unique, and sets,
    # de-duplicate the very same shape).
    got = lib_merge("k: []\n", "k: [c, c]\n", arrays="unique")
    got_aoh = lib_merge("k: []\n", "k: [{n: c}, {n: c}]\n", aoh="unique")
    report(
        "09 arrays=unique lets right-hand repeats through",
        ["LHS 'k: []'", "RHS 'k: [c, c]'", "--arrays=unique"],
        "{'k': ['c']}  (compare --aoh=unique on [{n: c}, {n: c}]: "
        + repr(got_aoh[1]) + ")",
        "{} {!r}".format(*got),
        got[0] != "OK" or got[1] != {"k": ["c"]})


def case_10():
    # Clause violated:  "... given as defaults or as per-path rules - the
    # merged document equals the result those policies define".  Dimensions:
    # per-path rule x merge point.  A rule's path is made relative to the
    # merge point with a plain str.startswith(); the rule for the unrelated
    # path /topping becomes 'ping' under --mergeat=/top and is applied to
    # /top/ping.
    lhs = "top: {ping: [1]}\ntopping: [5]\n"
    rhs = "ping: [2]\n"
    got = lib_merge(lhs, rhs, mergeat="/top", rules={"/topping": "right"})
    want = {"top": {"ping": [1, 2]}, "topping": [5]}
    report(
        "10 rule for /topping is applied to /top/ping when --mergeat=/top",
        ["LHS " + repr(lhs), "RHS " + repr(rhs), "--mergeat=/top",
         "[rules] /topping = right"],
        "{} (no rule names /top/ping; arrays default = all)".format(want),
        "{} {!r}".format(*got),
        got[0] != "OK" or not typed_eq(got[1], want))


def case_11():
    # Clause violated:  "array (all/left/right/unique) ... policies ... the
    # merged document equals the result those policies define".  Dimensions:
    # Array x Scalar document x arrays=left|unique.  A Scalar right-hand
    # document is appended to a left-hand Array whatever the Array policy.
    got_l = lib_merge("[a, c]\n", "b\n", arrays="left")
    got_u = lib_merge("[a, c]\n", "a\n", arrays="unique")
    report(
        "11a Scalar into Array ignores arrays=left",
        ["LHS '[a, c]'", "RHS 'b'", "--arrays=left"],
        "['a', 'c']  (as for RHS '[b]': {})".format(
            lib_merge("[a, c]\n", "[b]\n", arrays="left")[1]),
        "{} {!r}".format(*got_l),
        got_l[0] != "OK" or got_l[1] != ["a", "c"])
    report(
        "11b Scalar into Array ignores arrays=unique",
        ["LHS '[a, c]'", "RHS 'a'", "--arrays=unique"],
        "['a', 'c']  (as for RHS '[a]': {})".format(
            lib_merge("[a, c]\n", "[a]\n", arrays="unique")[1]),
        "{} {!r}".format(*got_u),
        got_u[0] != "OK" or got_u[1] != ["a", "c"])


def case_12():
    # Clause violated:  "hash (deep/left/right) ... given ... as per-path
    # rules".  Dimensions:  Hash rule x AoH deep.  A Hash rule addressed at a
    # record of an Array-of-Hashes is never consulted by --aoh=deep (rules on
    # the record's CHILDREN are).
    lhs = "c: [{id: 1, v: L}]\n"
    rhs = "c: [{id: 1, v: R, w: 2}]\n"
    got = lib_merge(lhs, rhs, aoh="deep", rules={"/c[0]": "left"})
    child = lib_merge(lhs, rhs, aoh="deep", rules={"/c[0]/v": "left"})
    want = {"c": [{"id": 1, "v": "L"}]}
    report(
        "12 per-path Hash rule on an AoH record is ignored by --aoh=deep",
        ["LHS " + repr(lhs), "RHS " + repr(rhs), "--aoh=deep",
         "[rules] /c[0] = left"],
        "{}  (a rule on the child /c[0]/v IS honoured: {})"
        .format(want, child[1]),
        "{} {!r}".format(*got),
        got[0] != "OK" or not typed_eq(got[1], want))


def case_13():
    # Clause violated:  "... given as defaults or as per-path rules ...".
    # Dimensions:  per-path rule in the INI file x key containing ':'.  The
    # [rules] line is split at the first ':' by configparser and re-joined
    # with '=', so the rule is filed under /a=b and never reaches /a:b.
    (rcode, out, _, _) = cli_merge(
        ["'a:b': [1]\n", "'a:b': [2]\n"], config="[rules]\n/a:b = right\n")
    (_, out_ok, _, _) = cli_merge(
        ["'a=b': [1]\n", "'a=b': [2]\n"], config="[rules]\n/a\\=b = right\n")
    report(
        "13 a [rules] entry for a key containing ':' is never applied",
        ["LHS \"'a:b': [1]\"", "RHS \"'a:b': [2]\"",
         "config file: [rules] /a:b = right"],
        "'a:b': [2]  (the '=' twin works: {!r})".format(out_ok),
        "rc={} {!r}".format(rcode, out),
        "- 1" in out)


def case_14():
    # Clause violated:  "arrays concatenate" (exactly once per document).
    # Dimensions:  sequence of operations x several merge points.  The one
    # right-hand node is put under every target by reference; the next merge
    # then appends to that single shared Array once per target.
    (rcode, out, _, _) = cli_merge(
        ["a: {}\nb: {}\n", "{k: [1]}\n", "{k: [2]}\n"], "-m", "/*")
    got = lib_merge("a: {}\nb: {}\n", ["{k: [1]}\n", "{k: [2]}\n"],
                    mergeat="/*")
    want = {"a": {"k": [1, 2]}, "b": {"k": [1, 2]}}
    report(
        "14 two successive merges at /* share one Array: [1, 2, 2]",
        ["docs 'a: {}\\nb: {}' <- '{k: [1]}' <- '{k: [2]}'",
         "--mergeat=/*"],
        "{}".format(want),
        "library {} {!r}; yaml-merge rc={} {!r}".format(
            got[0], got[1], rcode, out),
        got[0] != "OK" or not typed_eq(got[1], want))


def case_15():
    # Clause violated:  "arrays ... replace".  Dimensions:  Alias x
    # arrays=right x several merge points.  A target reached a second time
    # through an Alias is skipped; under a REPLACING policy the first target
    # was replaced in its parent only, so the aliased target keeps the old
    # left-hand Array.
    got = lib_merge("a: &A [1]\nb: *A\n", "[2]\n", mergeat="/*",
                    arrays="right")
    want = {"a": [2], "b": [2]}
    report(
        "15 aliased merge target is not replaced under arrays=right",
        ["LHS 'a: &A [1]\\nb: *A'", "RHS '[2]'", "--mergeat=/* "
         "--arrays=right"],
        "{}".format(want),
        "{} {!r}".format(*got),
        got[0] != "OK" or not typed_eq(got[1], want))


def main():
    """Run every case."""
    for case in (case_01, case_02, case_03, case_04, case_05, case_06,
                 case_07, case_08, case_09, case_10, case_11, case_12,
                 case_13, case_14, case_15):
        try:
            case()
        except Exception:  # pylint: disable=broad-except
            print("demo harness failure in {}:".format(case.__name__))
            traceback.print_exc()
            VIOLATIONS.append(case.__name__ + " (harness failure)")
    print("=" * 78)
    print("{} case(s) run, {} violate the property:".format(
        CASE_COUNT[0], len(VIOLATIONS)))
    for label in VIOLATIONS:
        print("  - " + label)
    sys.exit(1 if VIOLATIONS else 0)


if __name__ == "__main__":
    main()
