#!/usr/bin/env python
"""
Demonstrations of inputs for which the Search Keywords (max, min, unique,
distinct, has_child, parent, name) do not select by their definitions.

Run as:  cd /tmp/wt5-C13 && PYTHONPATH=/tmp/wt5-C13 /venv/bin/python demo.py
Exit status: 1 when at least one case violates the property, 0 otherwise.

Only public entry points are used:  yamlpath.common.Parsers to load a document
and yamlpath.Processor.get_nodes() to run a YAML Path against it.
"""
import sys
from types import SimpleNamespace

from yamlpath import Processor, YAMLPath
from yamlpath.common import Parsers
from yamlpath.exceptions import YAMLPathException
from yamlpath.wrappers import ConsolePrinter, NodeCoords

LOG = ConsolePrinter(SimpleNamespace(quiet=True, verbose=False, debug=False))
VIOLATIONS = []


def load(text):
    """Parse one YAML document from text."""
    editor = Parsers.get_yaml_editor()
    (data, loaded) = Parsers.get_yaml_data(editor, LOG, text, literal=True)
    assert loaded, "the demo's own YAML must parse"
    return data


def plain(node):
    """Strip NodeCoords wrappers and ruamel types for printing/comparing."""
    node = NodeCoords.unwrap_node_coords(node)
    if isinstance(node, dict):
        return {plain(k): plain(v) for k, v in node.items()}
    if isinstance(node, list):
        return [plain(v) for v in node]
    if isinstance(node, bool) or node is None:
        return node
    if isinstance(node, int):
        return int(node)
    if isinstance(node, float):
        return float(node)
    if isinstance(node, str):
        return str(node)
    return node


def query(data, path):
    """Return the list of plain matched nodes, or 'ERROR: ...'."""
    try:
        return [plain(nc.node) for nc in Processor(LOG, data).get_nodes(
            YAMLPath(path), mustexist=True)]
    except YAMLPathException as ex:
        if "does not match any nodes" in str(ex):
            return []
        return "ERROR: {}".format(ex)


def case(label, clause, yaml_text, path, expected, note=""):
    """Run one case; expected is compared as an unordered collection."""
    observed = query(load(yaml_text), path)

    def norm(val):
        if isinstance(val, str):
            return val
        return sorted(repr(v) for v in val)

    good = norm(observed) == norm(expected)
    print("-" * 78)
    print("CASE {}  [{}]".format(label, "ok" if good else "VIOLATION"))
    print("  clause  : {}".format(clause))
    print("  document: {}".format(
        yaml_text.strip().replace("\n", "\n            ")))
    print("  path    : {}".format(path))
    print("  demanded: {}".format(expected))
    print("  observed: {}".format(observed))
    if note:
        print("  note    : {}".format(note))
    if not good:
        VIOLATIONS.append(label)


# ---------------------------------------------------------------------------
# 1. max/min over text values which contain quotation marks.
#    Clause violated: "max and min return exactly the members whose value is
#    greatest or least and, inverted, exactly the others".
#    Searches.search_matches() evaluates "'b'" with literal_eval() to b, then
#    compares the evaluated text with the raw text, so a value is neither equal
#    to itself nor ordered consistently.
QUOTED = """
s:
  - "'b'"
  - "'a'"
  - "'b'"
"""
case("1a max() of text values holding quote marks",
     "max returns exactly the members whose value is greatest",
     QUOTED, "/s[max()]", ["'b'", "'b'"],
     "'b' (elements 0 and 2) is greatest; only one of them is returned")
case("1b min() of text values holding quote marks",
     "min returns exactly the members whose value is least",
     QUOTED, "/s[min()]", ["'a'"],
     "'a' is least, yet 'b' is returned")
case("1c !min() of text values holding quote marks",
     "inverted, exactly the others",
     QUOTED, "/s[!min()]", ["'b'", "'b'"])
case("1d max(NAME) over an Array-of-Hashes, same values",
     "max returns exactly the members whose named attribute is greatest",
     """
aoh:
  - {id: 1, word: "'b'"}
  - {id: 2, word: "'a'"}
  - {id: 3, word: "'b'"}
""", "/aoh[max(word)]/id", [1, 3])

# ---------------------------------------------------------------------------
# 2. name() and parent() after max()/min() over a slice of an Array-of-Hashes.
#    Clauses violated: "name() returns the key or index under which the current
#    node is held" and "parent(n) returns the n-th ancestor of the current
#    node".  max()/min() re-wrap each record with its position inside the slice
#    and with the slice as its parent; unique()/distinct() keep the record's
#    own coordinates (shown for comparison).
SLICED = """
aoh:
  - {n: a, v: 9}
  - {n: b, v: 1}
  - {n: c, v: 3}
  - {n: d, v: 1}
"""
case("2a name() of the max(v) record of aoh[1:4]",
     "name() returns the key or index under which the current node is held",
     SLICED, "/aoh[1:4][max(v)][name()]", [2],
     "the record {n: c, v: 3} is aoh[2]")
case("2b same record selected with unique(v) (for comparison; correct)",
     "name()", SLICED, "/aoh[1:4][unique(v)][name()]", [2])
case("2c name() of the min(v) records of aoh[1:4]",
     "name() returns the key or index under which the current node is held",
     SLICED, "/aoh[1:4][min(v)][name()]", [1, 3])
case("2d parent() of the max(v) record of aoh[1:4]",
     "parent(n) returns the n-th ancestor of the current node",
     SLICED, "/aoh[1:4][max(v)][parent()][name()]", ["aoh"],
     "the parent of aoh[2] is the list held under the key aoh")
case("2e parent(2) from a child of the max(v) record of aoh[1:4]",
     "parent(n) returns the n-th ancestor of the current node",
     SLICED, "/aoh[1:4][max(v)]/n[parent(2)][name()]", ["aoh"])

# ---------------------------------------------------------------------------
# 3. has_child() over a slice (or a Collector) of an Array-of-Hashes.
#    Clause violated: "has_child returns exactly the hashes having (or,
#    inverted, lacking) the named key".  The wrapped records are not recognised
#    as hashes, so nothing has the key and, inverted, everything lacks it.
HASCHILD = """
aoh:
  - {n: a, v: 9}
  - {n: b, v: 1}
  - {n: c}
"""
case("3a has_child(v) over the slice aoh[1:3]",
     "has_child returns exactly the hashes having the named key",
     HASCHILD, "/aoh[1:3][has_child(v)]/n", ["b"])
case("3b !has_child(v) over the slice aoh[1:3]",
     "has_child, inverted, returns exactly the hashes lacking the named key",
     HASCHILD, "/aoh[1:3][!has_child(v)]/n", ["c"])
case("3c has_child(v) over a Collector of the same records",
     "has_child returns exactly the hashes having the named key",
     HASCHILD, "(/aoh/*)[has_child(v)].n", ["a", "b"])

# ---------------------------------------------------------------------------
# 4. The named key / attribute is a number in the document.
#    Clauses violated: has_child, max, min, unique, distinct ("named
#    attribute").  /recs/*/2024 and /recs[2024>15] reach the very same key.
INTKEY = """
recs:
  - {2024: 10, id: p}
  - {2024: 30, id: q}
  - {2024: 10, id: r}
  - {id: s}
"""
case("4a the key 2024 is reachable as a plain path segment (correct)",
     "-", INTKEY, "/recs/*/2024", [10, 30, 10])
case("4b has_child(2024)",
     "has_child returns exactly the hashes having the named key",
     INTKEY, "/recs[has_child(2024)]/id", ["p", "q", "r"])
case("4c !has_child(2024)",
     "has_child, inverted, returns exactly the hashes lacking the named key",
     INTKEY, "/recs[!has_child(2024)]/id", ["s"])
case("4d max(2024)",
     "max returns exactly the members whose named attribute is greatest",
     INTKEY, "/recs[max(2024)]/id", ["q"])
case("4e !min(2024)",
     "min, inverted, returns exactly the others",
     INTKEY, "/recs[!min(2024)]/id", ["q", "s"])
case("4f unique(2024)",
     "unique returns the members whose value occurs once",
     INTKEY, "/recs[unique(2024)]/id", ["q"])
case("4g distinct(2024)",
     "distinct returns the first member of each group of equal values",
     INTKEY, "/recs[distinct(2024)]/id", ["p", "q"])

# ---------------------------------------------------------------------------
# 5. Text values made of digits, one with a leading zero (ZIP codes, ids).
#    Clause violated: "max ... return exactly the members whose value is
#    greatest".  "2" is greatest both as a number and as text; which member is
#    returned depends on the order of the elements.
case("5a max() of ['01', '1', '2']",
     "max returns exactly the members whose value is greatest",
     's: ["01", "1", "2"]', "/s[max()]", ["2"],
     "the same member is also returned by min()")
case("5b max() of the same values in another order (correct)",
     "max", 's: ["1", "01", "2"]', "/s[max()]", ["2"])
case("5c max(zip) over an Array-of-Hashes",
     "max returns exactly the members whose named attribute is greatest",
     """
towns:
  - {zip: "02134", name: Allston}
  - {zip: "10001", name: NewYork}
  - {zip: "94105", name: SanFrancisco}
""", "/towns[max(zip)]/name", ["SanFrancisco"])

# ---------------------------------------------------------------------------
# 6. has_child() directly against an Array-of-Hashes which holds a null
#    element (max/min/unique/distinct accept such an Array-of-Hashes).
#    Clause violated: has_child.
NULLELE = """
aoh:
  - {n: a, v: 1}
  - {n: b}
  -
"""
case("6a has_child(v) when the Array-of-Hashes holds a null element",
     "has_child returns exactly the hashes having the named key",
     NULLELE, "/aoh[has_child(v)]/n", ["a"])
case("6b !has_child(v), same document",
     "has_child, inverted, returns exactly the hashes lacking the named key",
     NULLELE, "/aoh[!has_child(v)]/n", ["b"],
     "the whole list is returned, record a (which has v) included")
case("6c max(v), same document (for comparison; correct)",
     "max", NULLELE, "/aoh[max(v)]/n", ["a"])

# ---------------------------------------------------------------------------
# 7. name() of an element addressed with a negative index.
#    Clause violated: "name() returns the key or index under which the current
#    node is held".
case("7a name() of s[-1]",
     "name() returns the key or index under which the current node is held",
     "s: [x, y, z]", "/s[-1][name()]", [2],
     "/s/*[.=z][name()] and /s[2][name()] answer 2 for the same node")
case("7b name() of the parent reached from below s[-1]",
     "name()",
     "s: [{k: x}, {k: y}]", "/s[-1]/k[parent()][name()]", [1])

# ---------------------------------------------------------------------------
# 8. has_child() for a key which is spelled like an Anchor reference.
#    Clause violated: has_child.  Neither escaping nor quoting the & makes the
#    parameter a key name; max(\&k) does find the same key.
AMPKEY = """
h:
  a: {"&k": 1}
  b: {other: 2}
"""
case("8a has_child(\\&k)",
     "has_child returns exactly the hashes having the named key",
     AMPKEY, "/h/*[has_child(\\&k)][name()]", ["a"])
case("8b has_child('&k')",
     "has_child returns exactly the hashes having the named key",
     AMPKEY, "/h/*[has_child('&k')][name()]", ["a"])
case("8c !has_child(\\&k)",
     "has_child, inverted, returns exactly the hashes lacking the named key",
     AMPKEY, "/h/*[!has_child(\\&k)][name()]", ["b"])

# ---------------------------------------------------------------------------
# 9. Lower confidence:  scalars carrying a custom tag.
#    Clauses violated: unique / distinct / min ("whose value ...").
TAGGED = "s: [!x 5, !x 10, !x 5]"
case("9a unique() of custom-tagged scalars",
     "unique returns the members whose value occurs once",
     TAGGED, "/s[unique()][name()]", [1])
case("9b distinct() of custom-tagged scalars",
     "distinct returns the first member of each group of equal values",
     TAGGED, "/s[distinct()][name()]", [0, 1])
case("9c min() of custom-tagged scalars",
     "min returns exactly the members whose value is least",
     TAGGED, "/s[min()][name()]", [0, 2],
     "5 < 10 but the values are compared as text")

# ---------------------------------------------------------------------------
# 10. Lower confidence:  other collections ("On any collection").
case("10a max() on a YAML set",
     "On any collection, max returns exactly the members whose value is"
     " greatest",
     "s: !!set {b, a, c}", "/s[max()]", ["c"],
     "the whole set is returned as though it were one scalar")
case("10b max() on an empty sequence",
     "On any collection, max returns exactly the members ... (none here)",
     "s: []", "/s[max()]", [],
     "an empty sequence is taken for an Array-of-Hashes and refused")

print("=" * 78)
if VIOLATIONS:
    print("{} violating case(s):".format(len(VIOLATIONS)))
    for label in VIOLATIONS:
        print("  * " + label)
    sys.exit(1)
print("no violation")
sys.exit(0)
