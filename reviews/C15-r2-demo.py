#!/usr/bin/env python
"""
Stand-alone demonstration for the property

  "Evaluating any path on any document fails only with YAML Path errors"

Run as:  cd /tmp/wt7-C15 && PYTHONPATH=/tmp/wt7-C15 /venv/bin/python demo.py

Only public entry points are used:  yamlpath.common.Parsers (the project's own
document loader), yamlpath.Processor.get_nodes() and the yaml-get command
(python -m yamlpath.commands.yaml_get).

Every case prints its input, what the property demands and what the code did.
Cases marked COUNTED decide the exit status (1 = at least one of them violates
the property).  Cases marked INFORMATIONAL need an input dimension which the
property's "Scope of inputs" line does not name; they are shown for
completeness and never change the exit status.
"""
import itertools
import os
import subprocess
import sys
import tempfile
from types import SimpleNamespace

from yamlpath import Processor, YAMLPath
from yamlpath.common import Parsers
from yamlpath.enums import PathSeparators
from yamlpath.exceptions import YAMLPathException
from yamlpath.wrappers import ConsolePrinter

LOG = ConsolePrinter(SimpleNamespace(quiet=True, verbose=False, debug=False))


def load(text):
    """Load YAML text with the project's own loader; None when it refuses."""
    yaml = Parsers.get_yaml_editor()
    try:
        (data, loaded) = Parsers.get_yaml_data(yaml, LOG, text, literal=True)
    except RecursionError:
        return None
    return data if loaded else None


def query(data, path, **kwargs):
    """Evaluate path; classify the outcome."""
    try:
        found = list(Processor(LOG, data).get_nodes(path, **kwargs))
        return ("results", "{} result(s)".format(len(found)))
    except YAMLPathException as ex:
        return ("yamlpath-error", "{}: {}".format(
            type(ex).__name__, str(ex)[:90]))
    except RecursionError as ex:
        return ("VIOLATION", "RecursionError: {}".format(str(ex)[:90]))
    except Exception as ex:         # pylint: disable=broad-except
        return ("VIOLATION", "{}: {}".format(type(ex).__name__, str(ex)[:90]))


def report(label, counted, doc_desc, path_desc, demanded, outcome):
    print("-" * 78)
    print("CASE {}  [{}]".format(
        label, "COUNTED" if counted else "INFORMATIONAL, outside the scope"))
    print("  document : {}".format(doc_desc))
    print("  path     : {}".format(path_desc))
    print("  demanded : {}".format(demanded))
    print("  observed : {} -- {}".format(outcome[0], outcome[1]))
    return counted and outcome[0] == "VIOLATION"


def main():
    violated = False
    demanded = ("results, or an exception of the YAMLPathException family"
                " (never RecursionError/TypeError/IndexError/KeyError/...)")

    # ------------------------------------------------------------------
    # CASE A (COUNTED, medium-to-high confidence)
    # Clause violated:  "a query either returns results or raises the
    # library's YAML Path exception family".
    # get_nodes() in its DEFAULT mode (mustexist=False) adds the missing last
    # key.  When a wildcard / search / Hash slice / traversal segment is
    # followed by the parent() keyword and then by a missing key, the key is
    # added to the very Hash (or the Set is changed) whose members the
    # earlier segment is still iterating over, and the iteration dies with
    # RuntimeError("OrderedDict mutated during iteration").  Nothing but a
    # two-key Hash and a three-segment path is needed.
    # ------------------------------------------------------------------
    for doc_text, path_text in (
        ("a: 1\nb: 2\n", "*[parent()].new"),
        ("a: 1\nb: 2\n", "[.!=x][parent()].new"),
        ("a: 1\nb: 2\n", "[a:b][parent()].new"),
        ("h: {a: {v: 1}, b: {v: 2}}\n", "**.v[parent(2)].new"),
        ("s: !!set {? x, ? y}\n", "s[.!=q][parent()].new"),
    ):
        required = query(load(doc_text), path_text, mustexist=True)
        outcome = query(load(doc_text), path_text)   # the default mode
        violated |= report(
            "A/{}".format(path_text), True, repr(doc_text),
            "{}   via get_nodes(path) [default mustexist=False]  (with"
            " mustexist=True: {})".format(path_text, required[0]),
            demanded, outcome)

    # ------------------------------------------------------------------
    # CASE B (COUNTED, medium confidence)
    # Clause violated:  "a query either returns results or raises the
    # library's YAML Path exception family ... never surface as IndexError".
    # Processor.get_nodes()/exists() accept a ready-made YAMLPath object
    # together with the documented `pathsep` keyword ("Forced YAML Path
    # segment separator"; tests/test_processor.py::test_enforce_pathsep uses
    # exactly this combination).  The separator setter parses the UNESCAPED
    # segments with the old (inferred) separator and the ESCAPED segments are
    # then parsed -- lazily -- with the forced one.  When the path text holds
    # the forced separator, the two lists differ in length and
    # `yaml_path.unescaped[depth]` (processor.py, _get_required_nodes /
    # _get_optional_nodes) raises IndexError as soon as the first segment
    # matches.  The same path given as a str works.
    # ------------------------------------------------------------------
    for doc_text, path_text, sep in (
        ("a: 1\n", "a/b", PathSeparators.FSLASH),
        ("a: {b: [1, 2]}\n", "a/b[0]", PathSeparators.FSLASH),
        ("- [x, y]\n", "[0].", PathSeparators.FSLASH),
    ):
        for mustexist in (True, False):
            as_text = query(load(doc_text), path_text,
                            mustexist=mustexist, pathsep=sep)
            outcome = query(load(doc_text), YAMLPath(path_text),
                            mustexist=mustexist, pathsep=sep)
            violated |= report(
                "B/{}/mustexist={}".format(path_text, mustexist), True,
                repr(doc_text),
                "YAMLPath({!r}) with pathsep={!r}  (the same path as a str"
                " gives: {} -- {})".format(
                    path_text, str(sep), as_text[0], as_text[1][:60]),
                demanded, outcome)
    try:
        exists = Processor(LOG, load("a: 1\n")).exists(
            YAMLPath("a/b"), pathsep=PathSeparators.FSLASH)
        outcome = ("results", "exists() -> {}".format(exists))
    except YAMLPathException as ex:
        outcome = ("yamlpath-error", str(ex)[:90])
    except Exception as ex:     # pylint: disable=broad-except
        outcome = ("VIOLATION", "{}: {}".format(type(ex).__name__, ex))
    violated |= report(
        "B/exists", True, repr("a: 1\n"),
        "Processor.exists(YAMLPath('a/b'), pathsep='/')",
        "True/False, or an exception of the YAMLPathException family",
        outcome)

    # ------------------------------------------------------------------
    # CASE C (COUNTED, low-to-medium confidence)
    # Clause violated:  "searches over null or mixed-type children ... and
    # deep traversals never surface as ... RecursionError".
    # A one-segment search/keyword path over a document which is a sequence
    # nested a few hundred levels deep (well below "thousands"; the project's
    # own loader accepts it, and [0][0][0]..., ** and * all work on it) dies
    # with RecursionError:  Searches.search_matches() -> Nodes.typed_value()
    # and KeywordSearches._hashable() call str() on the whole nested child.
    # ------------------------------------------------------------------
    for style, make in (
        ("flow  '[[[...1...]]]'", lambda n: "[" * n + "1" + "]" * n),
        ("block '- - - ... 1'", lambda n: "- " * n + "1\n"),
    ):
        for path in ("[.=1]", "[.!=x]", "[.=~/x/]", "[unique()]",
                     "[distinct()]"):
            outcome = None
            used_depth = None
            for depth in range(300, 481, 20):
                data = load(make(depth))
                if data is None:
                    break   # deeper than the project's loader accepts
                sanity = query(data, "[0]" * 3, mustexist=True)
                assert sanity[0] == "results", sanity
                outcome = query(data, path, mustexist=True)
                used_depth = depth
                if outcome[0] == "VIOLATION":
                    break
            violated |= report(
                "C/{}/{}".format(style.split()[0], path), True,
                "a sequence nested {} levels deep around the scalar 1, {}"
                .format(used_depth, style),
                path, demanded, outcome)

    # The same through the yaml-get command:  a Python traceback instead of
    # an error message.
    depth = 400
    with tempfile.TemporaryDirectory() as tmpdir:
        yaml_file = os.path.join(tmpdir, "deep.yaml")
        with open(yaml_file, "w", encoding="utf-8") as fhnd:
            fhnd.write("[" * depth + "1" + "]" * depth + "\n")
        env = dict(os.environ)
        env["PYTHONPATH"] = os.pathsep.join(
            [os.path.dirname(os.path.abspath(__file__)),
             env.get("PYTHONPATH", "")])
        ok_run = subprocess.run(
            [sys.executable, "-m", "yamlpath.commands.yaml_get",
             "-p", "[0][0][0][parent()][name()]", yaml_file],
            env=env, capture_output=True, text=True, check=False)
        bad_run = subprocess.run(
            [sys.executable, "-m", "yamlpath.commands.yaml_get",
             "-p", "[.=1]", yaml_file],
            env=env, capture_output=True, text=True, check=False)
    last_line = (bad_run.stderr.strip().splitlines() or [""])[-1]
    cli_outcome = (
        ("VIOLATION", "exit {}; stderr ends: {}".format(
            bad_run.returncode, last_line[:100]))
        if "Traceback" in bad_run.stderr and "RecursionError" in last_line
        else ("yamlpath-error-or-results", "exit {}; {}".format(
            bad_run.returncode, last_line[:100])))
    violated |= report(
        "C/yaml-get", True,
        "file holding a flow sequence nested {} levels deep (yaml-get -p"
        " '[0][0][0][parent()][name()]' on it: exit {}, stdout {!r})".format(
            depth, ok_run.returncode, ok_run.stdout.strip()[:20]),
        "yaml-get -p '[.=1]' FILE",
        "an error message (critical log) or results, not a traceback",
        cli_outcome)

    # ------------------------------------------------------------------
    # CASE 2 (INFORMATIONAL -- needs a path of several hundred segments or
    # several hundred nested parentheses, which the scope does not name)
    # Clause it would violate:  "... never surface as ... RecursionError".
    # ------------------------------------------------------------------
    data = load("a: [1, 2, 3]\n")
    for count in (300, 400, 600, 900):
        path = "a" + "[0:9]" * count + "[.=1]"
        outcome = query(data, path, mustexist=True)
        if outcome[0] == "VIOLATION":
            break
    report("2/slices", False, "a: [1, 2, 3]",
           "a + '[0:9]' * {} + '[.=1]'".format(count), demanded, outcome)
    for count in (200, 300, 400, 600):
        path = "(" * count + "a" + ")" * count
        outcome = query(data, path, mustexist=True)
        if outcome[0] == "VIOLATION":
            break
    report("2/parens", False, "a: [1, 2, 3]",
           "'(' * {0} + 'a' + ')' * {0}".format(count), demanded, outcome)

    # ------------------------------------------------------------------
    # CASE 3 (INFORMATIONAL -- needs the default_value option of
    # get_nodes(), which the scope does not name)
    # Clause it would violate:  the title, "fails only with YAML Path
    # errors":  a default value whose text Python reads as None, a complex
    # number, a tuple, a set, bytes or Ellipsis cannot carry the Anchor of a
    # new [&anchor] element and Nodes.append_list_element() raises a bare
    # ValueError.
    # ------------------------------------------------------------------
    for default_value in ("None", "1j", "(1,2)", "..."):
        data = load("a: [1]\n")
        outcome = query(
            data, "a[&new]", mustexist=False, default_value=default_value)
        report("3/default_value={!r}".format(default_value), False,
               "a: [1]", "a[&new]  (mustexist=False, default_value={!r})"
               .format(default_value), demanded, outcome)

    # ------------------------------------------------------------------
    # CASE 4 (INFORMATIONAL -- same root cause as CASE A, but the outcome is
    # a query which never ends rather than a foreign exception)
    # Against an Array, the element added for the missing [&anchor] is itself
    # matched by the still-running wildcard/search, which adds another ...
    # ------------------------------------------------------------------
    data = load("l: [1, 2]\n")
    taken = list(itertools.islice(
        Processor(LOG, data).get_nodes("l.*[parent()][&new]"), 1000))
    report("4/endless", False, "l: [1, 2]",
           "l.*[parent()][&new]   via get_nodes(path), first 1000 results"
           " only", "a finite result or a YAML Path error",
           ("ODD", "{} results taken and still going; the Array now holds {}"
            " elements".format(len(taken), len(data["l"]))))

    # ------------------------------------------------------------------
    # CASE 5 (INFORMATIONAL -- the scope limits Collectors to operands which
    # select scalars; here the left operand selects a Hash)
    # Clause it would violate:  "... never surface as ... TypeError".
    # ------------------------------------------------------------------
    data = load("a: [1, 2]\nb: {x: 1}\n")
    report("5/collector", False, "a: [1, 2] / b: {x: 1}", "(b)-(a)",
           demanded, query(data, "(b)-(a)", mustexist=True))

    print("-" * 78)
    print("RESULT: {}".format(
        "at least one COUNTED case violates the property" if violated
        else "no COUNTED case violates the property"))
    return 1 if violated else 0


if __name__ == "__main__":
    sys.exit(main())
