#!/usr/bin/env python
"""
Stand-alone demonstration of inputs for which the yamlpath merge engine
violates the property

  "Merging two documents yields the policy-defined result for every option
   mix ... A structurally impossible merge is reported as a merge error, never
   as a crash or a silently different document."

Run as:  cd /tmp/wt5-C05 && PYTHONPATH=/tmp/wt5-C05 /venv/bin/python demo.py
Exit status: 1 when at least one case violates the property, else 0.

Only public entry points are used: yamlpath.merger.Merger / MergerConfig,
yamlpath.common.Parsers and yamlpath.wrappers.ConsolePrinter.
"""
import io
import json
import os
import sys
import tempfile
from types import SimpleNamespace

from ruamel.yaml import YAML

from yamlpath.common import Parsers
from yamlpath.wrappers import ConsolePrinter
from yamlpath.merger import Merger, MergerConfig
from yamlpath.merger.exceptions import MergeException
from yamlpath.exceptions import YAMLPathException


# --------------------------------------------------------------------------
# helpers
# --------------------------------------------------------------------------
def load(text):
    """Parse one YAML document the way the yaml-merge command does."""
    return Parsers.get_yaml_editor().load(text)


def dump(data):
    """Serialize to block-style YAML (as yaml-merge does for YAML output)."""
    Parsers.set_flow_style(data, False)
    buf = io.StringIO()
    Parsers.get_yaml_editor().dump(data, buf)
    return buf.getvalue()


def effective(data):
    """The plain data a YAML reader sees in the serialized merge result."""
    plain = YAML(typ="safe", pure=True).load(dump(data))
    return plainify(plain)


def plainify(data):
    if isinstance(data, dict):
        return {k: plainify(v) for k, v in data.items()}
    if isinstance(data, (list, tuple)):
        return [plainify(v) for v in data]
    if isinstance(data, (set, frozenset)):
        return {"!!set": sorted(data, key=str)}
    return data


def merge(lhs_text, rhs_text, rules=None, keys=None, **opts):
    """
    Merge rhs into lhs.  Returns ("ok", Merger) | ("merge-error", message) |
    ("CRASH", "ExceptionType: message").
    """
    args = SimpleNamespace(quiet=True, verbose=False, debug=False, **opts)
    log = ConsolePrinter(args)
    kwargs = {}
    if rules is not None:
        kwargs["rules"] = rules
    if keys is not None:
        kwargs["keys"] = keys
    merger = Merger(log, load(lhs_text), MergerConfig(log, args, **kwargs))
    try:
        merger.merge_with(load(rhs_text))
    except (MergeException, YAMLPathException) as ex:
        return ("merge-error", str(ex))
    except Exception as ex:  # pylint: disable=broad-except
        return ("CRASH", "{}: {}".format(type(ex).__name__, ex))
    return ("ok", merger)


def observed_of(result):
    state, payload = result
    if state == "ok":
        return effective(payload.data)
    return "{} -> {}".format(state, payload)


CASES = []


def case(func):
    CASES.append(func)
    return func


def show(label, clause, lhs, rhs, options, expected, observed, violated):
    print("=" * 78)
    print("CASE   :", label)
    print("CLAUSE :", clause)
    print("LHS    :", lhs.rstrip("\n").replace("\n", "\n         "))
    print("RHS    :", rhs.rstrip("\n").replace("\n", "\n         "))
    print("OPTIONS:", options)
    print("DEMANDS:", expected)
    print("GOT    :", observed)
    print("VERDICT:", "VIOLATION" if violated else "ok")
    return violated


# --------------------------------------------------------------------------
# 1. crash instead of merge error
# --------------------------------------------------------------------------
@case
def crash_missing_identity_key_nontext_keys():
    # CLAUSE VIOLATED: "A structurally impossible merge ... is reported as a
    # merge error, never as a crash".  An AoH record which lacks the identity
    # key cannot be deep-merged; the code means to raise MergeException but
    # builds its message with ", ".join(ele.keys()), which raises TypeError as
    # soon as the record has a non-text key (int, bool, null).
    lhs = "a:\n- {id: 1}\n"
    rhs = "a:\n- {id: 1}\n- {2: x}\n"
    res = merge(lhs, rhs, aoh="deep")
    return show(
        "AoH deep: record without identity key whose keys are not text",
        "impossible merge must be a merge error, never a crash",
        lhs, rhs, "aoh=deep",
        "a MergeException (as for the text-keyed record {z: x})",
        observed_of(res), res[0] != "merge-error")


# --------------------------------------------------------------------------
# 2. per-path rule / key applied to a path it does not name
# --------------------------------------------------------------------------
@case
def rule_leaks_to_equal_sibling():
    # CLAUSE VIOLATED: "policies - given as defaults or as per-path rules -
    # the merged document equals the result those policies define".  The rule
    # names /x/arr only; /y/arr must follow the default (arrays=all).  Rules
    # are matched to right-hand nodes by ==, not identity, so any node with
    # equal content, equal parent content and the same key gets the rule.
    lhs = "x: {arr: [1]}\ny: {arr: [1]}\n"
    rhs = "x: {arr: [2]}\ny: {arr: [2]}\n"
    res = merge(lhs, rhs, rules={"/x/arr": "right"})
    exp = {"x": {"arr": [2]}, "y": {"arr": [1, 2]}}
    obs = observed_of(res)
    return show(
        "[rules] /x/arr = right also replaces /y/arr",
        "per-path rule applies to the named path only",
        lhs, rhs, "rules={/x/arr: right}; default arrays=all", exp, obs,
        obs != exp)


@case
def scalar_rule_leaks_to_equal_sibling():
    # CLAUSE VIOLATED: "right-hand scalars override" (for /y/k no rule says
    # otherwise) + per-path rules.  Same cause as above, Scalar flavour.
    lhs = "x: {k: 1}\ny: {k: 1}\n"
    rhs = "x: {k: 2}\ny: {k: 2}\n"
    res = merge(lhs, rhs, rules={"/x/k": "left"})
    exp = {"x": {"k": 1}, "y": {"k": 2}}
    obs = observed_of(res)
    return show(
        "[rules] /x/k = left also keeps the left-hand /y/k",
        "right-hand scalars override unless a rule names that path",
        lhs, rhs, "rules={/x/k: left}", exp, obs, obs != exp)


@case
def identity_key_leaks_to_equal_sibling():
    # CLAUSE VIOLATED: "array-of-hashes ... deep by identity key ... per-path
    # rule/key overrides".  [keys] names /a only, so /b must use its first
    # key (v) as identity: the b-records share v=1 and must be merged.
    lhs = "a: [{v: 0, name: x}]\nb: [{v: 1, name: y}]\n"
    rhs = "a: [{v: 1, name: x}]\nb: [{v: 1, name: x}]\n"
    res = merge(lhs, rhs, aoh="deep", keys={"/a": "name"})
    exp = {"a": [{"v": 1, "name": "x"}], "b": [{"v": 1, "name": "x"}]}
    obs = observed_of(res)
    return show(
        "[keys] /a = name is also used for the equal-looking /b",
        "per-path identity key applies to the named path only",
        lhs, rhs, "aoh=deep keys={/a: name}", exp, obs, obs != exp)


# --------------------------------------------------------------------------
# 3. per-path rule silently ignored because of how the INI file is read
# --------------------------------------------------------------------------
@case
def rule_path_with_uppercase_ignored():
    # CLAUSE VIOLATED: "given ... as per-path rules - the merged document
    # equals the result those policies define".  configparser lower-cases
    # option names, so the rule path /Foo becomes /foo and matches nothing.
    lhs = "Foo: [1]\nfoo: [1]\n"
    rhs = "Foo: [2]\n"
    res = merge(lhs, rhs, rules={"/Foo": "right"})
    exp = {"Foo": [2], "foo": [1]}
    obs = observed_of(res)
    return show(
        "[rules] /Foo = right is ignored (path is lower-cased)",
        "per-path rule must govern the named node",
        lhs, rhs, "rules={/Foo: right}", exp, obs, obs != exp)


@case
def rule_path_with_colon_in_config_file_ignored():
    # CLAUSE VIOLATED: same as above.  In a --config file, configparser also
    # splits at ':'; the code re-joins with '=', turning /a:b into /a=b.
    lhs = "'a:b': [1]\n"
    rhs = "'a:b': [2]\n"
    tmpd = tempfile.mkdtemp(prefix="c05demo")
    cfg = os.path.join(tmpd, "merge.ini")
    with open(cfg, "w", encoding="utf-8") as fhnd:
        fhnd.write("[rules]\n/a:b = right\n")
    res = merge(lhs, rhs, config=cfg)
    os.remove(cfg)
    os.rmdir(tmpd)
    exp = {"a:b": [2]}
    obs = observed_of(res)
    return show(
        "--config [rules] '/a:b = right' is ignored (read as /a=b)",
        "per-path rule must govern the named node",
        lhs, rhs, "config file: [rules] /a:b = right", exp, obs, obs != exp)


# --------------------------------------------------------------------------
# 4. left-hand content lost: keys that came in through a YAML merge key
# --------------------------------------------------------------------------
@case
def lhs_merge_key_content_lost():
    # CLAUSE VIOLATED: "left-hand content not named by the right-hand
    # document keeps its value".  /tgt/p (=1, via <<: *b) is not named by the
    # right-hand document, yet it is deleted from the merged document: it is
    # absent from Merger.data and from the JSON rendering of the result.
    lhs = "base: &b {p: 1}\ntgt:\n  <<: *b\n  q: 2\n"
    rhs = "tgt: {r: 3}\n"
    res = merge(lhs, rhs)
    exp = {"base": {"p": 1}, "tgt": {"p": 1, "q": 2, "r": 3}}
    if res[0] == "ok":
        merger = res[1]
        in_memory_has_p = "p" in merger.data["tgt"]
        merger.prepare_for_dump(
            Parsers.get_yaml_editor(), "result.json")
        obs = json.loads(json.dumps(Parsers.jsonify_yaml_data(merger.data)))
        obs_txt = "JSON result {} ; 'p' in Merger.data['tgt'] -> {}".format(
            obs, in_memory_has_p)
        violated = obs != exp or not in_memory_has_p
    else:
        obs_txt = observed_of(res)
        violated = True
    return show(
        "left-hand Hash with '<<' loses the merged-in keys (JSON output)",
        "left-hand content not named by the right keeps its value",
        lhs, rhs, "defaults; result rendered as JSON", exp, obs_txt, violated)


# --------------------------------------------------------------------------
# 5. right-hand content lost: keys that come in through a YAML merge key
# --------------------------------------------------------------------------
@case
def rhs_root_merge_key_dropped():
    # CLAUSE VIOLATED: "hashes combine per key".  The right-hand document has
    # the key p (=1, via <<: *d at its root); the merged document has no p.
    lhs = "a: 1\n"
    rhs = "defs: &d {p: 1}\n<<: *d\nq: 2\n"
    res = merge(lhs, rhs)
    exp = {"a": 1, "defs": {"p": 1}, "p": 1, "q": 2}
    obs = observed_of(res)
    return show(
        "right-hand root-level '<<' keys are dropped",
        "hashes combine per key (every right-hand key arrives)",
        lhs, rhs, "defaults", exp, obs, obs != exp)


@case
def rhs_aoh_record_merge_key_dropped():
    # CLAUSE VIOLATED: "array-of-hashes ... deep by identity key" + "hashes
    # combine per key".  The right-hand record id=1 carries p=1 via '<<'; the
    # matching left-hand record does not receive it.
    lhs = "a:\n- {id: 1, v: 0}\n"
    rhs = "d: &d {p: 1}\na:\n- id: 1\n  <<: *d\n"
    res = merge(lhs, rhs, aoh="deep")
    exp = {"a": [{"id": 1, "v": 0, "p": 1}], "d": {"p": 1}}
    obs = observed_of(res)
    return show(
        "AoH deep: '<<' keys of a right-hand record are dropped",
        "hashes combine per key inside deeply merged records",
        lhs, rhs, "aoh=deep", exp, obs, obs != exp)


@case
def rhs_merge_key_value_does_not_override():
    # CLAUSE VIOLATED: "right-hand scalars override".  Right-hand /t/p is 1
    # (via '<<'); the merged document keeps the left-hand 5.  (Lower
    # confidence: the project's tests only fix the '<<: [*lhs, *rhs]' layout
    # for non-conflicting keys.)
    lhs = "t: {p: 5}\n"
    rhs = "d: &d {p: 1}\nt:\n  <<: *d\n"
    res = merge(lhs, rhs)
    exp = {"t": {"p": 1}, "d": {"p": 1}}
    obs = observed_of(res)
    return show(
        "right-hand value arriving through '<<' does not override",
        "right-hand scalars override",
        lhs, rhs, "defaults", exp, obs, obs != exp)


# --------------------------------------------------------------------------
# 6. distinct YAML values conflated by Python's 1 == True == 1.0
# --------------------------------------------------------------------------
@case
def unique_arrays_conflate_int_and_bool():
    # CLAUSE VIOLATED: "arrays ... de-duplicate" / "left-hand content ...
    # keeps its value".  1 and true (0 and false) are different YAML values;
    # arrays=unique must keep all four.  The left-hand 1 and 0 are replaced.
    lhs = "a: [1, 0]\n"
    rhs = "a: [true, false]\n"
    res = merge(lhs, rhs, arrays="unique")
    exp = {"a": [1, 0, True, False]}
    obs = observed_of(res)
    return show(
        "arrays=unique treats 1/true and 0/false as duplicates",
        "de-duplication removes equal values only; left values are kept",
        lhs, rhs, "arrays=unique", repr(exp), repr(obs),
        repr(obs) != repr(exp))


@case
def hash_keys_conflate_int_and_bool():
    # CLAUSE VIOLATED: "hashes combine per key" / "left-hand content not
    # named by the right-hand document keeps its value".  The right-hand
    # document names the key true, not the key 1.
    lhs = "h: {1: a}\n"
    rhs = "h: {true: b}\n"
    res = merge(lhs, rhs)
    exp = {"h": {1: "a", True: "b"}}
    obs = observed_of(res)
    return show(
        "Hash keys 1 and true are treated as the same key",
        "hashes combine per key",
        lhs, rhs, "defaults", "{'h': {1: 'a', True: 'b'}} (two keys)",
        repr(obs), not (isinstance(obs, dict) and len(obs["h"]) == 2))


@case
def anchor_conflict_unnoticed_int_vs_bool():
    # CLAUSE VIOLATED: "left-hand content not named by the right-hand
    # document keeps its value".  The right-hand document only names c; its
    # anchor &x (true) differs from the left-hand &x (1), which under the
    # default anchors=stop is a conflict (MergeException).  Instead the
    # anchors are deemed identical and the left-hand a and b become true.
    lhs = "a: &x 1\nb: *x\n"
    rhs = "c: &x true\n"
    res = merge(lhs, rhs)
    obs = observed_of(res)
    ok = res[0] == "merge-error" or (
        isinstance(obs, dict) and obs.get("a") is not True
        and obs.get("a") == 1)
    return show(
        "anchor &x 1 vs &x true: no conflict seen, left-hand values change",
        "left content keeps its value (or the anchor conflict is an error)",
        lhs, rhs, "defaults (anchors=stop)",
        "MergeException (anchor conflict), or a=1, b=1, c=true",
        repr(obs), not ok)


# --------------------------------------------------------------------------
# 7. arrays=unique does not de-duplicate what the right-hand side brings
# --------------------------------------------------------------------------
@case
def unique_arrays_keep_rhs_duplicates():
    # CLAUSE VIOLATED (lower confidence): "arrays concatenate /
    # de-duplicate".  Only membership in the ORIGINAL left-hand list is
    # tested, so a value repeated in the right-hand list is appended twice.
    lhs = "a: [1]\n"
    rhs = "a: [4, 4]\n"
    res = merge(lhs, rhs, arrays="unique")
    exp = {"a": [1, 4]}
    obs = observed_of(res)
    return show(
        "arrays=unique appends a repeated right-hand value twice",
        "arrays de-duplicate under the unique policy",
        lhs, rhs, "arrays=unique", exp, obs, obs != exp)


def main():
    violations = 0
    for func in CASES:
        try:
            if func():
                violations += 1
        except Exception as ex:  # pylint: disable=broad-except
            print("CASE {} could not be evaluated: {}: {}".format(
                func.__name__, type(ex).__name__, ex))
            violations += 1
    print("=" * 78)
    print("{} of {} cases violate the property".format(
        violations, len(CASES)))
    return 1 if violations else 0


if __name__ == "__main__":
    sys.exit(main())
