#!/usr/bin/env python
"""
Stand-alone demonstration of violations of the property

  "Path text and parsed segments round-trip in both notations"

Run as:  cd /tmp/wt7-C08 && PYTHONPATH=/tmp/wt7-C08 /venv/bin/python demo.py
Uses only the public yamlpath library API.  Exits 1 when at least one case
violates the property, 0 otherwise.
"""
import sys

from yamlpath import YAMLPath
from yamlpath.enums import PathSeparators
from yamlpath.path import SearchTerms, SearchKeywordTerms, CollectorTerms

DOT = PathSeparators.DOT
FSLASH = PathSeparators.FSLASH


def norm(segments):
    """Reduce parsed segments to plain, comparable, printable data."""
    out = []
    for seg_type, attrs in segments:
        if isinstance(attrs, SearchTerms):
            out.append((seg_type.name, attrs.inverted, attrs.method.name,
                        attrs.attribute, attrs.term))
        elif isinstance(attrs, SearchKeywordTerms):
            out.append((seg_type.name, attrs.inverted, attrs.keyword.name,
                        tuple(attrs.parameters)))
        elif isinstance(attrs, CollectorTerms):
            out.append((seg_type.name, attrs.operation.name,
                        tuple(norm(YAMLPath(attrs.expression).escaped))))
        else:
            out.append((seg_type.name, attrs))
    return out


def parse(text):
    """Parse text; give the segments or a string describing the error."""
    try:
        return norm(YAMLPath(text).escaped)
    except Exception as ex:  # pylint: disable=broad-except
        return "RAISED {}: {}".format(type(ex).__name__, str(ex)[:90])


VIOLATIONS = []


def report(label, inputs, demanded, observed, violated):
    print("=" * 78)
    print("CASE", label)
    print("  input    :", inputs)
    print("  demanded :", demanded)
    print("  observed :", observed)
    print("  verdict  :", "VIOLATION" if violated else "ok")
    if violated:
        VIOLATIONS.append(label)


# ---------------------------------------------------------------------------
# Case 1.  Clauses violated:  "The canonical string of a parsed path re-parses
# to the same segments in either notation" and "two paths compare equal
# exactly when their segments are equal".
# Asking for the other notation (the only public way: the `separator` setter,
# documented as "This only affects __str__") makes the not-yet-computed
# `escaped` segments be parsed from the ORIGINAL text with the NEW separator.
# ---------------------------------------------------------------------------
def case_1():
    for text, newsep in (("a.b", FSLASH), ("/a/b", DOT)):
        want = parse(text)
        path = YAMLPath(text)
        path.separator = newsep
        canon = str(path)
        got = norm(path.escaped)
        same_as_fresh = (path == YAMLPath(text))
        report(
            "1 ({} -> {})".format(text, newsep.name),
            "p = YAMLPath({!r}); p.separator = {}; p.escaped".format(
                text, newsep.name),
            "p.escaped == {} == segments of str(p)={!r}; and (p == "
            "YAMLPath({!r})) only if the segments are equal".format(
                want, canon, text),
            "p.escaped = {}, len(p) = {}, segments of str(p) = {}, "
            "p == YAMLPath({!r}) is {}".format(
                got, len(path), parse(canon), text, same_as_fresh),
            got != want or got != parse(canon))


# ---------------------------------------------------------------------------
# Case 2.  Clause violated:  "The canonical string of a parsed path re-parses
# to the same segments in either notation" (boundary: the zero-segment path).
# ---------------------------------------------------------------------------
def case_2():
    text = "/"
    want = parse(text)
    path = YAMLPath(text)
    _ = path.escaped        # even with the segments already computed
    path.separator = DOT
    canon = str(path)
    report(
        "2 (root path '/' in dot notation)",
        "p = YAMLPath('/'); p.escaped; p.separator = DOT; str(p)",
        "a string which parses to {} (no segments), e.g. ''".format(want),
        "str(p) = {!r} which parses to {}; p.escaped is now {}".format(
            canon, parse(canon), norm(path.escaped)),
        parse(canon) != want)


# ---------------------------------------------------------------------------
# Case 3.  Clause violated:  "appending a segment then popping it restores
# the path" (sequence: switch notation, append, pop).
# ---------------------------------------------------------------------------
def case_3():
    for text, newsep in (("a.b", FSLASH), ("/a/b", DOT)):
        want = parse(text)
        path = YAMLPath(text)
        _ = path.escaped
        path.separator = newsep
        path.append("c")
        mid = norm(path.escaped)
        mid_original = path.original
        popped = path.pop()
        after = norm(path.escaped)
        report(
            "3 ({} shown as {}, append 'c', pop)".format(text, newsep.name),
            "p = YAMLPath({!r}); p.separator = {}; p.append('c'); p.pop()"
            .format(text, newsep.name),
            "after append: {} + [('KEY', 'c')]; pop gives ('KEY', 'c'); "
            "afterwards the segments are {} again".format(want, want),
            "after append: original={!r} segments={}; popped {}; afterwards "
            "{}".format(mid_original, mid, (popped[0].name, popped[1]),
                        after),
            after != want)


# ---------------------------------------------------------------------------
# Case 4.  Clause violated:  "Writing any well-formed sequence of segments as
# text ... and parsing it gives back exactly those segments (... search
# term ..., collector operator and inner path)".
# A regular-expression search keeps its white-space and quotation marks at
# the top level but not when the same segment stands inside a Collector.
# ---------------------------------------------------------------------------
def case_4():
    seg = "[a=~/x y/]"
    top = parse(seg)
    inside = parse("(" + seg + ")")
    report(
        "4a (regex term with a space inside a Collector)",
        "YAMLPath('({})')".format(seg),
        "COLLECTOR whose inner path is {} (what {!r} parses to alone)".format(
            top, seg),
        "{}".format(inside),
        isinstance(inside, str) or list(inside[0][2]) != top)

    seg = "[a=~/'/]"
    top = parse(seg)
    inside = parse("(" + seg + ")")
    report(
        "4b (regex term with a quotation mark inside a Collector)",
        "YAMLPath(\"({})\")".format(seg),
        "COLLECTOR whose inner path is {}".format(top),
        "{}".format(inside),
        isinstance(inside, str) or list(inside[0][2]) != top)


# ---------------------------------------------------------------------------
# Case 5.  Clause violated:  "The canonical string of a parsed path re-parses
# to the same segments in either notation".
# A wildcard key whose literal part carries an escaped special character:
# the segments hold the unescaped text but the canonical string is built
# from the still-escaped text, and nothing unescapes a regular expression.
# ---------------------------------------------------------------------------
def case_5():
    for text in (r"a\ b*c", r"/x/a\.b*c"):
        want = parse(text)
        for sep in (DOT, FSLASH):
            path = YAMLPath(text)
            _ = path.escaped
            path.separator = sep
            canon = str(path)
            got = parse(canon)
            report(
                "5 ({} -> {})".format(text, sep.name),
                "str(YAMLPath({!r})) in {} notation, parsed again".format(
                    text, sep.name),
                "{}".format(want),
                "canonical string {!r} parses to {}".format(canon, got),
                got != want)


# ---------------------------------------------------------------------------
# Case 6.  Clause violated:  "Writing ... with the documented escapes and
# demarcation, and parsing it gives back exactly those segments".
# README: "Demarcate and/or escape expression operands"; demarcation for
# Hash keys.  Brackets and an opening parenthesis are not protected by the
# quotation marks although every other special character is.
# ---------------------------------------------------------------------------
def case_6():
    for text, want in (
        ('[k="a(b"]', [("SEARCH", False, "EQUALS", "k", "a(b")]),
        ("[k='a]b']", [("SEARCH", False, "EQUALS", "k", "a]b")]),
        ('[k="a[b"]', [("SEARCH", False, "EQUALS", "k", "a[b")]),
        ("x.'a(b'", [("KEY", "x"), ("KEY", "a(b")]),
        ("x.'a]b'", [("KEY", "x"), ("KEY", "a]b")]),
    ):
        got = parse(text)
        report(
            "6 ({})".format(text),
            "YAMLPath({!r})".format(text),
            "{} (as for [k=\"a)b\"] -> {})".format(
                want, parse('[k="a)b"]')),
            "{}".format(got),
            got != want)


# ---------------------------------------------------------------------------
# Case 7.  Clause violated:  "The canonical string of a parsed path re-parses
# to the same segments in either notation" (anchor name).
# An Anchor name holding the OTHER notation's separator is not escaped when
# the path is shown in that notation.
# ---------------------------------------------------------------------------
def case_7():
    for text, sep in (("&a/b.c", FSLASH), ("/&a.b/c", DOT)):
        want = parse(text)
        path = YAMLPath(text)
        _ = path.escaped
        path.separator = sep
        canon = str(path)
        got = parse(canon)
        report(
            "7 ({} -> {})".format(text, sep.name),
            "str(YAMLPath({!r})) in {} notation, parsed again".format(
                text, sep.name),
            "{}".format(want),
            "canonical string {!r} parses to {}".format(canon, got),
            got != want)


# ---------------------------------------------------------------------------
# Case 8 (adjacent to the clause "appending a segment then popping it
# restores the path":  pop() alone, on a parsed path).  A bracketed last
# segment which follows a key ending in an ESCAPED separator:  pop() takes
# the escaped separator for the real one and removes it as well.
# ---------------------------------------------------------------------------
def case_8():
    for text in (r"a\.[0]", r"/a\/[0]"):
        want = parse(text)[:-1]
        path = YAMLPath(text)
        popped = path.pop()
        got = parse(path.original)
        report(
            "8 (pop of {})".format(text),
            "p = YAMLPath({!r}); p.pop()".format(text),
            "popped ('INDEX', 0); remaining segments {}".format(want),
            "popped {}; remaining original {!r} -> segments {}".format(
                (popped[0].name, popped[1]), path.original, got),
            got != want)


def main():
    for case in (case_1, case_2, case_3, case_4, case_5, case_6, case_7,
                 case_8):
        case()
    print("=" * 78)
    print("{} violating case(s): {}".format(
        len(VIOLATIONS), ", ".join(VIOLATIONS) if VIOLATIONS else "none"))
    return 1 if VIOLATIONS else 0


if __name__ == "__main__":
    sys.exit(main())
