#!/usr/bin/env python
"""
Review demo for the property

  "Anchor conflicts in a merge follow the chosen policy and the result reloads"

Run as:  cd /tmp/wt7-C10 && PYTHONPATH=/tmp/wt7-C10 /venv/bin/python demo.py

Every case builds its own two YAML documents, merges them with the public
library API (yamlpath.merger.Merger / MergerConfig, the very calls the
yaml-merge command makes), dumps the result with the project's own YAML
editor, reloads the dump and compares what the property demands with what
happened.  Exit status is 1 when at least one case violates the property.
"""
import io
import sys
import warnings
from types import SimpleNamespace

from yamlpath.common import Parsers
from yamlpath.wrappers import ConsolePrinter
from yamlpath.merger import Merger, MergerConfig
from yamlpath.merger.exceptions import MergeException


def typed(node):
    """Plain, type-exact picture of loaded data (true != 1 != 1.0 here)."""
    if isinstance(node, dict):
        return {typed(k) if not isinstance(k, str) else str(k): typed(v)
                for k, v in node.items()}
    if isinstance(node, (set, frozenset)) or type(node).__name__ == "CommentedSet":
        return ("set", sorted(repr(typed(e)) for e in node))
    if isinstance(node, list):
        return [typed(e) for e in node]
    if node is None:
        return None
    if isinstance(node, bool) or type(node).__name__ == "ScalarBoolean":
        return ("bool", bool(node))
    if isinstance(node, int):
        return ("int", int(node))
    if isinstance(node, float):
        return ("float", float(node))
    return str(node)


def merge(docs, policy, **opts):
    """Merge YAML texts left to right; dump; reload."""
    log = ConsolePrinter(SimpleNamespace(debug=False, verbose=False, quiet=True))
    cfg = MergerConfig(log, SimpleNamespace(anchors=policy, **opts))
    datas = [Parsers.get_yaml_editor().load(text) for text in docs]
    merger = Merger(log, datas[0], cfg)
    try:
        for rhs in datas[1:]:
            merger.merge_with(rhs)
    except MergeException as ex:
        return {"status": "refused", "why": str(ex)}
    computed = typed(merger.data)
    writer = Parsers.get_yaml_editor()
    merger.prepare_for_dump(writer)
    buf = io.StringIO()
    writer.dump(merger.data, buf)
    text = buf.getvalue()
    out = {"status": "accepted", "computed": computed, "text": text,
           "warnings": [], "reloaded": None, "reload_error": None}
    with warnings.catch_warnings(record=True) as caught:
        warnings.simplefilter("always")
        try:
            out["reloaded"] = typed(Parsers.get_yaml_editor().load(text))
        except Exception as ex:  # pylint: disable=broad-except
            out["reload_error"] = repr(ex)
    out["warnings"] = [
        " ".join(str(w.message).split())[:70] for w in caught]
    return out


VIOLATIONS = []


def report(label, docs, policy, opts, demand, res, violated, observed):
    print("=" * 72)
    print("CASE {}   (anchors={}{})".format(
        label, policy, "".join(", {}={}".format(k, v) for k, v in opts.items())))
    for name, text in zip(("LEFT ", "RIGHT", "THIRD"), docs):
        print("  {} document:".format(name))
        for line in text.rstrip("\n").split("\n"):
            print("      " + line)
    print("  property demands: " + demand)
    if res["status"] == "refused":
        print("  code did        : REFUSED the merge ({})".format(res["why"]))
    else:
        print("  code did        : ACCEPTED; serialized result:")
        for line in res["text"].rstrip("\n").split("\n"):
            print("      " + line)
        if res["warnings"]:
            print("  reload warnings : {}".format(res["warnings"]))
        if res["reload_error"]:
            print("  reload error    : {}".format(res["reload_error"]))
    print("  observed        : " + observed)
    print("  verdict         : " + ("VIOLATION" if violated else "ok"))
    if violated:
        VIOLATIONS.append(label)


def get(res, key):
    if res["status"] != "accepted" or res["reloaded"] is None:
        return "<none>"
    return res["reloaded"].get(key, "<absent>")


# ---------------------------------------------------------------------------
# Group 1 -- same anchor name, DIFFERENT values which merely compare equal in
# Python (true == 1 == 1.0).  Merger._resolve_anchor_conflicts decides
# "conflict or not" with `lhs_anchor == rhs_anchor`, so the pair is taken for
# "equal" and the left node is silently overwritten by the right one under
# EVERY policy.
# ---------------------------------------------------------------------------
L1 = "a: &x true\nb: *x\n"
R1 = "c: &x 1\nd: *x\n"

# Clause violated: "'stop' refuses the merge" (different values: true vs 1)
res = merge([L1, R1], "stop")
report("1a  true-vs-1 / stop", [L1, R1], "stop", {},
       "refuse: both define &x, with different values (boolean true, integer 1)",
       res, res["status"] != "refused",
       "accepted; a={} b={} (were true)".format(get(res, "a"), get(res, "b")))

# Clause violated: "'left' makes every alias of that name read the left value"
res = merge([L1, R1], "left")
want = ("bool", True)
bad = any(get(res, k) != want for k in "abcd")
report("1b  true-vs-1 / left", [L1, R1], "left", {},
       "a, b, c, d all read the left value: true",
       res, bad,
       "a={} b={} c={} d={}".format(*(get(res, k) for k in "abcd")))

# Clause violated: "'rename' keeps both values"
res = merge([L1, R1], "rename")
bad = not (get(res, "a") == get(res, "b") == ("bool", True)
           and get(res, "c") == get(res, "d") == ("int", 1))
report("1c  true-vs-1 / rename", [L1, R1], "rename", {},
       "a, b keep true; c, d keep 1 (right anchor renamed)",
       res, bad,
       "a={} b={} c={} d={}".format(*(get(res, k) for k in "abcd")))

# Same thing, and the left-hand value changes although the merge policy
# (hashes=left) keeps nothing at all from the right-hand document.
# Clause violated: "'left' ... read the left value"
res = merge([L1, R1], "left", hashes="left")
bad = not get(res, "a") == get(res, "b") == ("bool", True)
report("1d  true-vs-1 / left, hashes=left", [L1, R1], "left", {"hashes": "left"},
       "a, b read the left value: true",
       res, bad, "a={} b={}".format(get(res, "a"), get(res, "b")))

# Integer against float: 1 vs 1.0 (different YAML values: !!int vs !!float)
L1E = "a: &x 1\nb: *x\n"
R1E = "c: &x 1.0\nd: *x\n"
# Clause violated: "'stop' refuses the merge"
res = merge([L1E, R1E], "stop")
report("1e  1-vs-1.0 / stop", [L1E, R1E], "stop", {},
       "refuse: &x is the integer 1 on the left, the float 1.0 on the right",
       res, res["status"] != "refused",
       "accepted; a={} b={} (were int 1)".format(get(res, "a"), get(res, "b")))
# Clause violated: "'rename' keeps both values"
res = merge([L1E, R1E], "rename")
bad = not (get(res, "a") == get(res, "b") == ("int", 1)
           and get(res, "c") == get(res, "d") == ("float", 1.0))
report("1f  1-vs-1.0 / rename", [L1E, R1E], "rename", {},
       "a, b keep the integer 1; c, d keep the float 1.0",
       res, bad,
       "a={} b={} c={} d={}".format(*(get(res, k) for k in "abcd")))

# ---------------------------------------------------------------------------
# Group 2 -- an anchor on the scalar 0 (or on null) is dropped when the
# document is loaded, so the conflict is never seen.
# ---------------------------------------------------------------------------
L2 = "a: &x 0\nb: *x\n"
R2 = "c: &x 5\nd: *x\n"
# Clause violated: "'stop' refuses the merge"
res = merge([L2, R2], "stop")
report("2a  anchor on 0 / stop", [L2, R2], "stop", {},
       "refuse: &x is 0 on the left and 5 on the right",
       res, res["status"] != "refused", "accepted")
# Clause violated: "'right' [makes every alias of that name read] the right value"
res = merge([L2, R2], "right")
bad = any(get(res, k) != ("int", 5) for k in "abcd")
report("2b  anchor on 0 / right", [L2, R2], "right", {},
       "a, b, c, d all read the right value: 5",
       res, bad,
       "a={} b={} c={} d={}".format(*(get(res, k) for k in "abcd")))
# Clause violated: "'left' makes every alias ... read the left value"
L2N = "a: &x ~\nb: *x\n"
res = merge([L2N, R2], "left")
bad = any(get(res, k) is not None for k in "abcd")
report("2c  anchor on null / left", [L2N, R2], "left", {},
       "a, b, c, d all read the left value: null",
       res, bad,
       "a={} b={} c={} d={}".format(*(get(res, k) for k in "abcd")))

# ---------------------------------------------------------------------------
# Group 3 -- the right-hand document is a single anchored scalar (merged into
# a left-hand sequence).  Anchors.replace_anchor() only walks maps and
# sequences, so under 'left' the right-hand root node is never replaced.
# ---------------------------------------------------------------------------
L3 = "- &x 1\n- *x\n"
R3 = "&x 2\n"
# Clauses violated: "'left' ... read the left value" AND "serializes to YAML
# with no duplicate ... anchor"
res = merge([L3, R3], "left")
dup = any("duplicate anchor" in w for w in (res.get("warnings") or []))
vals = res.get("reloaded")
bad = dup or vals != [("int", 1)] * 3
report("3   scalar right-hand document / left", [L3, R3], "left", {},
       "result [1, 1, 1] with ONE definition of &x",
       res, bad,
       "reloaded={} duplicate-anchor-warning={}".format(vals, dup))

# ---------------------------------------------------------------------------
# Group 4 -- aliases used as mapping keys, the two documents having the values
# of &x and &y the other way round.  Anchors.replace_anchor() re-keys the map
# one anchor at a time; the first re-keyed entry lands on the not-yet-re-keyed
# other entry and one of them is lost.
# ---------------------------------------------------------------------------
L4 = "a: &x foo\nb: &y bar\n"
R4 = "a: &x bar\nb: &y foo\nk:\n  *x : 1\n  *y : 2\n"
# Clause violated: "'left' makes every alias of that name read the left value"
# (the alias *y at key position is gone altogether, and 1 is lost)
res = merge([L4, R4], "left")
want = {"foo": ("int", 1), "bar": ("int", 2)}
report("4   alias keys, swapped values / left", [L4, R4], "left", {},
       "k = {foo: 1, bar: 2}  (*x reads foo, *y reads bar)",
       res, get(res, "k") != want, "k={}".format(get(res, "k")))

# ---------------------------------------------------------------------------
# Group 5 -- the right-hand anchor is defined on a member of a YAML set.
# Anchors.scan_for_anchors() does not look into sets: no conflict is seen.
# ---------------------------------------------------------------------------
L5 = "a: &x 2.5\n"
R5 = "s: !!set\n  ? &x foo\n  ? bar\n"
# Clause violated: "'stop' refuses the merge" AND "no duplicate ... anchor"
res = merge([L5, R5], "stop")
dup = any("duplicate anchor" in w for w in (res.get("warnings") or []))
report("5   anchor defined on a set member / stop", [L5, R5], "stop", {},
       "refuse (&x is 2.5 on the left, foo on the right)",
       res, res["status"] != "refused",
       "accepted; duplicate-anchor-warning on reload={}".format(dup))

print("=" * 72)
print("{} violating case(s): {}".format(len(VIOLATIONS), ", ".join(VIOLATIONS)))
sys.exit(1 if VIOLATIONS else 0)
