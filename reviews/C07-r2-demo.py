#!/usr/bin/env python
"""
Demonstrations against the property

  "yaml-paths search is sound and complete, and every printed path resolves"

Run as:  cd /tmp/wt7-C07 && PYTHONPATH=/tmp/wt7-C07 /venv/bin/python demo.py

Only public entry points are used:
  * yamlpath.commands.yaml_paths.main()  (the yaml-paths command)
  * yamlpath.Processor.get_nodes()       (to feed each printed path back in)

Exit status:  1 when at least one case violates the property, else 0.
"""
import contextlib
import io
import os
import sys
import tempfile
from types import SimpleNamespace

from yamlpath import Processor, YAMLPath
from yamlpath.commands import yaml_paths
from yamlpath.common import Parsers
from yamlpath.exceptions import YAMLPathException
from yamlpath.wrappers import ConsolePrinter


def _tmp(doc):
    handle = tempfile.NamedTemporaryFile(
        "w", suffix=".yaml", delete=False, encoding="utf-8")
    handle.write(doc)
    handle.close()
    return handle.name


def search(doc, *opts):
    """Run yaml-paths over doc; return (exit, [printed paths], stderr)."""
    name = _tmp(doc)
    argv = ["yaml-paths", "--nostdin", "--nofile"] + list(opts) + [name]
    out, err = io.StringIO(), io.StringIO()
    old_argv = sys.argv
    sys.argv = argv
    code = 0
    try:
        with contextlib.redirect_stdout(out), contextlib.redirect_stderr(err):
            try:
                yaml_paths.main()
            except SystemExit as ex:
                code = ex.code
            except Exception as ex:  # pylint: disable=broad-except
                code = "CRASH {}: {}".format(type(ex).__name__, ex)
    finally:
        sys.argv = old_argv
        os.unlink(name)
    return code, out.getvalue().splitlines(), err.getvalue().strip()


def resolve(doc, path, notation):
    """Feed a printed path back into a query on the same document."""
    log = ConsolePrinter(
        SimpleNamespace(quiet=True, verbose=False, debug=False))
    name = _tmp(doc)
    try:
        data = None
        for (data, loaded) in Parsers.get_yaml_multidoc_data(
                Parsers.get_yaml_editor(), log, name):
            break
    finally:
        os.unlink(name)
    proc = Processor(log, data)
    try:
        return [
            "{!r} @ {}".format(nc.node, nc.path)
            for nc in proc.get_nodes(
                YAMLPath(path, notation), mustexist=True)]
    except YAMLPathException as ex:
        return "UNRESOLVABLE ({})".format(str(ex).split(",")[0])


VIOLATIONS = []


def case(label, clause, doc, opts, expected_paths, note, notation=".",
         expect_node=None):
    """
    Run one case.

    expected_paths: the exact list of paths the property demands, or None
    when only path resolution is being judged.  Every printed path is also fed
    back and must resolve to exactly one node.
    """
    code, lines, err = search(doc, "-t", notation, *opts)
    print("=" * 78)
    print("CASE {}".format(label))
    print("  clause violated : {}".format(clause))
    print("  document        :")
    for line in doc.splitlines():
        print("      | " + line)
    print("  command         : yaml-paths -t {} {}".format(
        notation, " ".join(opts)))
    print("  property demands: {}".format(note))
    if expected_paths is not None:
        print("  expected paths  : {}".format(expected_paths))
    print("  exit / printed  : {} / {}".format(code, lines))
    if err:
        print("  stderr          : {}".format(err[:200]))
    bad = False
    if isinstance(code, str):
        bad = True
        print("  -> the command died of an unhandled exception; the matching"
              " nodes were never reported")
    if expected_paths is not None and sorted(lines) != sorted(expected_paths):
        bad = True
        print("  -> result set differs from what the property demands")
    for line in lines:
        res = resolve(doc, line, notation)
        print("  feed back {!r:22} -> {}".format(line, res))
        if not (isinstance(res, list) and len(res) == 1):
            bad = True
            print("  -> printed path does not resolve to exactly one node")
        elif expect_node is not None and not res[0].startswith(expect_node):
            bad = True
            print("  -> printed path resolves to a node other than the match")
    print("  VERDICT         : {}".format(
        "VIOLATION" if bad else "ok (no violation)"))
    if bad:
        VIOLATIONS.append(label)


# ---------------------------------------------------------------------------
# 1. Soundness ("... and for nothing else"):  with value aliases allowed but
#    WITHOUT --refnames, a YAML Merge Key reference is reported whenever the
#    NAME of the merged anchor satisfies the expression.  No key and no value
#    in the document is "b".
case(
    "01 merge-key anchor NAME is searched although --refnames is off (-y)",
    "soundness: a path is reported for something that is neither a value"
    " nor a key satisfying the expression",
    "base: &b\n  k: v\nchild:\n  <<: *b\n  own: w\n",
    ["-y", "-s", "=b"], [],
    "nothing: no value (and no key) equals 'b'; anchor names are searched"
    " only with -a/--refnames")

# 1b. Same code path, and the merged anchor is identified by EQUALITY of
#     content, so an anchor which `child` never merges is reported, too.
case(
    "01b merge-key report names an anchor the Hash does not even merge (-l)",
    "soundness: reported path is for nothing that matched",
    "base: &b\n  k: v\nother: &o\n  k: v\nchild:\n  <<: *b\n",
    ["-l", "-s", "=o"], [],
    "nothing: no value equals 'o' (and child merges *b, not *o)")

# ---------------------------------------------------------------------------
# 2. Completeness with key-name search on:  once a key matches, nothing
#    beneath it is searched, so matching values and keys below are lost.
case(
    "02 a matching key hides every matching value/key beneath it (-k)",
    "completeness: 'reports a path for every value (and, when key-name"
    " search is on, every key) that satisfies the expression'",
    "a:\n  b: a\n  a: x\nc:\n  - a\n",
    ["-k", "-s", "=a"], ["a", "a.b", "a.a", "c[0]"],
    "key a, value a.b ('a'), key a.a, and element c[0]")

# ---------------------------------------------------------------------------
# 3. Path resolution with anchors/aliases:  an anchored Array element is
#    printed as [&name]; when an alias of it lives in the same Array, the
#    printed path selects both elements -- even with --anchorsonly.
case(
    "03 anchored element + its alias in one Array: path selects two nodes",
    "resolution: every reported path 'resolves to exactly the one node that"
    " matched'",
    "l:\n  - &e one\n  - *e\n  - two\n",
    ["-A", "-s", "=one"], None,
    "one path for l[0] which resolves to l[0] alone (e.g. l[0])")

case(
    "03b same with aliases asked for (-y): the alias is not counted and the"
    " path is ambiguous",
    "completeness + resolution: aliased repeats are to be counted when the"
    " alias options ask for them, each path resolving to one node",
    "l:\n  - &e one\n  - *e\n  - two\n",
    ["-y", "-s", "=one"], None,
    "two paths, one per element (l[0] and l[1]), each resolving to one node",
    notation="/")

# ---------------------------------------------------------------------------
# 4. Keys spelled like an Anchor reference:  the leading & is not escaped, so
#    the printed path reads as an Anchor segment.  ('\&amp' would resolve.)
case(
    "04 key spelled like an anchor reference is printed unescaped",
    "resolution: printed path must resolve to the matched node",
    '"&amp": one\nzz:\n  "&amp": one\n',
    ["-s", "=one"], None,
    r"paths which resolve, i.e. \&amp and zz.\&amp")

case(
    "04b same in forward-slash notation",
    "resolution: printed path must resolve to the matched node",
    '"&amp": one\nzz:\n  "&amp": one\n',
    ["-s", "=one"], None,
    r"paths which resolve, i.e. /\&amp and /zz/\&amp", notation="/")

# ---------------------------------------------------------------------------
# 5. Keys which contain *:  printed as a wildcard / search segment which
#    selects sibling nodes as well.
case(
    "05 key containing * is printed as a wildcard that also selects siblings",
    "resolution: 'resolves to exactly the one node that matched'",
    '"a*": one\nab: two\n',
    ["-s", "=one"], None,
    "a path selecting only the node under key 'a*'")

case(
    "05b key which is exactly * selects every sibling",
    "resolution: 'resolves to exactly the one node that matched'",
    'm:\n  "*": one\n  x: two\n',
    ["-s", "=one"], None,
    "a path selecting only the node under key '*'", notation="/")

case(
    "05c key containing ** makes the command crash (no results at all)",
    "completeness: matching value is not reported (unhandled exception)",
    'm:\n  "a**b": one\n  x: one\n',
    ["-s", "=one"], None,
    "two resolvable paths, exit 0")

# ---------------------------------------------------------------------------
# 6. The empty-string key:  printed as an empty segment, so the path names
#    the parent Hash instead of the matched value.
case(
    "06 empty-string key: printed path resolves to the parent, not the match",
    "resolution: path must resolve to the one node that matched",
    'zz:\n  "": one\n  x: two\n',
    ["-s", "=one"], None,
    "a path resolving to the scalar 'one'", expect_node="'one' @")

# ---------------------------------------------------------------------------
# 7. A Set which is an element of an Array is never entered (a Set under a
#    Hash key is); under an inverted search the Set itself is reported as if
#    it were a scalar value.
case(
    "07 Set inside an Array is not searched",
    "completeness: every matching value gets a path",
    "s: !!set\n  ? a\nl:\n  - !!set\n    ? a\n",
    ["-s", "=a"], ["s.a", "l[0].a"],
    "s.a and l[0].a (both resolve as queries)")

case(
    "07b ... and with an inverted term the Set itself is reported",
    "soundness/completeness: l[0] is a container, l[0].b is the match",
    "l:\n  - !!set\n    ? a\n    ? b\n",
    ["-s", "!=a"], ["l[0].b"],
    "l[0].b only")

# ---------------------------------------------------------------------------
# 8. Expansion does not descend into Sets.
case(
    "08 --expand leaves a matched parent whose value is a Set unexpanded",
    "expansion: 'a matched parent is replaced by exactly its leaf"
    " descendants'",
    "s: !!set\n  ? a\n  ? b\n",
    ["-K", "-m", "-s", "=s"], ["s.a", "s.b"],
    "s.a and s.b")

# ---------------------------------------------------------------------------
# 9. Expansion of a matched key whose value is an empty Hash/Array prints
#    nothing at all, so the match vanishes (a scalar-valued key is printed).
case(
    "09 --expand makes a matched key with an empty container value vanish",
    "completeness under expansion: a matched node without descendants is"
    " itself the leaf",
    "p:\n  e1: {}\n  e2: []\n  s: x\n",
    ["-K", "-m", "-s", "=~/^(e1|e2|s)$/"], ["p.e1", "p.e2", "p.s"],
    "p.e1, p.e2 and p.s (each is childless, i.e. its own only leaf)")

# ---------------------------------------------------------------------------
# 10. A document whose root is a scalar is not searched at all ('/' resolves).
case(
    "10 scalar-rooted document is never searched",
    "completeness: 'for any document ... reports a path for every value'",
    "--- hello\n",
    ["-s", "=hello"], ["/"],
    "the root path (/ resolves to 'hello')", notation="/")

# ---------------------------------------------------------------------------
# 11. Alias-inclusion modes:  --anchorsonly must drop aliased keys, yet an
#     aliased key (and what is beneath it) is reported unless --refnames is
#     also given.  The same holds for aliased Set members.
case(
    "11 --anchorsonly still reports an aliased KEY",
    "aliases: 'counting aliased repeats of an anchored node only when the"
    " alias options ask for them'",
    "d:\n  &kk kname: zz\nf:\n  *kk : one\n",
    ["-A", "-K", "-s", "=kname"], ["d.kname"],
    "d.kname only (-A: 'discarding all aliased keys and values (including"
    " child nodes)')")

case(
    "11b --anchorsonly still reports the value beneath an aliased key",
    "aliases: aliased repeats only when asked for",
    "d:\n  &kk kname: zz\nf:\n  *kk : one\n",
    ["-A", "-s", "=one"], [],
    "nothing (f.kname sits under an aliased key; -A discards 'child"
    " nodes' of aliased keys)")

# ---------------------------------------------------------------------------
# 12. Term/value alphabet:  values are passed through a Python-literal
#     evaluation before text operators are applied to them.
case(
    "12 text value '1,2' is not found by =1,2",
    "completeness: the value's text equals the term",
    'v: "1,2"\nw: x\n',
    ["-s", "=1,2"], ["v"],
    "v")

case(
    "12b text value '1.10' is not found by $10 (ends-with)",
    "completeness: the value's text ends with the term",
    'v: "1.10"\nw: x\n',
    ["-s", "$10"], ["v"],
    "v")

case(
    "12c value 'abc' wrapped in quote characters is found by =abc",
    "soundness: the 5-character value 'abc' (with quotes) is not abc",
    "q: \"'abc'\"\nplain: abc\n",
    ["-s", "=abc"], ["plain"],
    "plain only")

case(
    "12d text value '0x1F' is found by =31 and not by ^0x",
    "soundness: no value equals 31",
    'h: "0x1F"\nw: x\n',
    ["-s", "=31"], [],
    "nothing")

# ---------------------------------------------------------------------------
# 13. Root-level Set member starting with / in dot notation (the Hash-key
#     branch escapes it, the Set branch does not).
case(
    "13 root Set member starting with / reads as forward-slash notation",
    "resolution: printed path must resolve in the notation it was printed in",
    "--- !!set\n? /x\n? y\n",
    ["-s", "=/x"], None,
    r"\/x (which resolves)")

# ---------------------------------------------------------------------------
# 14. (lower confidence: key types)  Boolean / float / null keys are printed
#     in their Python spelling and cannot be resolved.
case(
    "14 non-text scalar keys (true, 1.5, null) give unresolvable paths",
    "resolution: printed path must resolve",
    "true: one\n1.5: one\nnull: one\n",
    ["-s", "=one"], None,
    "three paths which resolve")

# ---------------------------------------------------------------------------
# 15. (lower confidence)  --anchorsonly + --expand:  a matched key whose value
#     is an alias of a Hash is expanded into the aliased children, although
#     the same children are (rightly) skipped by a plain value search and
#     aliased Array elements are skipped by the very same expansion.
case(
    "15 -A -m expands a matched key into aliased children",
    "aliases: aliased repeats only when the alias options ask for them",
    "a: &x\n  k: 1\nb: *x\n",
    ["-A", "-K", "-m", "-s", "=b"], [],
    "nothing beneath b (b.k is an aliased repeat of a.k; -A discards"
    " aliased values including child nodes)")

print("=" * 78)
print("{} violating case(s):".format(len(VIOLATIONS)))
for item in VIOLATIONS:
    print("  - " + item)
sys.exit(1 if VIOLATIONS else 0)
