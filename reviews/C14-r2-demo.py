#!/usr/bin/env python
"""
Review of the property

  "Parsing any text as a YAML Path ends in segments or a YAML Path error"
  (any string, under auto / dot / slash separator settings, both escaped and
  unescaped parses and stringification:  parsing terminates and either
  produces a segment list or raises YAMLPathException; never any other
  exception type, never a loop).

Run:  cd /tmp/wt7-C14 && PYTHONPATH=/tmp/wt7-C14 /venv/bin/python demo.py

Exit status 1 when at least one COUNTED case violates the property, else 0.
Cases labelled ADJACENT are real misbehaviours seen during the review which
are judged to lie outside the literal property (or, for case 1, which show the
root cause without themselves raising anything); they are shown, not counted.
"""
import contextlib
import io
import sys
import traceback
from types import SimpleNamespace

from yamlpath import Processor, YAMLPath
from yamlpath.common import Parsers
from yamlpath.enums import PathSeparators
from yamlpath.exceptions import YAMLPathException
from yamlpath.wrappers import ConsolePrinter

LOG = ConsolePrinter(SimpleNamespace(quiet=True, verbose=False, debug=False))
VIOLATIONS = []


def load(text):
    return Parsers.get_yaml_editor().load(text)


def seglist(segments):
    return [(stype.name, str(attrs)) for (stype, attrs) in segments]


def report(label, counted, path_input, demanded, observed, violated):
    print("=" * 78)
    print("CASE {} [{}]".format(label, "COUNTED" if counted else "ADJACENT"))
    print("  input    : {}".format(path_input))
    print("  demanded : {}".format(demanded))
    print("  observed : {}".format(observed))
    print("  verdict  : {}".format(
        "VIOLATION" if violated else "ok (no violation reproduced)"))
    if violated and counted:
        VIOLATIONS.append(label)


# ---------------------------------------------------------------------------
# CASE 1  (root cause of cases 2-4; shown, not counted:  no exception is raised
# here, so the literal wording of the property is not broken by it alone)
# Clause concerned:  "under auto, dot and slash separator settings; both
# escaped and unescaped parses" -- one text under one separator setting should
# end in ONE segment list (or a YAMLPathException).  Setting the slash
# separator on a not-yet-parsed path makes the setter parse the unescaped
# form with the OLD (inferred, dot) separator while the escaped form is later
# parsed with the NEW one:  the two parses of the same text disagree even in
# the number of segments.  (The setter's own docstring says it "only affects
# __str__".)
# ---------------------------------------------------------------------------
def case_1():
    text = "a/b"
    path = YAMLPath(text)
    path.separator = PathSeparators.FSLASH
    esc = seglist(path.escaped)
    unesc = seglist(path.unescaped)

    # The very same text and setting, but parsed once before the setter runs
    other = YAMLPath(text)
    _ = other.escaped
    other.separator = PathSeparators.FSLASH
    esc2 = seglist(other.escaped)

    report(
        "1 separator-setter-splits-the-two-parses", False,
        "YAMLPath({!r}); .separator = PathSeparators.FSLASH".format(text),
        "escaped and unescaped parses of one text under one separator setting"
        " describe the same segments (the setter is documented to affect"
        " __str__ only)",
        "escaped={} unescaped={} str={!r}; with .escaped read before the"
        " setter: escaped={}".format(esc, unesc, str(path), esc2),
        len(esc) != len(unesc) or esc != esc2)


# ---------------------------------------------------------------------------
# CASE 2
# Clause violated:  "it never raises any other exception type" (slash
# separator setting).  The documented pathsep= keyword of the public
# Processor.get_nodes() applies the separator through that setter; the
# Processor then walks escaped[] while indexing unescaped[] and dies of an
# IndexError on the perfectly ordinary path text a/b.
# ---------------------------------------------------------------------------
def run_get_nodes(text, sep, mustexist, doc):
    data = load(doc)
    proc = Processor(LOG, data)
    try:
        found = [
            (str(nc.path), nc.node)
            for nc in proc.get_nodes(
                YAMLPath(text), pathsep=sep, mustexist=mustexist)]
        return ("segments/nodes", repr(found))
    except YAMLPathException as ex:
        return ("YAMLPathException", str(ex))
    except Exception as ex:  # pylint: disable=broad-except
        where = traceback.extract_tb(ex.__traceback__)[-1]
        return (type(ex).__name__, "{} ({}:{} {})".format(
            ex, where.filename.split("/")[-1], where.lineno, where.line))


def case_2():
    kind, detail = run_get_nodes(
        "a/b", PathSeparators.FSLASH, True, "a:\n  b: 1\n")
    report(
        "2 get_nodes-slash-separator-IndexError", True,
        "Processor.get_nodes(YAMLPath('a/b'), pathsep=PathSeparators.FSLASH,"
        " mustexist=True) on {a: {b: 1}}",
        "matching nodes, or a YAMLPathException",
        "{}: {}".format(kind, detail),
        kind not in ("segments/nodes", "YAMLPathException"))


# ---------------------------------------------------------------------------
# CASE 3
# Clause violated:  same as case 2, for the dot separator setting applied to
# a text which reads as forward-slash notation (and mustexist=False).
# ---------------------------------------------------------------------------
def case_3():
    kind, detail = run_get_nodes(
        "/a.b", PathSeparators.DOT, False, "a:\n  b: 1\n")
    report(
        "3 get_nodes-dot-separator-IndexError", True,
        "Processor.get_nodes(YAMLPath('/a.b'), pathsep=PathSeparators.DOT,"
        " mustexist=False) on {a: {b: 1}}",
        "matching/created nodes, or a YAMLPathException",
        "{}: {}".format(kind, detail),
        kind not in ("segments/nodes", "YAMLPathException"))


# ---------------------------------------------------------------------------
# CASE 4
# Clause violated:  same as case 2 with wildcard text:  */* under the slash
# setting is two match-all segments when escaped, one RegEx search when
# unescaped.
# ---------------------------------------------------------------------------
def case_4():
    kind, detail = run_get_nodes(
        "*/*", PathSeparators.FSLASH, True, "a:\n  b: 1\n")
    report(
        "4 get_nodes-slash-separator-wildcards-IndexError", True,
        "Processor.get_nodes(YAMLPath('*/*'), pathsep=PathSeparators.FSLASH,"
        " mustexist=True) on {a: {b: 1}}",
        "matching nodes, or a YAMLPathException",
        "{}: {}".format(kind, detail),
        kind not in ("segments/nodes", "YAMLPathException"))


# ---------------------------------------------------------------------------
# ADJACENT A (not counted)
# yaml-paths wraps each --search EXPRESSION as the YAML Path "[*EXPRESSION]"
# and takes the first parsed segment for a search.  The parse itself ends in
# a segment list (so the literal property holds), but for EXPRESSIONs such as
# "=()" or "!:" that segment is a Collector or a slice, and the command dies
# of an AttributeError instead of reporting an invalid expression.
# ---------------------------------------------------------------------------
def adjacent_a():
    from yamlpath.commands.yaml_paths import get_search_term
    for expression in ("=()", "!:"):
        try:
            with contextlib.redirect_stderr(io.StringIO()):
                term = get_search_term(LOG, expression)
            outcome = ("returned", repr(term))
        except SystemExit as ex:
            outcome = ("SystemExit", str(ex.code))
        except Exception as ex:  # pylint: disable=broad-except
            outcome = (type(ex).__name__, str(ex))
        report(
            "A yaml-paths --search {!r}".format(expression), False,
            "yamlpath.commands.yaml_paths.get_search_term(log, {!r})  [what"
            " `yaml-paths --search {!r} FILE` runs]".format(
                expression, expression),
            "a search term, or a logged 'Invalid search expression' error",
            "{}: {}".format(*outcome),
            outcome[0] not in ("returned", "SystemExit"))


def main():
    case_1()
    case_2()
    case_3()
    case_4()
    adjacent_a()
    print("=" * 78)
    print("counted violations: {}".format(len(VIOLATIONS)))
    for label in VIOLATIONS:
        print("  - " + label)
    return 1 if VIOLATIONS else 0


if __name__ == "__main__":
    sys.exit(main())
