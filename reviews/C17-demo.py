#!/usr/bin/env python
"""
Demonstrations against the property

  "A failing or interrupted tool run never loses the user's file"

Run as:  cd /tmp/wt5-C17 && PYTHONPATH=/tmp/wt5-C17 /venv/bin/python demo.py

Every case builds its own inputs in a fresh temporary directory, runs the real
command entry point (yamlpath.commands.<tool>.main, exactly what the console
scripts yaml-set / yaml-merge call) in a child process, and compares the
directory before and after.  Exit status: 1 when at least one case violates
the property, 0 otherwise.
"""
import os
import shutil
import subprocess
import sys
import tempfile

ENTRY = {
    "yaml-set": "yamlpath.commands.yaml_set",
    "yaml-merge": "yamlpath.commands.yaml_merge",
}


def run_tool(tool, argv, cwd):
    code = "import sys; from {} import main; sys.argv[0]={!r}; main()".format(
        ENTRY[tool], tool)
    proc = subprocess.run(
        [sys.executable, "-c", code] + argv, cwd=cwd, input=b"",
        capture_output=True, env=dict(os.environ))
    err = proc.stderr.decode(errors="replace").strip().splitlines()
    return proc.returncode, (err[-1] if err else "")


def snapshot(folder):
    result = {}
    for name in sorted(os.listdir(folder)):
        path = os.path.join(folder, name)
        if os.path.islink(path):
            result[name] = "symlink -> " + os.readlink(path)
        elif os.path.isdir(path):
            result[name] = "<directory>"
        else:
            with open(path, "rb") as fhnd:
                result[name] = fhnd.read()
    return result


def case(label, clause, tool, files, argv, demand, judge, prepare=None):
    """
    Run one case.

    judge(rc, before, after) -> list of violation descriptions (empty = holds)
    """
    folder = tempfile.mkdtemp(prefix="c17-demo-")
    try:
        for name, content in files.items():
            with open(os.path.join(folder, name), "wb") as fhnd:
                fhnd.write(content)
        if prepare:
            prepare(folder)
        before = snapshot(folder)
        (rcode, last_err) = run_tool(tool, argv, folder)
        after = snapshot(folder)
    finally:
        shutil.rmtree(folder, ignore_errors=True)

    problems = judge(rcode, before, after)
    print("=" * 78)
    print("CASE {}".format(label))
    print("  clause   : {}".format(clause))
    print("  files    :")
    for name, content in before.items():
        print("      {:<14} {!r}".format(name, content))
    print("  command  : {} {}".format(tool, " ".join(repr(a) for a in argv)))
    print("  demanded : {}".format(demand))
    print("  observed : exit status {}; last stderr line: {}".format(
        rcode, last_err[:110]))
    for name in sorted(set(before) | set(after)):
        if before.get(name) != after.get(name):
            print("      {:<14} {!r}  ->  {!r}".format(
                name, before.get(name), after.get(name)))
    if not [n for n in set(before) | set(after)
            if before.get(n) != after.get(n)]:
        print("      (no file changed)")
    if problems:
        for problem in problems:
            print("  VIOLATION: {}".format(problem))
    else:
        print("  holds")
    return bool(problems)


def failing_run_leaves_everything_alone(rcode, before, after):
    """Clause 1: non-zero status => target unchanged, nothing new appeared."""
    problems = []
    if rcode == 0:
        return problems     # not a failing run; clause 1 says nothing
    for name in sorted(set(before) | set(after)):
        if name not in before:
            problems.append(
                "the run failed (status {}) yet the file {} appeared"
                .format(rcode, name))
        elif before[name] != after.get(name):
            problems.append(
                "the run failed (status {}) yet {} changed from {!r} to {!r}"
                .format(rcode, name, before[name], after.get(name)))
    return problems


def original_survives(target, original):
    """Clause 2: the target or its .bak still holds the original bytes."""
    def judge(rcode, before, after):
        if after.get(target) == original:
            return []
        if after.get(target + ".bak") == original:
            return []
        return [
            "status {}: neither {} ({!r}) nor {}.bak ({!r}) holds the original"
            " bytes {!r}".format(
                rcode, target, after.get(target), target,
                after.get(target + ".bak"), original)]
    return judge


def main():
    violations = 0
    keep_json = b'{"keep": "me"}'
    keep_yaml = b"keep: me\n"

    # ------------------------------------------------------------------
    # Group A -- yaml-merge --overwrite --backup creates (or replaces) the
    # .bak BEFORE it finds out that the merged result cannot be rendered.
    # The failure is detected before anything is written to the target (the
    # target stays intact), so it falls under the first clause:
    #   "... ends with a non-zero status for a reason detected before writing
    #    ... the target file is byte-for-byte unchanged and NO output OR
    #    BACKUP FILE HAS APPEARED"
    # ------------------------------------------------------------------
    clause1 = ("non-zero status for a reason detected before writing => "
               "target unchanged and no output or backup file has appeared")

    # A1: a date-typed key cannot become a JSON key
    violations += case(
        "A1  yaml-merge -w out.json -b; merged data has a date key",
        clause1, "yaml-merge",
        {"out.json": keep_json, "in.yaml": b"2001-01-01: x\n"},
        ["-S", "-w", "out.json", "-b", "in.yaml"],
        "either success, or a failure that leaves out.json alone and creates"
        " no out.json.bak",
        failing_run_leaves_everything_alone)

    # A2: same, with a stale backup present -> the stale backup is replaced
    violations += case(
        "A2  as A1 with a stale out.json.bak present",
        clause1, "yaml-merge",
        {"out.json": keep_json, "out.json.bak": b"STALE BACKUP\n",
         "in.yaml": b"2001-01-01: x\n"},
        ["-S", "-w", "out.json", "-b", "in.yaml"],
        "a failing run leaves out.json AND the existing out.json.bak alone",
        failing_run_leaves_everything_alone)

    # A3: keys 1 and "1" are distinct in YAML but collide once written as
    # JSON; the internal JSON round-trip raises DuplicateKeyError
    violations += case(
        "A3  yaml-merge -D json -w out.yaml -b; keys 1 and '1'",
        clause1, "yaml-merge",
        {"out.yaml": keep_yaml, "in.yaml": b"1: a\n'1': b\n"},
        ["-S", "-D", "json", "-w", "out.yaml", "-b", "in.yaml"],
        "a failing run creates no out.yaml.bak",
        failing_run_leaves_everything_alone)

    # A4: a complex (sequence) key
    violations += case(
        "A4  yaml-merge -w out.json -b; merged data has a complex key",
        clause1, "yaml-merge",
        {"out.json": keep_json, "l.yaml": b"a: 1\n",
         "r.yaml": b"? [a, b]\n: 1\n"},
        ["-S", "-w", "out.json", "-b", "l.yaml", "r.yaml"],
        "a failing run creates no out.json.bak",
        failing_run_leaves_everything_alone)

    # A5: unusable (empty) input with a non-condensing multi-doc mode: there
    # is no document to write, discovered only after the backup was made
    violations += case(
        "A5  yaml-merge -M merge_across -w out.yaml -b; the only input is"
        " empty",
        clause1, "yaml-merge",
        {"out.yaml": keep_yaml, "in.yaml": b"# nothing here\n"},
        ["-S", "-M", "merge_across", "-w", "out.yaml", "-b", "in.yaml"],
        "a failing run creates no out.yaml.bak",
        failing_run_leaves_everything_alone)

    # ------------------------------------------------------------------
    # Group B -- yaml-set: an impossible change is noticed only while the
    # document is being dumped, AFTER the target was opened for writing (and
    # so truncated).  The run ends with a non-zero status and the user's file
    # is gone (without --backup nothing else holds its content).
    # Clause: title "a failing ... run never loses the user's file" and the
    # first clause "... impossible change ... the target file is byte-for-byte
    # unchanged".  (One may argue that the code detects these only during the
    # write; the cause, however, is fully known before the write starts.)
    # ------------------------------------------------------------------
    clause1b = ("non-zero status because of an impossible change => target"
                " file byte-for-byte unchanged")
    doc = b"a: 1\nb: txt\nc: &anc val\nd: *anc\n"

    # B1: tagging a non-string scalar (int, float, bool, null, date)
    violations += case(
        "B1  yaml-set --tag on an integer value",
        clause1b, "yaml-set", {"f.yaml": doc},
        ["-S", "-g", "a", "-T", "!mytag", "f.yaml"],
        "either a tagged value, or a failure that leaves f.yaml unchanged",
        failing_run_leaves_everything_alone)

    # B2: a new numeric-looking value together with a tag
    violations += case(
        "B2  yaml-set --value 9 --tag on a string value",
        clause1b, "yaml-set", {"f.yaml": doc},
        ["-S", "-g", "b", "-a", "9", "-T", "!mytag", "f.yaml"],
        "either a tagged value, or a failure that leaves f.yaml unchanged",
        failing_run_leaves_everything_alone)

    # B3: same as B1 with --backup: the backup does hold the pre-image (the
    # --backup clause is satisfied) but the failing run changed the target and
    # made a backup file appear
    violations += case(
        "B3  as B1 with --backup",
        clause1b + " and no backup file has appeared", "yaml-set",
        {"f.yaml": doc},
        ["-S", "-g", "a", "-T", "!mytag", "-b", "f.yaml"],
        "a failure that leaves f.yaml unchanged and creates no f.yaml.bak",
        failing_run_leaves_everything_alone)

    # B4: --anchor name that cannot be emitted
    violations += case(
        "B4  yaml-set --aliasof c --anchor 'x,y'",
        clause1b, "yaml-set", {"f.yaml": doc},
        ["-S", "-g", "a", "-A", "c", "-H", "x,y", "f.yaml"],
        "a rejected Anchor name leaves f.yaml unchanged",
        failing_run_leaves_everything_alone)

    # B5: JSON / flow-style document with a key JSON cannot express; ANY
    # change to such a file destroys it
    violations += case(
        "B5  yaml-set on a flow-style document which has a date key",
        clause1b, "yaml-set", {"f.json": b"{2001-01-01: x, a: 1}"},
        ["-S", "-g", "a", "-a", "2", "f.json"],
        "either success, or a failure that leaves f.json unchanged",
        failing_run_leaves_everything_alone)

    # B6: aliasing a node to one of its ancestors in a JSON file
    violations += case(
        "B6  yaml-set --aliasof / in a JSON file (self-referencing data)",
        clause1b, "yaml-set", {"f.json": b'{"a": 1, "b": 2}'},
        ["-S", "-g", "a", "-A", "/", "f.json"],
        "the impossible change is refused and f.json is unchanged",
        failing_run_leaves_everything_alone)

    # ------------------------------------------------------------------
    # Group C -- low confidence / contrived: the target is a symbolic link to
    # a file which happens to carry the backup's name.  "remove stale .bak"
    # deletes the only copy of the data, then the copy fails.
    # Clause: "--backup ... at least one of the target file and its backup
    # still holds the complete original bytes".
    # ------------------------------------------------------------------
    violations += case(
        "C1  yaml-set --backup; f.yaml is a symlink to f.yaml.bak (contrived)",
        "with --backup, the target or its .bak still holds the original"
        " bytes",
        "yaml-set", {"f.yaml.bak": b"a: 1\n"},
        ["-S", "-g", "a", "-a", "2", "-b", "f.yaml"],
        "the bytes 'a: 1\\n' survive in f.yaml or f.yaml.bak",
        lambda rc, before, after: (
            [] if after.get("f.yaml.bak") == b"a: 1\n" else
            ["status {}: the only copy of the data was deleted; f.yaml is {!r},"
             " f.yaml.bak is {!r}".format(
                 rc, after.get("f.yaml"), after.get("f.yaml.bak"))]),
        prepare=lambda d: os.symlink("f.yaml.bak", os.path.join(d, "f.yaml")))

    print("=" * 78)
    print("{} violating case(s)".format(violations))
    return 1 if violations else 0


if __name__ == "__main__":
    sys.exit(main())
