#!/usr/bin/env python
"""
Stand-alone demonstration of inputs for which the yamlpath command-line tools
violate the property

  "The command-line tools deliver the library's answers and honest exit codes"

Run as:  cd /tmp/wt7-C16 && PYTHONPATH=/tmp/wt7-C16 /venv/bin/python demo.py

Every case builds its own inputs, drives the real console entry points
(yamlpath.commands.*.main) in a child process -- with real files and a real
STDIN -- and compares what happened with what the property demands.  The
expected documents are computed with the public library (Parsers, Processor).
Exit status:  1 when at least one case violates the property, else 0.
"""
import contextlib
import io
import os
import shutil
import subprocess
import sys
import tempfile
import datetime
from types import SimpleNamespace

from ruamel.yaml.comments import CommentedSet, TaggedScalar

from yamlpath import YAMLPath, Processor
from yamlpath.common import Parsers
from yamlpath.wrappers import ConsolePrinter

TMP = tempfile.mkdtemp(prefix="c16demo-")
LOG = ConsolePrinter(SimpleNamespace(quiet=True, verbose=False, debug=False))
VIOLATIONS = []
_COUNTER = [0]


# --------------------------------------------------------------------------
# helpers
# --------------------------------------------------------------------------
def run(tool, args, stdin=None):
    """Run one console entry point; stdin=None means 'no usable STDIN'."""
    module = "yamlpath.commands." + tool.replace("-", "_")
    code = ("import sys; sys.argv[0] = {!r}; from {} import main; main()"
            .format(tool, module))
    proc = subprocess.run(
        [sys.executable, "-c", code] + list(args),
        input=(stdin.encode("utf-8") if stdin is not None else None),
        stdin=(subprocess.DEVNULL if stdin is None else None),
        stdout=subprocess.PIPE, stderr=subprocess.PIPE, env=dict(os.environ))
    return (proc.returncode, proc.stdout.decode("utf-8", "replace"),
            proc.stderr.decode("utf-8", "replace"))


def mkfile(content, suffix=".yaml"):
    _COUNTER[0] += 1
    name = os.path.join(TMP, "f{}{}".format(_COUNTER[0], suffix))
    with open(name, "w", encoding="utf-8") as fhnd:
        fhnd.write(content)
    return name


def load(text):
    """Load one document with the library's own loader."""
    sink = io.StringIO()
    with contextlib.redirect_stdout(sink), contextlib.redirect_stderr(sink):
        (data, ok) = Parsers.get_yaml_data(
            Parsers.get_yaml_editor(), LOG, text, literal=True)
    if not ok:
        raise ValueError("document does not load")
    return data


def load_all(text):
    sink = io.StringIO()
    with contextlib.redirect_stdout(sink), contextlib.redirect_stderr(sink):
        return [doc for (doc, ok) in Parsers.get_yaml_multidoc_data(
            Parsers.get_yaml_editor(), LOG, text, literal=True) if ok]


def plain(data):
    """Reduce a loaded document to comparable, type-tagged plain data."""
    if isinstance(data, dict):
        return ("map", [(plain(k), plain(v)) for k, v in data.items()])
    if isinstance(data, (set, CommentedSet)):
        return ("set", [plain(k) for k in data])
    if isinstance(data, (list, tuple)):
        return ("seq", [plain(v) for v in data])
    if isinstance(data, TaggedScalar):
        return ("tagged", data.tag.value, data.value)
    if isinstance(data, bool) or type(data).__name__ == "ScalarBoolean":
        return ("bool", bool(data))
    if isinstance(data, int):
        return ("int", int(data))
    if isinstance(data, float):
        return ("float", float(data))
    if isinstance(data, str):
        return ("str", str(data))
    if isinstance(data, (datetime.datetime, datetime.date)):
        return ("date", data.isoformat())
    if data is None:
        return ("null",)
    return ("other", type(data).__name__, repr(data))


def model_set(text, path, value):
    """The document the library's set model predicts (dumped, reloaded)."""
    data = load(text)
    Processor(LOG, data).set_value(YAMLPath(path), value)
    buf = io.StringIO()
    Parsers.get_yaml_editor().dump(data, buf)
    return plain(load(buf.getvalue()))


def tail(text, limit=300):
    text = text.strip()
    return text if len(text) <= limit else "..." + text[-limit:]


def report(label, clause, the_input, demanded, observed, violated):
    print("=" * 78)
    print("CASE {}".format(label))
    print("  clause   : {}".format(clause))
    print("  input    : {}".format(the_input))
    print("  demanded : {}".format(demanded))
    print("  observed : {}".format(observed))
    print("  verdict  : {}".format("VIOLATION" if violated else "ok"))
    if violated:
        VIOLATIONS.append(label)


# --------------------------------------------------------------------------
# cases
# --------------------------------------------------------------------------
def case_merge_implicit_stdin_only():
    # Clause violated:  "yaml-merge prints or writes the model merge of its
    # inputs" and "Reading a document from a file or from standard input gives
    # the same outcome".  The --help text promises that - is inferred when no
    # YAML_FILE is named and STDIN is not a TTY.
    doc = "a: 1\nl: [1, 2]\n"
    explicit = run("yaml-merge", ["-"], stdin=doc)
    from_file = run("yaml-merge", ["-S", mkfile(doc)])
    implicit = run("yaml-merge", [], stdin=doc)
    violated = not (implicit[0] == 0 and implicit[1] == from_file[1])
    report(
        "M1 yaml-merge, the only document arrives on an implicit STDIN",
        "yaml-merge prints the model merge / file and STDIN give one outcome",
        "printf {!r} | yaml-merge      (no YAML_FILE arguments)".format(doc),
        "rc 0 and {!r} (what 'yaml-merge FILE' and 'yaml-merge -' print:"
        " rc {} / rc {})".format(from_file[1], from_file[0], explicit[0]),
        "rc {}, stdout {!r}, stderr {!r}".format(
            implicit[0], implicit[1], tail(implicit[2], 160)),
        violated)


def case_merge_backup_new_overwrite_target():
    # Clause violated:  "yaml-merge prints or writes the model merge of its
    # inputs in the requested format".  -w|--overwrite "will replace the file
    # when it already exists" (so it need not exist); adding -b makes the tool
    # die before anything is written.
    lhs, rhs = mkfile("a: 1\n"), mkfile("b: 2\n")
    target = os.path.join(TMP, "merged-new.yaml")
    without_b = run("yaml-merge", ["-S", "-w", target, lhs, rhs])
    written = open(target).read() if os.path.exists(target) else None
    if os.path.exists(target):
        os.remove(target)
    with_b = run("yaml-merge", ["-S", "-b", "-w", target, lhs, rhs])
    written_b = open(target).read() if os.path.exists(target) else None
    violated = not (with_b[0] == 0 and written_b == written)
    report(
        "M2 yaml-merge --backup --overwrite=NEW_FILE",
        "yaml-merge writes the model merge of its inputs",
        "yaml-merge -S -b -w {} lhs.yaml rhs.yaml  (target does not exist"
        " yet)".format(os.path.basename(target)),
        "rc 0 and the target holding {!r} (what the same call without -b"
        " wrote, rc {})".format(written, without_b[0]),
        "rc {}, target content {!r}, stderr {!r}".format(
            with_b[0], written_b, tail(with_b[2], 200)),
        violated)


def case_set_json_astral_character():
    # Clause violated:  "yaml-set leaves a file that reloads to the document
    # the set/delete model predicts" (JSON input/output, escapes).  The JSON
    # writer emits a UTF-16 surrogate-pair escape which the project's own
    # loader does not read back as the original character.
    doc = '{"a": 1, "e": "\U0001F600"}'
    path = mkfile(doc, ".json")
    expected = model_set(doc, "a", "2")
    res = run("yaml-set", ["-S", "-g", "a", "-a", "2", path])
    text = open(path, encoding="utf-8").read()
    try:
        got = plain(load(text))
    except Exception as ex:                       # pylint: disable=broad-except
        got = ("does not load", str(ex))
    get_after = run("yaml-get", ["-S", "-p", "e", path])
    violated = not (res[0] == 0 and got == expected)
    report(
        "S1 yaml-set on a JSON file holding a non-BMP character",
        "yaml-set leaves a file that reloads to the predicted document",
        "{}  ;  yaml-set -g a -a 2 FILE.json".format(ascii(doc)),
        ascii(expected),
        "rc {}, file now {}, which reloads to {}; a following"
        " 'yaml-get -p e' ends rc {} ({})".format(
            res[0], ascii(text), ascii(got), get_after[0],
            tail(get_after[2], 90).splitlines()[-1] if get_after[2] else ""),
        violated)


def case_paths_values_wildcard_key():
    # Clause violated:  "yaml-paths prints exactly the search results" (keys
    # spelled like other things + the --values option).  The value printed
    # beside the result does not even match the search expression.
    doc = "www.example.com: other\n'*.example.com': VAL\n"
    res = run("yaml-paths", ["-S", "-F", "-L", "-s", "=VAL", mkfile(doc)])
    lines = res[1].splitlines()
    violated = not (res[0] == 0 and len(lines) == 1
                    and lines[0].endswith(": VAL"))
    report(
        "P1 yaml-paths --values when a key contains *",
        "yaml-paths prints exactly the search results",
        "{!r}  ;  yaml-paths -F -L -s =VAL".format(doc),
        "one line for the one node whose value equals VAL, showing the"
        " value VAL",
        "rc {}, stdout {!r}".format(res[0], res[1]),
        violated)


def case_paths_values_ampersand_key():
    # Clause violated:  "yaml-paths prints exactly the search results".  The
    # run dies with a traceback at the first result whose key starts with &,
    # and every later result is lost.
    doc = "first: VAL\n'&amp': VAL\nlast: VAL\n"
    res = run("yaml-paths", ["-S", "-F", "-L", "-s", "=VAL", mkfile(doc)])
    lines = res[1].splitlines()
    violated = not (res[0] == 0 and len(lines) == 3)
    report(
        "P2 yaml-paths --values when a key starts with &",
        "yaml-paths prints exactly the search results",
        "{!r}  ;  yaml-paths -F -L -s =VAL".format(doc),
        "rc 0 and three result lines (three values equal VAL)",
        "rc {}, stdout {!r}, stderr {!r}".format(
            res[0], res[1], tail(res[2], 150)),
        violated)


def case_paths_values_after_parent_dump():
    # Clause violated:  "yaml-paths prints exactly the search results" (sets +
    # two search expressions + --values).  Printing the parent Hash as JSON
    # rewrites the loaded document, so the value shown for a later result
    # depends on the order of the expressions.
    doc = "h:\n  s: !!set {foo, bar}\n"
    path = mkfile(doc)
    first = run("yaml-paths",
                ["-S", "-F", "-X", "-L", "-k", "-s", "=foo", "-s", "=h", path])
    second = run("yaml-paths",
                 ["-S", "-F", "-X", "-L", "-k", "-s", "=h", "-s", "=foo",
                  path])
    member_a = [l for l in first[1].splitlines() if l.startswith("h.s.foo")]
    member_b = [l for l in second[1].splitlines() if l.startswith("h.s.foo")]
    violated = not (member_a == member_b == ["h.s.foo: foo"])
    report(
        "P3 yaml-paths --values, Set member printed after its parent",
        "yaml-paths prints exactly the search results",
        "{!r}  ;  yaml-paths -F -X -L -k -s =h -s =foo   (and with the two"
        " -s swapped)".format(doc),
        "the line 'h.s.foo: foo' in both runs",
        "-s =foo -s =h gives {!r}; -s =h -s =foo gives {!r}".format(
            first[1], second[1]),
        violated)


def case_set_flow_yaml_becomes_json():
    # Clause violated:  "yaml-set leaves a file that reloads to the document
    # the set/delete model predicts" (YAML input, non-text keys / dates /
    # sets).  A YAML document whose root is written in flow style is silently
    # rewritten as JSON, and yaml-set offers no option to prevent it.
    worst = False
    details = []
    for doc in ("{a: 1, 2: two}\n",
                "{a: 1, when: 2001-01-01}\n",
                "{a: 1, s: !!set {p, q}}\n"):
        path = mkfile(doc, ".yaml")
        expected = model_set(doc, "a", "2")
        res = run("yaml-set", ["-S", "-g", "a", "-a", "2", path])
        text = open(path).read()
        got = plain(load(text))
        via_stdin = run("yaml-set", ["-g", "a", "-a", "2", "-"], stdin=doc)
        bad = not (res[0] == 0 and got == expected)
        worst = worst or bad
        details.append(
            "\n      {!r} -> rc {}, file {!r} (STDIN delivery prints {!r});"
            " reloads to {} but the model predicts {}".format(
                doc, res[0], text, via_stdin[1], got, expected))
    report(
        "S2 yaml-set on a YAML file whose root is in flow style",
        "yaml-set leaves a file that reloads to the predicted document",
        "three one-line YAML documents in .yaml files; yaml-set -g a -a 2",
        "the same document with a=2: integer key 2, the date, the Set kept",
        "".join(details),
        worst)


def case_merge_across_mixed_styles():
    # Clause violated:  "yaml-merge prints or writes the model merge of its
    # inputs in the requested format" (multi-document stream + non-text key).
    # The output is YAML (first document is block style) but the second
    # document is pushed through JSON on its way out.
    lhs = "---\na: 1\n---\n{b: 2, 3: three}\n"
    rhs = "---\nx: 1\n---\ny: 2\n"
    res = run("yaml-merge",
              ["-S", "-M", "merge_across", mkfile(lhs), mkfile(rhs)])
    expected = [
        plain(load("a: 1\nx: 1\n")),
        plain(load("{b: 2, 3: three, y: 2}\n")),
    ]
    try:
        got = [plain(doc) for doc in load_all(res[1])]
    except Exception as ex:                       # pylint: disable=broad-except
        got = ("does not load", str(ex))
    violated = not (res[0] == 0 and got == expected)
    report(
        "M3 yaml-merge --multi-doc-mode=merge_across, block then flow"
        " document",
        "yaml-merge prints the model merge of its inputs",
        "LHS {!r}, RHS {!r}".format(lhs, rhs),
        "two documents: {}".format(expected),
        "rc {}, stdout {!r}, which loads to {}".format(res[0], res[1], got),
        violated)


def case_diff_empty_string_vs_null():
    # Clause violated:  "yaml-diff exits 0 exactly when the two documents are
    # data-equal".  An empty-string document and a null document are not.
    lhs, rhs = "''\n", "~\n"
    equal = plain(load(lhs)) == plain(load(rhs))
    res = run("yaml-diff", [mkfile(lhs), mkfile(rhs)])
    violated = (res[0] == 0) != equal
    report(
        "D1 yaml-diff of '' against ~",
        "yaml-diff exits 0 exactly when the documents are data-equal",
        "LHS {!r}, RHS {!r}".format(lhs, rhs),
        "data-equal is {} ({} vs {}), so a non-zero exit and one entry".format(
            equal, plain(load(lhs)), plain(load(rhs))),
        "rc {}, stdout {!r}".format(res[0], res[1]),
        violated)


def case_empty_document_file_vs_stdin():
    # Clause violated:  "Reading a document from a file or from standard
    # input gives the same outcome" (and, for the two-empty-files run,
    # "yaml-diff exits 0 exactly when the two documents are data-equal").
    other = mkfile("a: 1\n")
    empty_a, empty_b = mkfile(""), mkfile("")
    diff_file = run("yaml-diff", [empty_a, other])
    diff_stdin = run("yaml-diff", ["-", other], stdin="")
    diff_both = run("yaml-diff", [empty_a, empty_b])
    merge_file = run("yaml-merge", ["-S", other, empty_a])
    merge_stdin = run("yaml-merge", [other, "-"], stdin="")
    violated = not (
        (diff_file[0], diff_file[1]) == (diff_stdin[0], diff_stdin[1])
        and diff_both[0] == 0
        and (merge_file[0], merge_file[1]) == (merge_stdin[0], merge_stdin[1]))
    report(
        "E1 an empty document delivered as a file and on STDIN",
        "file and STDIN delivery give the same outcome / yaml-diff exit code",
        "yaml-diff EMPTY a.yaml | yaml-diff - a.yaml </dev/null |"
        " yaml-diff EMPTY EMPTY | yaml-merge a.yaml EMPTY |"
        " yaml-merge a.yaml - </dev/null",
        "identical results for the two deliveries; rc 0 for two empty"
        " documents",
        "\n      yaml-diff EMPTY a.yaml   -> rc {} out {!r} err {!r}"
        "\n      yaml-diff - a.yaml       -> rc {} out {!r}"
        "\n      yaml-diff EMPTY EMPTY    -> rc {} err {!r}"
        "\n      yaml-merge a.yaml EMPTY  -> rc {} out {!r}"
        "\n      yaml-merge a.yaml -      -> rc {} err {!r}".format(
            diff_file[0], diff_file[1], tail(diff_file[2], 110),
            diff_stdin[0], diff_stdin[1],
            diff_both[0], tail(diff_both[2], 110),
            merge_file[0], merge_file[1],
            merge_stdin[0], tail(merge_stdin[2], 110)),
        violated)


def case_set_value_file_trailing_blanks():
    # Clause violated:  "yaml-set leaves a file that reloads to the document
    # the set/delete model predicts".  --file promises to discard "any
    # trailing new-lines"; it also discards trailing spaces of the value.
    doc = "s: text\n"
    value_file = mkfile("val  \n", ".txt")
    path = mkfile(doc)
    expected = model_set(doc, "s", "val  ")
    res = run("yaml-set", ["-S", "-g", "s", "-f", value_file, path])
    got = plain(load(open(path).read()))
    violated = not (res[0] == 0 and got == expected)
    report(
        "S3 yaml-set --file with a value that ends in blanks",
        "yaml-set leaves a file that reloads to the predicted document",
        "{!r}; value file {!r}; yaml-set -g s -f VALUE_FILE".format(
            doc, "val  \n"),
        "{} (only the trailing new-line discarded)".format(expected),
        "rc {}, reloads to {}".format(res[0], got),
        violated)


def case_set_tag_on_number_truncates_file():
    # Clause violated:  "yaml-set leaves a file that reloads to the document
    # the set/delete model predicts" / honest outcome.  The file is opened for
    # writing before the dump is known to succeed; when the dump fails the
    # user's document is left cut off in the middle.  (Needs the --tag
    # argument, which may be judged outside the scope.)
    doc = "keep: me\ni: 5\nmore: data\n"
    path = mkfile(doc)
    res = run("yaml-set", ["-S", "-g", "i", "-T", "mytag", path])
    text = open(path).read()
    try:
        got = plain(load(text))
    except Exception as ex:                       # pylint: disable=broad-except
        got = ("does not load", str(ex))
    before = plain(load(doc))
    # acceptable: success with all the data kept, or failure with the file
    # untouched
    data_kept = (isinstance(got, tuple) and got[0] == "map"
                 and len(got[1]) == len(before[1]))
    violated = not ((res[0] == 0 and data_kept)
                    or (res[0] != 0 and text == doc))
    report(
        "S4 yaml-set --tag on an integer value",
        "yaml-set leaves a file that reloads to the predicted document",
        "{!r}  ;  yaml-set -g i -T mytag FILE".format(doc),
        "either rc 0 and a file that still holds all three pairs, or a"
        " non-zero rc and the file untouched",
        "rc {}, file now {!r} (loads to {}), stderr {!r}".format(
            res[0], text, got, tail(res[2], 120)),
        violated)


# --------------------------------------------------------------------------
def main():
    cases = [
        case_merge_implicit_stdin_only,
        case_merge_backup_new_overwrite_target,
        case_set_json_astral_character,
        case_paths_values_wildcard_key,
        case_paths_values_ampersand_key,
        case_paths_values_after_parent_dump,
        case_set_flow_yaml_becomes_json,
        case_merge_across_mixed_styles,
        case_diff_empty_string_vs_null,
        case_empty_document_file_vs_stdin,
        case_set_value_file_trailing_blanks,
        case_set_tag_on_number_truncates_file,
    ]
    try:
        for case in cases:
            case()
    finally:
        shutil.rmtree(TMP, ignore_errors=True)

    print("=" * 78)
    print("{} of {} cases violate the property:".format(
        len(VIOLATIONS), len(cases)))
    for label in VIOLATIONS:
        print("  - " + label)
    return 1 if VIOLATIONS else 0


if __name__ == "__main__":
    sys.exit(main())
