"""
Matchers for known findings (known_findings.jsonl, status "known").

A matcher receives one failure dict {cls, case, expected, observed, ...} and
answers whether that failure is an instance of the recorded defect: the scope
predicate on the case AND the observed behaviour equal to what the defect
produces.  Anything else stays a violation.
"""

