"""
C12 - search operators compare values by the documented typed rules.

(1) the complete grid 9 operators x haystack pool x needle pool through
    Searches.search_matches, against refmatch (written from the property text);
    pairs the documents leave open are still required not to raise;
(2) inversion: for every collection of the corpus and every search segment,
    plain and inverted results partition the candidates.
"""
import re

from yamlpath.common import Searches
from yamlpath.enums import PathSearchMethods

from yamlpath.wrappers import NodeCoords
from vkit import core, corpus, paths, qrun, refmatch, refquery

ID = "C12"
LEVEL = "model_checking"
RULE = ("complete grid operator x haystack x needle over finite pools (the "
        "haystacks are loaded from YAML so they have the types users get); "
        "plus plain/inverted partition on every collection of the corpus for "
        "every search segment; non-trivial = the reference decides the pair "
        "(or the partition has >= 1 candidate); distinct = distinct "
        "(operator, haystack kind, needle kind, verdict) resp. (document "
        "shape, segment, sizes)")
ASSUMPTIONS = [
    "pairs whose spelling is a different kind of Python literal (0x10, 1_000, "
    "None, [1] ...) or involve the text of null / booleans are not decided "
    "by the documents: only 'does not raise' is checked for them",
]

OPS = {"=": PathSearchMethods.EQUALS, "^": PathSearchMethods.STARTS_WITH,
       "$": PathSearchMethods.ENDS_WITH, "%": PathSearchMethods.CONTAINS,
       "<": PathSearchMethods.LESS_THAN, ">": PathSearchMethods.GREATER_THAN,
       "<=": PathSearchMethods.LESS_THAN_OR_EQUAL,
       ">=": PathSearchMethods.GREATER_THAN_OR_EQUAL,
       "=~": PathSearchMethods.REGEX}

# YAML spellings of the haystack pool (each loaded through the strict loader)
HAY_YAML = [
    "null", "true", "false", "0", "1", "-1", "1000", "1.0", "2.5", "-0.5",
    "1.5e+3", ".nan", ".inf", "-.inf",
    '"1"', '"1.0"', '"01"', '"1000"', '"-1"', '"a"', '"A"', '"ab"', '"b"',
    '""', '" "', '"true"', '"True"', '"TRUE"', '"false"', '"yes"', '"null"',
    '"None"', '"~"', '"[1]"', '"{}"', '"{[1]: 2}"', '"1e3"', '"0x10"',
    '"1_000"', '"(1"', "\"'q'\"", '"a b"', '"a.b"', "2020-01-01",
    "2001-12-14T21:59:43.10-05:00", '"é"', '"1+"', '"..."',
    '"1.1.5"', '"1.5-rc1"', '"3.0.1"', '"5 apples"',
    "&B1 true", "&B2 false", "&I1 1", "&S1 true-ish",
    # integers beyond what a float can tell apart
    "9007199254740993", "9007199254740992", '"9007199254740993"',
    "-9007199254740993",
    # floats which differ only in the last places
    "0.30000000000000004", "0.3", "1.0000000001", "2.5000000001",
]
NEEDLES = [
    "", " ", "0", "1", "-1", "1000", "1.0", "2.5", "01", "a", "A", "ab", "b",
    "true", "True", "TRUE", "false", "yes", "null", "None", "~", "[1]", "{}",
    "{[1]: 2}", "1e3", "0x10", "1_000", "(1", "'q'", "a b", "a.b", "^a", "a$",
    ".", "a|b", "2020", "é", "1+", "...", "-0.5",
    "1.10", "1.50", "3.00", "1.1.5", "5.",
    "9007199254740992", "9007199254740993", "-9007199254740992",
    "0.3", "0.30000000000000004", "1.0000000001", "2.5000000001",
    "2.50", "1.00", "-0.50", "1000.0", "1e3", "2.5e0",
]
_HAYS = None


def hays():
    global _HAYS
    if _HAYS is None:
        doc = corpus.load("[" + ", ".join(HAY_YAML) + "]")
        _HAYS = list(doc)
        assert len(_HAYS) == len(HAY_YAML)
    return _HAYS


def kind(v):
    try:
        return refmatch.classify(v)[0] if not isinstance(v, str) \
            else "str:" + refmatch.classify_text(v)[0]
    except refmatch.Ambiguous:
        return "ambiguous"


def grid_shard(op):
    st = core.Stats(ID)
    method = OPS[op]
    for hi, hay in enumerate(hays()):
        for needle in NEEDLES:
            check_pair(st, op, method, hi, hay, needle)
    st.sample({"op": op, "haystack_yaml": HAY_YAML[3], "needle": NEEDLES[5]})
    return st


def check_pair(st, op, method, hi, hay, needle):
    st.evaluations += 1
    st.transitions += 1
    st.validated += 1
    case = {"kind": "grid", "op": op, "haystack_yaml": HAY_YAML[hi],
            "needle": needle}
    if op == "=~":
        try:
            re.compile(needle)
        except re.error:
            st.extra["skipped_invalid_regex_term"] += 1
            return
    try:
        got = Searches.search_matches(method, needle, hay)
    except Exception as ex:                # pylint: disable=broad-except
        st.outcomes["raise:" + type(ex).__name__] += 1
        st.fail("raises:%s:%s" % (op, type(ex).__name__), case,
                "a verdict", "%s@%s" % (type(ex).__name__, qrun.where(ex)))
        return
    # a value handed over in result wrappers (what collectors and slices
    # pass on, nested as deep as they are) is compared as the value itself
    for depth in (1, 2):
        wrapped = hay
        for _ in range(depth):
            wrapped = NodeCoords(wrapped, None, None)
        try:
            got_w = Searches.search_matches(method, needle, wrapped)
        except Exception as ex:            # pylint: disable=broad-except
            got_w = type(ex).__name__
        if got_w is not got and got_w != got:
            st.fail("wrapped:%s:%s~%s" % (op, kind(hay), kind(needle)),
                    dict(case, wrapped=depth), got, got_w)
            return
    exp = refmatch.match(op, needle, hay)
    if exp is refmatch.UNSPECIFIED:
        st.extra["grid_undecided_pairs"] += 1
        st.outcomes["undecided"] += 1
        return
    st.states += 1
    st.sig("grid", op, kind(hay), kind(needle), exp)
    st.outcomes[str(bool(got))] += 1
    if bool(got) != exp:
        st.fail("verdict:%s:%s~%s" % (op, kind(hay), kind(needle)), case,
                exp, got)


# ----------------------------------------------------- spellings of one value
# groups of YAML spellings of ONE value: the first is the plain spelling, the
# others load as other node types (ruamel's int / float / bool wrappers for
# anchored, grouped, hexadecimal, octal ... scalars)
SPELLINGS = [
    ["1000", "&P 1000", "1_000", "0x3e8", "0o1750", "+1000"],
    ["16", "0x10", "&Q 16", "0X10", "1_6"],
    ["-1", "&N -1"],
    ["2.5", "&F 2.5", "2.50", "+2.5", "25e-1"],
    ["true", "&T true"],
    ["a", "&A a", '"a"', "'a'"],
]
SPELLING_NEEDLES = NEEDLES + ["+1000", "0x3e8", "0X3E8", "0o1750", "1_0_0_0",
                              "16", "+16", "0b10000", "2.50", "+2.5", "25e-1",
                              "1e3", "1000.0"]


def spelling_shard(_):
    """However a document spells a value, a search sees the value: every
    operator answers every needle alike for all spellings of one value."""
    st = core.Stats(ID)
    for group in SPELLINGS:
        nodes = list(corpus.load("[" + ", ".join(group) + "]"))
        for op, method in OPS.items():
            for needle in SPELLING_NEEDLES:
                if op == "=~":
                    try:
                        re.compile(needle)
                    except re.error:
                        continue
                answers = []
                for node in nodes:
                    st.evaluations += 1
                    st.transitions += 1
                    try:
                        answers.append(bool(Searches.search_matches(
                            method, needle, node)))
                    except Exception as ex:  # pylint: disable=broad-except
                        answers.append("%s" % type(ex).__name__)
                st.validated += 1
                st.states += 1
                st.outcomes[str(answers[0])] += 1
                if any(a != answers[0] for a in answers[1:]):
                    odd = [group[i] for i, a in enumerate(answers)
                           if a != answers[0]]
                    st.fail("spelling:%s:%s" % (op, group[0]),
                            {"kind": "spelling", "op": op, "needle": needle,
                             "group": group},
                            "%r for every spelling" % answers[0],
                            "differs for %r" % odd)
                else:
                    st.sig("spelling", op, group[0], answers[0])
    return st


# ------------------------------------------------------------------ inversion
DOCS = []
SEGS = []


def inv_shard(rng):
    lo, hi = rng
    st = core.Stats(ID)
    for di in range(lo, hi):
        spec = DOCS[di]
        text = corpus.render(spec)
        doc = corpus.load(text)
        shp = corpus.shape(spec)
        for pos, node in corpus.positions(doc):
            if corpus.is_scalar(node):
                continue
            for seg in SEGS:
                check_partition(st, doc, text, shp, pos, node, seg)
    return st


def nav_path(pos):
    """A path (AST) that addresses a position by keys and indexes."""
    segs = []
    for ref in pos:
        if isinstance(ref, int) and not isinstance(ref, bool):
            segs.append(("idx", ref))
        else:
            segs.append(("key", str(ref)))
    return tuple(segs)


def check_partition(st, doc, text, shp, pos, node, seg):
    """plain U inverted = candidates, plain ^ inverted = {} at this node."""
    _, attr, op, term, _ = seg
    # the candidates of a search at a collection
    if corpus.is_map(node):
        if attr == ".":
            cands = [id(v) for v in node.values()]
        elif attr in node:
            cands = [id(node[attr])]
        else:
            return          # descendant search: the hash itself (see C01)
    elif corpus.is_list(node):
        cands = [id(v) for v in node]
    else:
        cands = [id(m) for m in node]
    if len(set(cands)) != len(cands):
        return              # interned scalars repeat: identity cannot tell
    if any(isinstance(r, (bool, float)) or r is None or
           (not isinstance(r, (str, int))) for r in pos):
        return
    prefix = nav_path(pos)
    if any(s[0] == "key" and not re.match(r"^[A-Za-z0-9_-]+$", s[1])
           for s in prefix):
        return
    res = {}
    for inv in (False, True):
        segs = prefix + (("search", attr, op, term, inv),)
        out = qrun.query(doc, qrun.ypath(paths.render(segs, "/")),
                         mustexist=True)
        st.evaluations += 1
        st.transitions += 1
        if out.kind == "crash":
            st.outcomes["crash"] += 1
            st.extra["partition_crash_left_to_C15"] += 1
            return
        if out.kind == "ype":
            st.outcomes["ype"] += 1
            return
        res[inv] = [id(nc.node) for nc in out.ncs]
    st.validated += 2
    st.states += 1
    plain, inverted = res[False], res[True]
    st.outcomes["partition"] += 1
    if cands:
        st.sig("part", shp, paths.sig((seg,)), len(plain), len(inverted))
    case = {"kind": "partition", "doc": text, "at": list(map(str, pos)),
            "path": paths.render(prefix + (seg,), "/")}
    want = expected_plain(node, attr, op, term)
    if want is not None:
        st.extra["partition_sides_decided"] += 1
        if sorted(plain) != sorted(want):
            st.fail("partition-sides:%s" % paths.sig((seg,)), case,
                    "plain = the %d candidates the operator accepts"
                    % len(want), "plain %d, inverted %d" % (
                        len(plain), len(inverted)))
            return
    if set(plain) & set(inverted):
        st.fail("partition-overlap:%s" % paths.sig((seg,)), case,
                "disjoint", "%d common" % len(set(plain) & set(inverted)))
    elif sorted(plain + inverted) != sorted(cands):
        st.fail("partition-cover:%s" % paths.sig((seg,)), case,
                "%d candidates" % len(cands),
                "plain %d + inverted %d" % (len(plain), len(inverted)))


def expected_plain(node, attr, op, term):
    """Which candidates of a LIST the plain search accepts, decided per
    candidate from the operator table alone (None: not decided here).  A
    candidate without the attribute is never accepted by the plain search -
    whatever the verdict on its neighbours was."""
    if not corpus.is_list(node):
        return None
    want = []
    for ele in node:
        if attr == ".":
            if not corpus.is_scalar(ele):
                return None
            value = ele
        elif corpus.is_map(ele):
            if attr not in ele:
                continue
            value = ele[attr]
            if not corpus.is_scalar(value):
                return None
        elif corpus.is_scalar(ele):
            continue
        else:
            return None
        verdict = refmatch.match(op, term, value)
        if verdict is refmatch.UNSPECIFIED:
            return None
        if verdict:
            want.append(id(ele))
    return want


def plan(tier):
    """Shards: one per operator of the grid, the spellings, slices of the
    inversion corpus.  (Run through core.explore, so that a verdict which
    depends on what the worker process compared before is replayed with that
    history.)"""
    global DOCS, SEGS
    if tier == "quick":
        DOCS = corpus.docs(4, (1000, "a", "b", 2000), ("a", "b"))
        terms = ("a", "1000")
    else:
        DOCS = corpus.docs(5, (1000, "a", "b", 2000), ("a", "b"))
        terms = ("a", "1000", "b")
    DOCS = DOCS + corpus.collision_pack()
    # a key and its other-type twin in one Hash: under a key-name search the
    # plain and the inverted answer still partition the keys
    DOCS = DOCS + [("m", ((1000, "x"), ("1000", "y"), ("a", "z"))),
                   ("m", (("1000", "y"), (1000, "x"))),
                   ("m", (("a", ("m", ((1000, "x"), ("1000", "y"),
                                       ("b", "w")))),))]
    SEGS = [("search", attr, op, term, False) for attr in (".", "a")
            for op in paths.OPS for term in terms]
    step = max(1, len(DOCS) // (core.jobs() * 6))
    shards = [("grid", op) for op in OPS] + [("spelling", 0)] + [
        ("inv", lo, min(len(DOCS), lo + step))
        for lo in range(0, len(DOCS), step)]
    bounds = {"grid": {"operators": list(OPS), "haystacks": HAY_YAML,
                       "needles": NEEDLES,
                       "pairs": len(OPS) * len(HAY_YAML) * len(NEEDLES)},
              "inversion": {"documents": len(DOCS), "segments": len(SEGS),
                            "note": "every non-scalar position of every "
                            "document x every search segment x {plain, "
                            "inverted}"}}
    return shards, bounds


def run_shard(shard):
    if shard[0] == "grid":
        return grid_shard(shard[1])
    if shard[0] == "spelling":
        return spelling_shard(0)
    return inv_shard((shard[1], shard[2]))


def replay(case):
    st = core.Stats(None)
    if case["kind"] == "spelling":
        st = spelling_shard(0)
        for key, lst in st.fails.items():
            for f in lst:
                if f["case"]["op"] == case["op"] and \
                        f["case"]["needle"] == case["needle"] and \
                        f["case"]["group"] == case["group"]:
                    return f
        return None
    if case["kind"] == "grid":
        hi = HAY_YAML.index(case["haystack_yaml"])
        check_pair(st, case["op"], OPS[case["op"]], hi, hays()[hi],
                   case["needle"])
    else:
        doc = corpus.load(case["doc"])
        from yamlpath import YAMLPath
        segs = YAMLPath(case["path"]).escaped
        # rebuild from the AST of the recorded path: last segment is the search
        last = segs[-1][1]
        seg = ("search", last.attribute, str(last.method), last.term, False)
        pos = []
        node = doc
        for ref in case["at"]:
            if corpus.is_list(node):
                ref = int(ref)
            elif ref not in node and ref.lstrip("-").isdigit():
                ref = int(ref)
            node = node[ref]
            pos.append(ref)
        check_partition(st, doc, case["doc"], "?", tuple(pos), node, seg)
    for lst in st.fails.values():
        return lst[0]
    return None


def repro(case):
    if case["kind"] == "spelling":
        return ("# Searches.search_matches(%s, %r, node) for the nodes of "
                "[%s]\n" % (case["op"], case["needle"],
                            ", ".join(case["group"])))
    if case["kind"] == "grid":
        return ("from yamlpath.common import Searches, Parsers\n"
                "from yamlpath.enums import PathSearchMethods\n"
                "import ruamel.yaml\n"
                "hay = Parsers.get_yaml_editor().load(%r)[0]\n"
                "print(Searches.search_matches(PathSearchMethods.%s, %r, hay))"
                "\n" % ("[" + case["haystack_yaml"] + "]",
                        OPS[case["op"]].name, case["needle"]))
    return "# yaml-get --query=%r on %r (plain and inverted)\n" % (
        case["path"], case["doc"])
