"""
C01 - query results equal the documented segment semantics.

Product exploration: every document of the bounded corpus x every path of up
to k segments over the segment vocabulary; the reference evaluator (refquery)
enumerates all runs of the path over the document's positions and the real
engine must select the same node objects in the same order, in both notations
and through exists() / required / optional queries.
"""
import collections

from vkit import core, corpus, paths, qrun, refquery

ID = "C01"
LEVEL = "model_checking"
RULE = ("all documents <= N nodes over the scalar/key alphabets plus the "
        "collision pack x all paths of 1..k segments over the vocabulary, "
        "each in dot and slash notation, through required / exists / optional "
        "queries; non-trivial = the reference answer is non-empty; distinct = "
        "distinct (document shape, path signature, result size) triples")
ASSUMPTIONS = [
    "reference semantics are those of README 'Supported YAML Path Segments', "
    "docstrings and behaviour pinned by the test-suite (DESIGN 2.5); cases "
    "they leave open are counted as unspecified and only checked for "
    "notation / entry-point agreement",
    "ruamel.yaml loader is trusted",
]

DOCS = []
PATHS = []
COUNT = collections.Counter()


def tup(x):
    if isinstance(x, list):
        return tuple(tup(i) for i in x)
    return x


def build(tier):
    docs = []
    plist = []
    if tier == "quick":
        docs += corpus.docs(4, (None, 1000, "a"), ("a", "b"))
        docs += corpus.collision_pack()
        voc = paths.vocab("c01-quick")
        plist = list(paths.upto(voc, 2))
        bounds = {"documents": "<=4 nodes over {null,1000,'a'} x {a,b} + "
                               "collision pack",
                  "path_segments": 2, "vocabulary": len(voc)}
    else:
        docs += corpus.docs(5, (None, 1000, "a"), ("a", "b"))
        docs += corpus.collision_pack()
        voc = paths.vocab("c01-quick")
        plist = list(paths.upto(voc, 2))
        bounds = {"documents": "<=5 nodes over {null,1000,'a'} x {a,b} + "
                               "collision pack",
                  "path_segments": 2, "vocabulary": len(voc)}
    return docs, plist, bounds


def plan(tier):
    global DOCS, PATHS, EXTRA
    DOCS, PATHS, bounds = build(tier)
    PATHS = [(p, paths.render(p, "."), paths.render(p, "/")) for p in PATHS]
    EXTRA = []
    # the full vocabulary (all 9 operators, slices, hash slices, anchors,
    # int/str key twins) as 1-segment paths and behind 5 navigators, on a
    # smaller corpus that includes anchor/alias decorations
    vfull = paths.vocab("c01-full")
    navs = [("key", "a"), ("idx", 0), ("all",), ("trav",),
            ("search", ".", "=", "zz", True)]
    pnav = [(s,) for s in vfull] + [(n, s) for n in navs for s in vfull
                                    if not (n[0] == "trav" and s[0] == "trav")]
    # keys written with wildcards (abbreviated searches)
    pnav += [(g,) for g in paths.GLOBS] + [
        (n, g) for n in navs for g in paths.GLOBS] + [
        (g, n) for n in navs[:3] for g in paths.GLOBS]
    dnav = corpus.docs(3, (None, 1000, "a", "1000"), ("a", "b", "1000"))
    dnav += corpus.collision_pack()
    for base in (("m", (("a", "x"), ("b", ("l", ("y", 1000))), ("c", "z9"))),
                 ("l", ("x", ("m", (("a", "y"), ("b", 1000))), "w")),
                 ("m", (("a", ("l", ("x", "y"))), ("b", ("m", (("a", 1000),)))))):
        dnav += corpus.decorations(base, key_alias=False)
        dnav += corpus.decorations(base, name="B", max_alias=1,
                                   key_alias=False)[:6]
    if tier == "quick":
        dnav = dnav[::2]
    dnav += corpus.merge_pack()
    dnav += [("m", ((-1, "a"), (0, 1000), (1, ("m", (("a", 1000),))))),
             ("m", (("a", ("m", ((-1, ("m", (("a", "a"),))), (1, 1000)))),))]
    EXTRA.append((dnav, [(p, paths.render(p, "."), paths.render(p, "/"))
                         for p in pnav]))
    bounds["full_vocabulary"] = {"documents": len(dnav), "paths": len(pnav),
                                 "vocabulary": len(vfull),
                                 "navigators": len(navs)}
    # numbers of equal value and different type side by side (5 / 5.0), asked
    # for in either spelling: what an earlier element or query made of one
    # must not decide the other
    dtw = [("l", (5.0, 5)), ("l", (5, 5.0)), ("l", (2, 2.0, "2", 5)),
           ("m", (("a", 2), ("b", 2.0))), ("m", (("a", ("l", (5, 2.0))),
                                                ("b", ("l", (5.0, 2))))),
           ("l", (("m", (("a", 5),)), ("m", (("a", 5.0),))))]
    stw = [("search", attr, op, term, inv) for attr in (".", "a")
           for op in ("=", "<", ">", "<=", ">=") for term in ("5", "5.0", "2",
                                                              "2.0")
           for inv in (False, True)]
    ptw = [(s_,) for s_ in stw] + [(n, s_) for n in (("key", "a"), ("all",))
                                  for s_ in stw]
    EXTRA.append((dtw, [(p, paths.render(p, "."), paths.render(p, "/"))
                        for p in ptw]))
    bounds["numeric_twins"] = {"documents": len(dtw), "paths": len(ptw)}
    # a key and its other-type twin in one Hash (1000 / "1000", 0 / "0"):
    # a search over the key names answers for each key on its own
    dkt = [("m", ((1000, "x"), ("1000", "y"))), ("m", (("1000", "y"), (1000, "x"))),
           ("m", ((0, "x"), ("0", "y"), ("a", "z"))),
           ("m", (("a", ("m", (("0", "y"), (0, "x"), (1000, "w")))),
                  ("b", ("m", ((1000, "x"), ("1000", "y")))))),
           ("l", (("m", ((1000, "x"), ("1000", "y"))),
                  ("m", (("1000", "y"), ("b", "x")))))]
    skt = [("search", ".", op, term, inv)
           for op in ("=", "^", "$", "%", "<=", ">=", "=~")
           for term in ("1000", "0") for inv in (False, True)]
    pkt = [(s_,) for s_ in skt] + [(n, s_) for n in (("key", "a"), ("all",),
                                                     ("idx", 0), ("trav",))
                                  for s_ in skt]
    EXTRA.append((dkt, [(p, paths.render(p, "."), paths.render(p, "/"))
                        for p in pkt]))
    bounds["key_twins"] = {"documents": len(dkt), "paths": len(pkt)}
    if tier != "quick":
        # deeper slices of the space on smaller sub-corpora
        # (a stride of the 4-node documents keeps the tier near 40 minutes:
        # the full 1162 x 74088 product alone took over an hour)
        d4 = corpus.docs(3, (None, 1000, "a"), ("a", "b")) + \
            corpus.docs(4, (None, 1000, "a"), ("a", "b"))[146::4]
        voc = paths.vocab("c01-quick")
        p3 = [(p, paths.render(p, "."), paths.render(p, "/"))
              for p in paths.upto(voc, 3) if len(p) == 3]
        EXTRA.append((d4, p3))
        dfull = corpus.docs(3, (None, 1000, "a", "1000"),
                            ("a", "b", "1000")) + corpus.collision_pack() + \
            corpus.merge_pack()
        pf = [(p, paths.render(p, "."), paths.render(p, "/"))
              for p in paths.upto(vfull, 2)]
        EXTRA.append((dfull, pf))
        bounds["extra"] = [
            {"documents": len(d4), "paths": len(p3), "path_segments": 3},
            {"documents": len(dfull), "paths": len(pf), "path_segments": 2,
             "vocabulary": len(vfull), "note": "all 9 operators, slices, "
             "anchors, int/str key twins"}]
    bounds["n_documents"] = len(DOCS)
    bounds["n_paths"] = len(PATHS)
    shards = []
    step = 40 if tier == "quick" else 60
    for lo in range(0, len(DOCS), step):
        shards.append((0, lo, min(len(DOCS), lo + step)))
    for k, (dd, pp) in enumerate(EXTRA):
        st = max(1, 200000 // max(1, len(pp)))
        for lo in range(0, len(dd), st):
            shards.append((k + 1, lo, min(len(dd), lo + st)))
    return shards, bounds


def run_shard(shard):
    which, lo, hi = shard
    if which == 0:
        docs, plist = DOCS, PATHS
    else:
        docs, plist = EXTRA[which - 1]
    st = core.Stats(ID)
    for di in range(lo, hi):
        spec = docs[di]
        text = corpus.render(spec)
        doc = corpus.load(text)
        shp = corpus.shape(spec)
        before = corpus.canon(doc, anchors=True)
        for segs, dot, slash in plist:
            dirty = check_case(st, doc, text, shp, segs, dot, slash, before)
            if dirty:
                doc = corpus.load(text)
        if di == lo:
            st.sample({"doc": text, "path": plist[len(plist) // 2][1]})
    return st


def expected(doc, segs):
    """-> ('nodes', ids, ctxs) | ('error',) | ('unspecified', why)"""
    try:
        ctxs = refquery.ev(segs, refquery.root_ctx(doc))
        return ("nodes", refquery.flat_ids(ctxs), ctxs)
    except refquery.Unspecified as ex:
        return ("unspecified", str(ex))
    except refquery.ExpectError:
        return ("error",)


def branches_exist(doc, segs):
    try:
        return refquery.all_branches_exist(segs, refquery.root_ctx(doc))
    except (refquery.Unspecified, refquery.ExpectError):
        return False


def unordered(segs):
    """C13 states *which* members an inverted max/min/unique returns, not
    their order (the engine returns them grouped)."""
    return any(s[0] == "kw" and s[3] and s[1] in ("max", "min", "unique")
               for s in segs)


def diff_kind(exp, got):
    ce, cg = collections.Counter(map(repr, exp)), collections.Counter(
        map(repr, got))
    if ce == cg:
        return "order"
    if not (cg - ce):
        return "missing"
    if not (ce - cg):
        if set(cg) == set(ce):
            return "duplicate"
        return "extra"
    return "different"


def check_case(st, doc, text, shp, segs, dot, slash, before):
    st.evaluations += 1
    exp = expected(doc, segs)
    st.transitions += len(segs)
    case = {"doc": text, "segs": segs, "dot": dot, "slash": slash}
    sig = paths.sig(segs)
    out = qrun.query(doc, qrun.ypath(dot), mustexist=True)
    got = qrun.flat_ids(out.ncs) if out.kind == "nodes" else None
    st.outcomes[out.kind if out.kind != "ype" else "ype:" + out.detail] += 1
    ok = True
    if exp[0] == "nodes":
        st.states += len(exp[1]) + 1
        if exp[1]:
            st.sig(shp, sig, len(exp[1]))
        if out.kind == "crash":
            ok = False
            st.fail("%s|crash:%s" % (sig, out.detail), case,
                    "%d nodes" % len(exp[1]), out.brief())
        elif exp[1]:
            if out.kind != "nodes":
                ok = False
                st.fail("%s|missing-all" % sig, case,
                        "%d nodes" % len(exp[1]), out.brief())
            elif got != exp[1] and not (
                    unordered(segs) and sorted(map(repr, got)) == sorted(
                        map(repr, exp[1]))):
                ok = False
                st.fail("%s|%s" % (sig, diff_kind(exp[1], got)), case,
                        describe(exp[2]), describe_nc(out.ncs))
        else:
            if out.kind == "nodes" and got:
                ok = False
                st.fail("%s|extra" % sig, case, "no match",
                        describe_nc(out.ncs))
            elif out.kind == "ype":
                ok = False
                st.fail("%s|error-for-empty:%s" % (sig, out.detail), case,
                        "unmatched", out.brief())
    elif exp[0] == "error":
        st.states += 1
        if out.kind != "ype":
            ok = False
            st.fail("%s|no-error" % sig, case, "YAML Path error", out.brief())
    else:
        st.extra["unspecified"] += 1
        st.extra["unspecified: " + exp[1].split(" %r" % "")[0][:48]] += 1
        st.states += 1
        if out.kind == "crash":
            # crashes are C15's subject; unspecified semantics cannot excuse
            # them there, but here nothing is decided
            st.extra["unspecified_crash"] += 1
            return False
    # --- notation agreement (checkable whatever the semantics)
    out2 = qrun.query(doc, qrun.ypath(slash), mustexist=True)
    st.validated += 1
    if out2.kind != out.kind or (
            out.kind == "nodes" and qrun.flat_ids(out2.ncs) != got):
        if ok:
            st.fail("%s|notation" % sig, case, out.brief(), out2.brief())
        ok = False
    # --- exists()
    ex = qrun.exists(doc, qrun.ypath(dot))
    if out.kind in ("nodes", "unmatched"):
        want = out.kind == "nodes" and bool(out.ncs)
        if ex is not want and ok:
            st.fail("%s|exists" % sig, case, want, ex)
            ok = False
    # --- optional-match query on a path that already exists
    dirty = False
    if out.kind == "nodes" and out.ncs and (
            exp[0] != "nodes" or not branches_exist(doc, segs)):
        # the optional query would create the missing tail of some branch
        # (or the reference cannot tell): not "a path that already exists"
        st.extra["optional_skipped_some_branch_missing"] += 1
    elif out.kind == "nodes" and out.ncs:
        out3 = qrun.query(doc, qrun.ypath(dot), mustexist=False)
        after = corpus.canon(doc, anchors=True)
        if after != before:
            dirty = True
            if ok:
                st.fail("%s|optional-mutates" % sig, case, "document unchanged",
                        "document changed")
                ok = False
        elif out3.kind != "nodes" or qrun.flat_ids(out3.ncs) != got:
            if ok:
                st.fail("%s|optional" % sig, case, describe_nc(out.ncs),
                        [out3.brief()] + describe_nc(out3.ncs))
            ok = False
    return dirty


def describe(ctxs):
    out = []
    for c in ctxs[:8]:
        if isinstance(c.node, refquery.VList):
            out.append("slice%r" % ([x.pos for x in c.node],))
        else:
            out.append("%r@%r" % (_short(c.node), c.pos))
    return out


def describe_nc(ncs):
    out = []
    for nc in ncs[:8]:
        if isinstance(nc, list) or qrun.is_virtual(nc):
            out.append("virtual:%s" % (qrun.flat_ids([nc]),))
        else:
            out.append("%r@%s" % (_short(nc.node), nc.path))
    return out


def _short(node):
    text = repr(node) if corpus.is_scalar(node) else str(
        corpus.canon(node))
    return text[:60]


def replay(case):
    st = core.Stats(None)
    doc = corpus.load(case["doc"])
    segs = tup(case["segs"])
    before = corpus.canon(doc, anchors=True)
    check_case(st, doc, case["doc"], "?", segs, case["dot"], case["slash"],
               before)
    for lst in st.fails.values():
        return lst[0]
    return None


def repro(case):
    return (
        "from types import SimpleNamespace\n"
        "from yamlpath import Processor\n"
        "from yamlpath.common import Parsers\n"
        "from yamlpath.wrappers import ConsolePrinter\n"
        "log = ConsolePrinter(SimpleNamespace(verbose=False, quiet=True, "
        "debug=False))\n"
        "doc, _ = Parsers.get_yaml_data(Parsers.get_yaml_editor(), log, %r, "
        "literal=True)\n"
        "for path in (%r, %r):\n"
        "    print(path, [(str(n.path), n.node) for n in "
        "Processor(log, doc).get_nodes(path, mustexist=True)])\n"
        % (case["doc"], case["dot"], case["slash"]))
