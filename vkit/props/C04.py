"""
C04 - a delete removes exactly the matched nodes, whatever their number or
position; deleting the document root is refused and changes nothing.

Single steps over a corpus with empty containers, repeated scalars and nested
lists x paths matching >= 1 non-root node (many per sequence, nested, negative
indexes, the same node matched twice through a collector sum); delete steps
are also taken inside the C03 edit histories.
"""
import itertools

from vkit import core, corpus, editrun, paths, refquery
from vkit.props import C01

ID = "C04"
LEVEL = "model_checking"
RULE = ("documents <= N nodes over {1, 1000, 'a'} x {a, b} with empty "
        "containers + collision pack x paths of 1..2 segments incl. negative "
        "indexes, *, **, searches, and collector sums matching a node twice; "
        "the model removes the *set* of matched positions (indexes are those "
        "of the original list); non-trivial = >= 1 non-root node removed; "
        "distinct = distinct (document shape, path signature, #matched)")
ASSUMPTIONS = [
    "the set of matched nodes is the reference evaluator's (C01); cases it "
    "leaves unspecified are skipped and counted",
]

DOCS = []
PLIST = []
# collector expressions: (text, operand paths whose union of positions is the
# expected deleted set)
COLLECT = [
    ("(/[0])+(/[0])", [(("idx", 0),), (("idx", 0),)]),
    ("(/a)+(/a)", [(("key", "a"),), (("key", "a"),)]),
    ("(/[0])+(/[1])", [(("idx", 0),), (("idx", 1),)]),
    ("(/[1])+(/[0])", [(("idx", 1),), (("idx", 0),)]),
    ("(/a)+(/b)", [(("key", "a"),), (("key", "b"),)]),
]
# the same element gathered once by its positive and once by its negative
# index, in both orders, next to other elements
for _i in (0, 1, 2):
    for _j in (-1, -2, -3):
        COLLECT.append(("(/[%d])+(/[%d])" % (_i, _j),
                        [(("idx", _i),), (("idx", _j),)]))
        COLLECT.append(("(/[%d])+(/[%d])" % (_j, _i),
                        [(("idx", _j),), (("idx", _i),)]))
        COLLECT.append(("(/a[%d])+(/a[%d])" % (_i, _j),
                        [(("key", "a"), ("idx", _i)),
                         (("key", "a"), ("idx", _j))]))
COLLECT.append(("(/[1])+(/[-2])+(/[1])", [(("idx", 1),), (("idx", -2),),
                                         (("idx", 1),)]))
# the document root gathered next to other nodes, however deeply wrapped:
# refused, and nothing else deleted either
for _other in ("a", "b"):
    COLLECT.append(("(/)+(/%s)" % _other, [(), (("key", _other),)]))
    COLLECT.append(("((/))+(/%s)" % _other, [(), (("key", _other),)]))
    COLLECT.append(("(/%s)+((/))" % _other, [(("key", _other),), ()]))
    COLLECT.append(("((/))+((/%s))" % _other, [(), (("key", _other),)]))
COLLECT.append(("((/))+(/[0])", [(), (("idx", 0),)]))
# a slice and an index (inside / outside / before the slice) in one sum
for _a, _b in ((1, 3), (0, 2), (-3, -1), (-2, -1)):
    for _i in (0, 1, 2, -1):
        COLLECT.append(("(/[%d:%d])+(/[%d])" % (_a, _b, _i),
                        [(("slice", _a, _b),), (("idx", _i),)]))
        COLLECT.append(("(/[%d])+(/[%d:%d])" % (_i, _a, _b),
                        [(("idx", _i),), (("slice", _a, _b),)]))
        COLLECT.append(("(/a[%d:%d])+(/a[%d])" % (_a, _b, _i),
                        [(("key", "a"), ("slice", _a, _b)),
                         (("key", "a"), ("idx", _i))]))


def plan(tier):
    global DOCS, PLIST
    nmax = 4 if tier == "quick" else 5
    DOCS = corpus.docs(nmax, (1, 1000, "a"), ("a", "b"), sets=False)
    DOCS += [s for s in corpus.collision_pack()
             if not (isinstance(s, tuple) and s[0] == "s")]
    # arrays of different lengths side by side, holding empty arrays (a slice
    # over all of them selects nothing of the short ones)
    DOCS += [("m", (("a", ("l", ("p", "q", "r", "s"))),
                    ("b", ("l", ("x", ("l", ())))),
                    ("c", ("l", (("l", ()), ("l", ())))))),
             ("l", (("l", ("p", "q", "r")), ("l", (("l", ()), "x")),
                    ("l", ("x", ("l", ())))))]
    # integer keys (negative ones too) and members: a reference which is a
    # number is an index only where the parent is an Array
    DOCS += [("m", ((-1, "a"), (1, "b"), (0, "a"))),
             ("m", (("a", ("m", ((-1, "a"), (1, "b")))), (1, "a"))),
             ("m", ((-2, 1), (-1, 1), (0, 1), (1, 1))),
             ("m", (("a", ("s", (-1, 1, 2))), ("b", ("l", ("a", "b")))))]
    DOCS += [("l", ("p", "q", "r", "s")), ("l", (1, 1, 1, 1)),
             ("m", (("a", ("l", ("p", "q", "r", "s"))), ("b", 1)))]
    voc = paths.vocab("c01-quick") + [("idx", -2), ("idx", 2),
                                      ("key", "-2")] + [
        ("slice", a, b) for a, b in ((0, 1), (0, 2), (1, 2), (1, 3), (0, 3),
                                     (1, 1), (-2, -1), (-3, -1), (0, -1),
                                     (-2, 3), (1, -1), (-5, 2), (1, 9))]
    PLIST = [((s,), paths.render((s,), "/")) for s in voc]
    # the document root itself, whatever it holds (an empty Array too)
    PLIST.append(((), "/"))
    for p in paths.upto(paths.vocab("c01-quick"), 2):
        if len(p) == 2:
            PLIST.append((p, paths.render(p, "/")))
    for nav in (("key", "a"), ("idx", 0), ("all",)):
        for sl in voc:
            if sl[0] == "slice":
                PLIST.append(((nav, sl), paths.render((nav, sl), "/")))
    bounds = {"documents": len(DOCS), "paths": len(PLIST),
              "collector_sums": [c[0] for c in COLLECT]}
    shards = [(lo, min(len(DOCS), lo + 25))
              for lo in range(0, len(DOCS), 25)]
    depth = 3 if tier == "quick" else 4
    bounds["live_sessions"] = {
        "seeds": SESSION_SEEDS, "menu": [
            [op, paths.render(sg, "/"), v] for op, sg, v in SESSION_MENU],
        "depth": depth,
        "note": "every sequence of <= depth menu steps through ONE Processor "
                "on ONE live document, lock-step with the model"}
    shards += [("session", i, depth, first)
               for i in range(len(SESSION_SEEDS))
               for first in range(len(SESSION_MENU))]
    return shards, bounds


def run_shard(shard):
    if shard[0] == "session":
        return session_family(shard[1], shard[2], shard[3])
    lo, hi = shard
    st = core.Stats(ID)
    for di in range(lo, hi):
        spec = DOCS[di]
        text = corpus.render(spec)
        doc0 = corpus.load(text)
        shp = corpus.shape(spec)
        for segs, ptext in PLIST:
            check_delete(st, doc0, text, shp, segs, ptext)
        for ctext, operands in COLLECT:
            check_delete(st, doc0, text, shp, ("collector", operands), ctext)
        if di == lo:
            st.sample({"doc": text, "op": "delete", "path": PLIST[9][1]})
    if lo == 0:
        merge_family(st)
    return st


# documents with YAML merge keys and anchors that are spelled like keys:
# (text, path, the plain data expected afterwards)
_T1 = ("port: &port {n: 1}\nbase: &base {x: 1}\nweb:\n  <<: *base\n"
       "  port: 8080\n  y: 2\n")
_T2 = ("hosts: &port [a]\nbase: &base {x: 1}\nweb:\n  <<: *base\n"
       "  port: 8080\n  base: 5\n")
_T3 = "x: &x {k: 1}\nb:\n  z: 0\n  <<: *x\n"
_T4 = "x: &x {k: 1}\ny: &y {j: 2}\nb:\n  <<: [*x, *y]\n  z: 0\n"
_T5 = "x: &x {k: 1}\nb:\n  <<: *x\n  k: 1\n  z: 0\n"
_T6 = ("base: &base {x: 1, w: 2}\nweb:\n  <<: *base\n  port: 8080\n"
       "db:\n  <<: *base\n")
MERGE_CASES = [
    # a merge reference deleted by its anchor: last in the hash, one of two,
    # next to an own key repeating a merged-in value
    (_T3, "b.&x", {"x": {"k": 1}, "b": {"z": 0}}),
    (_T4, "b.&y", {"x": {"k": 1}, "y": {"j": 2}, "b": {"k": 1, "z": 0}}),
    (_T4, "b.&x", {"x": {"k": 1}, "y": {"j": 2}, "b": {"j": 2, "z": 0}}),
    (_T5, "b.&x", {"x": {"k": 1}, "b": {"k": 1, "z": 0}}),
    (_T1, "/web/port", {"port": {"n": 1}, "base": {"x": 1},
                        "web": {"x": 1, "y": 2}}),
    (_T1, "/web/y", {"port": {"n": 1}, "base": {"x": 1},
                     "web": {"x": 1, "port": 8080}}),
    (_T1, "/port", {"base": {"x": 1}, "web": {"x": 1, "port": 8080, "y": 2}}),
    (_T1, "/port/n", {"port": {}, "base": {"x": 1},
                      "web": {"x": 1, "port": 8080, "y": 2}}),
    (_T1, "/web/&base", {"port": {"n": 1}, "base": {"x": 1},
                         "web": {"port": 8080, "y": 2}}),
    (_T1, "/web[.^p]", {"port": {"n": 1}, "base": {"x": 1},
                        "web": {"x": 1, "y": 2}}),
    (_T2, "/web/port", {"hosts": ["a"], "base": {"x": 1},
                        "web": {"x": 1, "base": 5}}),
    (_T2, "/web/base", {"hosts": ["a"], "base": {"x": 1},
                        "web": {"x": 1, "port": 8080}}),
    (_T2, "/web/&base", {"hosts": ["a"], "base": {"x": 1},
                         "web": {"port": 8080, "base": 5}}),
    (_T2, "/hosts", {"base": {"x": 1},
                     "web": {"x": 1, "port": 8080, "base": 5}}),
    # a key of the ANCHORED hash deleted: gone from every hash inheriting it
    # too, in the live document as in the written one
    (_T6, "/base/x", {"base": {"w": 2}, "web": {"w": 2, "port": 8080},
                      "db": {"w": 2}}),
    (_T6, "/base/*", {"base": {}, "web": {"port": 8080}, "db": {}}),
]


def _plain(node):
    if corpus.is_map(node):
        return {str(k): _plain(v) for k, v in node.items()}
    if corpus.is_list(node):
        return [_plain(v) for v in node]
    val = corpus.plain_scalar(node)
    return val[1] if isinstance(val, tuple) and len(val) == 2 else val


def merge_family(st):
    for text, ptext, want in MERGE_CASES:
        st.evaluations += 1
        doc = corpus.load(text)
        case = {"doc": text, "op": "delete", "path": ptext, "segs": None,
                "merge_case": True}
        res, detail = editrun.apply_delete(doc, ptext)
        st.transitions += 1
        st.validated += 1
        st.outcomes[res if res != "ype" else "ype:" + detail] += 1
        if res != "ok":
            st.fail("delete|merge-key-document|%s:%s" % (res, detail), case,
                    repr(want), "%s %s" % (res, detail))
            continue
        st.states += 1
        st.sig("merge-key-document", ptext)
        got = _plain(doc)
        if got != want:
            st.fail("delete|merge-key-document|wrong-result", case,
                    repr(want), repr(got))
            continue
        bad = editrun.reload_check(doc)
        if bad:
            st.fail("delete|merge-key-document|reload", case,
                    "dump reloads to the same data", bad)


# ------------------------------------------------------------ live sessions
# One Processor object kept for a whole session on one live document (the way
# yaml-set / a library user works): every sequence of up to `depth` steps.
# A step is a delete, a set or a query through that same Processor; the model
# is stepped from a deep copy of the state before the step.
SESSION_SEEDS = [
    "[p, q, r, s]",
    "{a: [p, q, r, s], b: {a: x, b: y}}",
    "[[p, q], [p, q], x]",
    "{a: &A x, b: [*A, y, z], c: *A}",
    # an Array-of-Hashes whose members are replaced in place by scalars
    # between two searches through the same Processor
    "[{a: x}, {a: y}, {b: z}]",
]
SESSION_MENU = [
    ("delete", (("idx", 0),), None), ("delete", (("idx", -1),), None),
    ("delete", (("idx", 1),), None), ("delete", (("slice", 0, 2),), None),
    ("delete", (("key", "a"), ("idx", 0)), None),
    ("delete", (("key", "a"), ("idx", -1)), None),
    ("delete", (("key", "a"), ("slice", 1, 3)), None),
    ("delete", (("key", "b"), ("key", "a")), None),
    ("delete", (("key", "b"), ("idx", 0)), None),
    ("delete", (("idx", 0), ("idx", 0)), None),
    ("delete", (("all",), ("idx", 0)), None),
    ("delete", (("key", "c"),), None),
    ("set", (("idx", 0),), "n"), ("set", (("key", "a"), ("idx", 0)), "n"),
    ("set", (("key", "b"), ("key", "a")), "n"),
    ("set", (("key", "a"),), "n"),
    ("query", (("idx", 0),), None), ("query", (("key", "a"), ("idx", 0)), None),
    ("query", (("trav",),), None),
    ("set", (("idx", 1),), 8080), ("set", (("idx", 2),), "m"),
    ("query", (("search", ".", "=", "a", False),), None),
    ("query", (("search", ".", "^", "a", True),), None),
    ("query", (("search", "a", "=", "x", False),), None),
    # the document root, also once earlier steps have emptied it
    ("delete", (), None),
]


def session_family(seed_index, depth, first):
    """Every session on one seed which opens with step `first` of the menu."""
    st = core.Stats(ID)
    text = SESSION_SEEDS[seed_index]
    # steps which can never apply to this seed are dropped from its menu
    root = corpus.load(text)
    menu = [m for m in SESSION_MENU if m[0] == "query" or m[1] == () or (
        (m[0] == "delete" and model(root, m[1])[0] == "doc") or
        (m[0] == "set" and editrun.model_set(root, m[1], m[2])[0] == "doc"))]
    if SESSION_MENU[first] not in menu:
        return st
    if first == 0:
        st.extra["session_menu_%d" % seed_index] = len(menu)
    for n in range(0, depth):
        for tail in itertools.product(menu, repeat=n):
            seq = (SESSION_MENU[first],) + tail
            if len(seq) > 1 and seq[-1][0] == "query" and \
                    seq[-2][0] == "query":
                continue
            session_run(st, text, seq)
    if first == 0:
        st.sample({"seed": text, "session": [
            [op, paths.render(sg, "/"), v] for op, sg, v in menu[:3]]})
    return st


def session_run(st, text, seq):
    from yamlpath import Processor
    from vkit import qrun
    from vkit.props import C03
    st.evaluations += 1
    doc = corpus.load(text)
    proc = Processor(corpus.LOG, doc)
    hist = []
    for op, segs, val in seq:
        ptext = paths.render(segs, "/")
        hist.append([op, ptext, val])
        case = {"doc": text, "op": "session", "session": list(hist),
                "path": ptext, "segs": segs}
        pre = editrun.fresh(doc)
        st.transitions += 1
        if op == "query":
            from yamlpath.exceptions import YAMLPathException
            ncs = []
            try:
                for nc in proc.get_nodes(ptext, mustexist=True):
                    ncs.append(nc)
            except YAMLPathException:
                ncs = None
            except Exception as ex:         # pylint: disable=broad-except
                st.fail("session|query|crash:%s" % type(ex).__name__, case,
                        "nodes or a YAML Path error", "%s@%s" % (
                            type(ex).__name__, qrun.where(ex)))
                return
            try:
                exp = refquery.flat_ids(refquery.ev(
                    segs, refquery.root_ctx(doc)))
            except (refquery.Unspecified, refquery.ExpectError):
                continue
            got = qrun.flat_ids(ncs) if ncs is not None else None
            if (got or []) != exp:
                st.fail("session|query|wrong-nodes", case,
                        "%d nodes" % len(exp), "%r" % (
                            None if got is None else len(got)))
                return
            if corpus.canon(doc, anchors=True) != corpus.canon(
                    pre, anchors=True):
                st.fail("session|query|changed-document", case,
                        "document unchanged", "changed")
                return
            st.validated += 1
            continue
        if op == "delete":
            mod = model(pre, segs)
        else:
            mod = editrun.model_set(pre, segs, val)
            if mod[0] == "doc" and C03.dup_set_members(mod[1]):
                return
        if mod[0] == "unspecified":
            st.extra["unspecified"] += 1
            return
        if op == "delete":
            res, detail = editrun.apply_delete(doc, ptext, proc=proc)
        else:
            res, detail = editrun.apply_set(doc, ptext, val, proc=proc)
        st.outcomes["session:" + res] += 1
        got = corpus.canon(doc, anchors=True)
        if mod[0] in ("nomatch", "error", "root"):
            # nothing (deletable) is matched in this state: refused or a no-op,
            # and the document stays as it is
            if res == "crash" or got != corpus.canon(pre, anchors=True):
                st.fail("session|%s|no-match-but-changed" % op, case,
                        "document unchanged", "%s %s %r" % (
                            res, detail, got)[:300])
                return
            if mod[0] == "root" and res != "ype":
                st.fail("session|delete|root-not-refused", case,
                        "YAML Path error", "%s %s" % (res, detail))
                return
            continue
        if res != "ok":
            st.fail("session|%s|%s:%s" % (op, res, detail), case,
                    "%d nodes" % mod[2], "%s %s" % (res, detail))
            return
        st.validated += 1
        st.states += 1
        st.sig("session", got)
        if got != mod[1]:
            st.fail("session|%s|wrong-result" % op, case,
                    repr(mod[1])[:300], repr(got)[:300])
            return
    bad = editrun.reload_check(doc)
    if bad:
        st.fail("session|reload", {"doc": text, "op": "session",
                                   "session": hist, "path": "", "segs": None},
                "dump reloads to the same data", bad)


def model(doc0, segs):
    if segs and segs[0] == "collector":
        from vkit import refedit
        ctxs = []
        try:
            for op in segs[1]:
                if op and op[-1][0] == "slice":
                    got = refquery.ev(op, refquery.root_ctx(doc0))
                else:
                    got = refedit.matched(doc0, op)
                flat = []
                for c in got:
                    # a slice operand contributes the elements it selected
                    if isinstance(c.node, refquery.VList):
                        flat += list(c.node)
                    else:
                        flat.append(c)
                if op == () and corpus.is_list(doc0):
                    # a Collector flattens the one Array it gathered: the
                    # root operand of a sequence document names its elements
                    flat = refquery.children(refquery.root_ctx(doc0))
                if op != () and not flat:
                    # (the engine's collectors need every operand to match)
                    return ("nomatch",)
                ctxs += flat
            if any(op == () for op in segs[1]) and not corpus.is_list(doc0):
                return ("root",)
        except refquery.Unspecified as ex:
            return ("unspecified", str(ex))
        except refquery.ExpectError:
            return ("error",)
        if not ctxs:
            return ("nomatch",)
        if any(not corpus.is_scalar(c.node) for c in ctxs):
            return ("unspecified", "collector over containers")
        return ("doc", refedit.expect_delete(doc0, ctxs), len(ctxs))
    if segs and segs[-1][0] == "slice":
        # a slice is a virtual list: deleting it deletes its elements
        from vkit import refedit
        try:
            outer = refquery.ev(segs, refquery.root_ctx(doc0))
        except refquery.Unspecified as ex:
            return ("unspecified", str(ex))
        except refquery.ExpectError:
            return ("error",)
        ctxs = []
        for c in outer:
            if isinstance(c.node, refquery.VList):
                ctxs += list(c.node)
            else:
                ctxs.append(c)
        if not ctxs:
            return ("nomatch",)
        return ("doc", refedit.expect_delete(doc0, ctxs), len(ctxs))
    return editrun.model_delete(doc0, segs)


def check_delete(st, doc0, text, shp, segs, ptext):
    st.evaluations += 1
    mod = model(doc0, segs)
    if mod[0] == "unspecified":
        st.extra["unspecified"] += 1
        return None
    if mod[0] == "nomatch" and segs and segs[0] != "collector" \
            and segs[-1][0] == "slice":
        # a slice which selects nothing (reversed or meeting bounds): a
        # delete through it is refused or removes nothing
        doc = editrun.fresh(doc0)
        res, detail = editrun.apply_delete(doc, ptext)
        st.transitions += 1
        st.outcomes["empty-slice:" + res] += 1
        if res not in ("ok", "ype") or corpus.canon(
                doc, anchors=True) != corpus.canon(doc0, anchors=True):
            st.fail("delete|%s|empty-slice-removed-something" % paths.sig(
                segs), {"doc": text, "op": "delete", "path": ptext,
                        "segs": segs}, "document unchanged",
                    "%s %s: %r" % (res, detail, corpus.canon(doc))[:300])
        return None
    if mod[0] in ("error", "nomatch"):
        st.extra["no_match_or_error"] += 1
        return None
    doc = editrun.fresh(doc0)
    st.transitions += 1
    st.validated += 1
    is_sum = bool(segs) and segs[0] == "collector"
    sig = "collector-sum" if is_sum else (paths.sig(segs) if segs else "root")
    case = {"doc": text, "op": "delete", "path": ptext,
            "segs": ["collector", segs[1]] if is_sum else segs}
    res, detail = editrun.apply_delete(doc, ptext)
    st.outcomes[res if res != "ype" else "ype:" + detail] += 1
    got = corpus.canon(doc, anchors=True)
    if mod[0] == "root":
        before = corpus.canon(doc0, anchors=True)
        if segs == ():
            # the same through the nodes gathered by a query
            doc2 = editrun.fresh(doc0)
            res2, detail2 = editrun.apply_delete_gathered(doc2, ptext)
            st.transitions += 1
            if res2 != "ype" or corpus.canon(doc2, anchors=True) != before:
                st.fail("delete|gathered-root|root-not-refused", case,
                        "YAML Path error, document unchanged",
                        "%s %s" % (res2, detail2))
        if res != "ype":
            st.fail("delete|%s|root-not-refused" % sig, case,
                    "YAML Path error", "%s %s" % (res, detail))
        elif got != before:
            st.fail("delete|%s|root-refused-but-changed" % sig, case,
                    "document unchanged", repr(got)[:300])
        else:
            st.states += 1
            st.sig(shp, sig, "root")
        return None
    if res != "ok":
        st.fail("delete|%s|%s:%s" % (sig, res, detail), case,
                "%d nodes deleted" % mod[2], "%s %s" % (res, detail))
        return None
    st.states += 1
    st.sig(shp, sig, mod[2])
    if got != mod[1]:
        st.fail("delete|%s|wrong-result" % sig, case, repr(mod[1])[:400],
                repr(got)[:400])
        return None
    bad = editrun.reload_check(doc)
    if bad:
        st.fail("delete|%s|reload" % sig, case,
                "dump reloads to the same data", bad)
        return None
    return doc


def replay(case):
    st = core.Stats(None)
    if case.get("op") == "session":
        seq = [(op, C01.tup(_segs_of(ptext)), val)
               for op, ptext, val in case["session"]]
        session_run(st, case["doc"], seq)
        for lst in st.fails.values():
            return lst[0]
        return None
    if case.get("merge_case"):
        merge_family(st)
        for lst in st.fails.values():
            for f in lst:
                if f["case"]["path"] == case["path"] and \
                        f["case"]["doc"] == case["doc"]:
                    return f
        return None
    doc = corpus.load(case["doc"])
    segs = C01.tup(case["segs"])
    check_delete(st, doc, case["doc"], "?", segs, case["path"])
    for lst in st.fails.values():
        return lst[0]
    return None


def _segs_of(ptext):
    for op, segs, _ in SESSION_MENU:
        if paths.render(segs, "/") == ptext:
            return segs
    raise core.HarnessError("unknown session step %r" % ptext)


def repro(case):
    from vkit.props import C03
    if case.get("op") == "session":
        return "# one Processor, steps in order: %r on %r" % (
            case["session"], case["doc"])
    return C03.repro(case)
