"""
C13 - search keywords select by their definitions.

Exhaustive families: all sequences of same-kind scalars (with repeats and
nulls), all Arrays-of-Hashes / hashes-of-hashes over attribute patterns
{value, repeated value, absent, null}, each x keyword x inversion x parameter;
parent(n) and name() for every node of every corpus document and every n.
The oracle is definitional (refkeywords); results are compared by node
identity and order through the same entry points as C01.
"""
import itertools

from vkit import core, corpus, paths
from vkit.props import C01

ID = "C13"
LEVEL = "model_checking"
RULE = ("all sequences of length <= L over three same-kind pools + null; all "
        "AoH / hash-of-hashes of <= R records with attribute a in {v1, v2, "
        "absent, null}; x 7 keywords x inversion x parameter {none, a, "
        "missing}; parent(n) for every position and n in 0..depth+1, name() "
        "for every position, and both after every 1-segment C01 path; "
        "non-trivial = reference answer non-empty; distinct = distinct "
        "(document shape, path signature, result size)")
ASSUMPTIONS = list(C01.ASSUMPTIONS) + [
    "max/min/unique/distinct over mixed-kind members, over containers, over "
    "empty or all-null lists are not decided by the documents (unspecified)",
]

CASES = []      # (spec, [(segs, dot, slash)...])


def kwsegs():
    out = []
    for kw in ("max", "min", "unique", "distinct", "has_child"):
        for params in ((), ("a",), ("zz",)):
            for inv in (False, True):
                out.append(("kw", kw, params, inv))
    return out


def rp(segs):
    return (segs, paths.render(segs, "."), paths.render(segs, "/"))


def families(tier):
    maxlen = 4 if tier == "quick" else 5
    maxrec = 3 if tier == "quick" else 4
    kws = kwsegs()
    fam = []
    # (a) sequences of same-kind scalars
    seq_paths = []
    for kw in kws:
        seq_paths.append(rp((kw,)))
    seq_paths_x = [rp((("key", "x"),) + p[0]) for p in seq_paths]
    for pool in ((1000, 2000, 3000), ("aa", "bb", "cc"), (1.5, 2.5),
                 (0, -1, 7), (0.0, -0.5),
                 # different values whose CPython hashes coincide
                 (-1, -2, 2305843009213693951), (-1.0, -2.0)):
        alpha = pool + (None,)
        for n in range(1, maxlen + 1):
            for combo in itertools.product(alpha, repeat=n):
                fam.append((("l", combo), seq_paths))
                if n <= 3:
                    fam.append((("m", (("x", ("l", combo)),)), seq_paths_x))
    # (b) Arrays-of-Hashes / (c) hashes of hashes
    rec_paths = []
    for kw in kws:
        rec_paths.append(rp((kw,)))
        rec_paths.append(rp((kw, ("key", "id"))))
    rec_paths_x = [rp((("key", "x"),) + p[0]) for p in rec_paths]
    for vals in ((1000, 2000), ("aa", "bb"), (0, -1), (0.0, 2.5), (-1, -2)):
        # (zero and negative values: a greatest or least value that is falsy)
        pats = vals + ("-", None)
        for n in range(1, maxrec + 1):
            for combo in itertools.product(pats, repeat=n):
                recs = []
                for i, a in enumerate(combo):
                    kv = [("id", "r%d" % i)]
                    if a != "-":
                        kv.append(("a", a))
                    recs.append(("m", tuple(kv)))
                fam.append((("l", tuple(recs)), rec_paths))
                fam.append((("m", (("x", ("l", tuple(recs))),)), rec_paths_x))
                keyed = tuple(("k%d" % i, r) for i, r in enumerate(recs))
                fam.append((("m", keyed), rec_paths))
                fam.append((("m", (("x", ("m", keyed)),)), rec_paths_x))
    # null members inside an AoH
    for a in (1000, None):
        fam.append((("l", (("m", (("a", a),)), None)), rec_paths))
    return fam


def spelling_family():
    """Attribute names the parameter parser has to take apart: spaces,
    commas, parentheses and quotes, written with backslash escapes and with
    quote demarcation, in both notations."""
    fam = []
    for attr in ("a b", "a,b", " a", "a ", "a(b", "a)b", "a'b", 'a"b',
                 "a\\b", "a.b", "a/b", "a  b", "ab"):
        twin = attr.replace(" ", "")
        recs = []
        for i, val in enumerate((1000, 2000, "-", 1000)):
            kv = [("id", "r%d" % i)]
            if val != "-":
                kv.append((attr, val))
            if twin != attr and i in (1, 2):
                # a record holding the look-alike key without the space
                kv.append((twin, 3000))
            recs.append(("m", tuple(kv)))
        spec = ("l", tuple(recs))
        plist = []
        for kw in ("has_child", "max", "min", "unique", "distinct"):
            for inv in (False, True):
                seg = ("kw", kw, (attr,), inv)
                for tail in ((), (("key", "id"),)):
                    segs = (seg,) + tail
                    plist.append((segs, paths.render(segs, ".", "bs"),
                                  paths.render(segs, "/", "q")))
                    plist.append((segs, paths.render(segs, ".", "q"),
                                  paths.render(segs, "/", "bs")))
        fam.append((spec, plist))
    return fam


ANCHOR_DOC = (
    "h1: {plain: &v shared}\n"
    "h2: {&k2 key2: &v2 val}\n"
    "h3: {&k3 key3: other}\n"
    "h4: {x: y}\n"
    "h5: {&k5 key5: *v}\n"
    "h6: {z: *v2}\n")
ANCHOR_CASES = [
    # has_child(&name): the hashes with a child whose key or value bears it
    ("v", ["h1", "h5"]), ("v2", ["h2", "h6"]), ("k2", ["h2"]),
    ("k3", ["h3"]), ("k5", ["h5"]), ("nope", []),
]


def anchored_child_family(st):
    from yamlpath import Processor
    doc = corpus.load(ANCHOR_DOC)
    names = ["h1", "h2", "h3", "h4", "h5", "h6"]
    for anchor, want in ANCHOR_CASES:
        for inv in (False, True):
            for sep in (".", "/"):
                ptext = ("/*[%shas_child(&%s)][name()]" if sep == "/" else
                         "*[%shas_child(&%s)][name()]") % (
                             "!" if inv else "", anchor)
                st.evaluations += 1
                st.transitions += 1
                st.validated += 1
                case = {"doc": ANCHOR_DOC, "path": ptext,
                        "anchored_child": True}
                exp = [n for n in names if (n in want) != inv]
                try:
                    got = [str(nc.node) for nc in Processor(
                        corpus.LOG, doc).get_nodes(ptext, mustexist=False)]
                except Exception as ex:   # pylint: disable=broad-except
                    got = "%s: %s" % (type(ex).__name__, str(ex)[:80])
                st.states += 1
                st.sig("anchored-child", anchor, inv)
                if got != exp:
                    st.fail("has_child(&anchor)|%s" % (
                        "inverted" if inv else "plain"), case, repr(exp),
                            repr(got))


NOTATION_DOC = (
    "ports: [0x50, 80, 443, 8080, 0o1]\n"
    "w: [&s 5, 5, 7, *s]\n"
    "tags: [\"web\", db, web, cache, 'db']\n"
    "recs: [{n: a, m: \"x\"}, {n: b, m: x}, {n: c, m: 0x1}, {n: d, m: 1}, "
    "{n: e, m: y}]\n")
NOTATION_CASES = [
    ("/ports[unique()]", [443, 8080, 1]), ("/ports[!unique()]", [80, 80]),
    ("/ports[distinct()]", [80, 443, 8080, 1]),
    ("/w[unique()]", [7]), ("/w[!unique()]", [5, 5, 5]),
    ("/w[distinct()]", [5, 7]),
    ("/tags[unique()]", ["cache"]),
    ("/tags[!unique()]", ["web", "db", "web", "db"]),
    ("/tags[distinct()]", ["web", "db", "cache"]),
    ("/recs[unique(m)]/n", ["e"]), ("/recs[!unique(m)]/n", ["a", "b", "c", "d"]),
    ("/recs[distinct(m)]/n", ["a", "c", "e"]),
]


def notation_family(st):
    """unique / distinct group members by VALUE however the document writes
    it (hexadecimal, anchored, quoted): ruamel keeps each spelling in a node
    type of its own."""
    from yamlpath import Processor
    doc = corpus.load(NOTATION_DOC)
    for ptext, want in NOTATION_CASES:
        for text in (ptext, ptext[1:].replace("/", ".")):
            st.evaluations += 1
            st.transitions += 1
            st.validated += 1
            st.states += 1
            case = {"doc": NOTATION_DOC, "path": text, "notation_case": True}
            try:
                got = [corpus.plain_scalar(nc.node)[1] for nc in Processor(
                    corpus.LOG, doc).get_nodes(text, mustexist=False)]
            except Exception as ex:       # pylint: disable=broad-except
                got = "%s: %s" % (type(ex).__name__, str(ex)[:80])
            st.sig("notation", ptext)
            # (which members, not in which order: inverted results come
            # group by group)
            if isinstance(got, str) or sorted(map(repr, got)) != sorted(
                    map(repr, want)):
                st.fail("notation|%s" % ptext.split("[")[1].split("(")[0],
                        case, repr(want), repr(got))


def nav(pos):
    segs = []
    for ref in pos:
        if isinstance(ref, bool) or ref is None or isinstance(ref, float):
            return None
        if isinstance(ref, int):
            segs.append(("idx", ref))
        else:
            segs.append(("key", str(ref)))
    return tuple(segs)


def spec_positions(spec, pos=()):
    out = [pos]
    if isinstance(spec, tuple):
        if spec[0] == "m":
            for k, v in spec[1]:
                out.extend(spec_positions(v, pos + (k,)))
        elif spec[0] == "l":
            for i, v in enumerate(spec[1]):
                out.extend(spec_positions(v, pos + (i,)))
    return out


def climb_family(tier):
    fam = []
    nmax = 4 if tier == "quick" else 5
    docs = corpus.docs(nmax, (None, 1000, "a"), ("a", "b"), sets=False)
    voc = paths.vocab("c01-quick")
    for spec in docs:
        plist = []
        for pos in spec_positions(spec):
            base = nav(pos)
            if base is None:
                continue
            for n in range(0, len(pos) + 2):
                plist.append(rp(base + (("kw", "parent", (str(n),), False),)))
                # ... and the key / index the ancestor is held under
                plist.append(rp(base + (("kw", "parent", (str(n),), False),
                                        ("kw", "name", (), False))))
            plist.append(rp(base + (("kw", "parent", (), False),)))
            plist.append(rp(base + (("kw", "name", (), False),)))
            # climbs in two steps start from where the first one arrived
            # (also beyond the root: refused), and name() after them
            for a in range(0, len(pos) + 1):
                for b in range(1, len(pos) + 2 - a):
                    two = base + (("kw", "parent", (str(a),), False),
                                  ("kw", "parent", (str(b),), False))
                    plist.append(rp(two))
                    plist.append(rp(two + (("kw", "name", (), False),)))
            if len(pos) >= 1:
                # up, down the same way again, up once more
                last = ("key", str(pos[-1])) if not isinstance(
                    pos[-1], int) else ("idx", pos[-1])
                plist.append(rp(base + (("kw", "parent", (), False), last,
                                        ("kw", "parent", (), False),
                                        ("kw", "name", (), False))))
        if corpus.size(spec) <= 4:
            for seg in voc:
                for kw in (("kw", "parent", (), False),
                           ("kw", "parent", ("2",), False),
                           ("kw", "name", (), False),
                           ("kw", "has_child", ("a",), False),
                           ("kw", "has_child", ("a",), True)):
                    plist.append(rp((seg, kw)))
        fam.append((spec, plist))
    for spec in corpus.collision_pack():
        plist = []
        for seg in voc:
            for kw in (("kw", "parent", (), False),
                       ("kw", "parent", ("2",), False),
                       ("kw", "name", (), False),
                       ("kw", "has_child", ("a",), False),
                       ("kw", "has_child", ("a",), True)):
                plist.append(rp((seg, kw)))
        fam.append((spec, plist))
    return fam


def plan(tier):
    global CASES
    CASES = families(tier) + climb_family(tier) + spelling_family()
    npaths = sum(len(p) for _, p in CASES)
    bounds = {"documents": len(CASES), "cases": npaths,
              "sequence_max_length": 4 if tier == "quick" else 5,
              "records_max": 3 if tier == "quick" else 4,
              "keywords": ["max", "min", "unique", "distinct", "has_child",
                           "parent", "name"]}
    step = 60
    shards = [(lo, min(len(CASES), lo + step))
              for lo in range(0, len(CASES), step)]
    return shards, bounds


def run_shard(shard):
    lo, hi = shard
    st = core.Stats(ID)
    for ci in range(lo, hi):
        spec, plist = CASES[ci]
        text = corpus.render(spec)
        doc = corpus.load(text)
        shp = corpus.shape(spec)
        before = corpus.canon(doc, anchors=True)
        for segs, dot, slash in plist:
            dirty = C01.check_case(st, doc, text, shp, segs, dot, slash,
                                   before)
            if dirty:
                doc = corpus.load(text)
        if ci == lo and plist:
            st.sample({"doc": text, "path": plist[len(plist) // 3][1]})
    if lo == 0:
        anchored_child_family(st)
        notation_family(st)
    return st


def replay(case):
    if case.get("anchored_child"):
        st = core.Stats(None)
        anchored_child_family(st)
        for lst in st.fails.values():
            for f in lst:
                if f["case"]["path"] == case["path"]:
                    return f
        return None
    if case.get("notation_case"):
        st = core.Stats(None)
        notation_family(st)
        for lst in st.fails.values():
            for f in lst:
                if f["case"]["path"] == case["path"]:
                    return f
        return None
    return C01.replay(case)


repro = C01.repro
