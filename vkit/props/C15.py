"""
C15 - evaluating any path on any document fails only with YAML Path errors.

Product exploration with *unrestricted* bounds: indexes and slice bounds
ranging over negative / in-range / out-of-range values, searches over null
and mixed-type children, invalid regular expressions, keyword searches over
unhashable members, traversals, collectors.  The oracle needs no expected
value: the outcome must be results or a member of the YAML Path exception
family.
"""
import copy

from vkit import core, corpus, paths, qrun

ID = "C15"
LEVEL = "model_checking"
RULE = ("all documents <= N nodes + collision pack + a mixed-container pack x "
        "all 1-segment paths and all 2-segment paths whose first segment is "
        "one of 6 navigators, over a vocabulary with out-of-range bounds, "
        "invalid regexes, keyword searches and collectors; required query on "
        "every case, optional query (on a copy) when the path ends in a key / "
        "index; non-trivial = the query returned results or a YAML Path error "
        "other than 'unmatched'; distinct = distinct (document shape, path "
        "signature, outcome class)")
ASSUMPTIONS = [
    "paths are rendered from well-formed segment ASTs (garbage text the parser "
    "happens to accept is C14's subject)",
]

DOCS = []
PATHS = []


def raw(text, keyish=False):
    return ("raw", text, keyish)


def render(segs, sep):
    out = ""
    first = True
    for seg in segs:
        if seg[0] in ("raw", "collraw"):
            text, keyish = seg[1], seg[2]
        else:
            text, keyish = paths.render_seg(seg, sep)
        if sep == "/":
            out += ("/" + text) if (keyish or first) else text
        else:
            out += ("." + text) if (keyish and not first) else text
        first = False
    return out


def vocab():
    v = []
    for k in ("a", "b", "0", "1", "-1", "-5", "5"):
        v.append(("key", k))
    for i in range(-3, 5):
        v.append(("idx", i))
    for a in (-3, -1, 0, 1, 2, 4):
        for b in (-3, -1, 0, 1, 2, 4):
            v.append(("slice", a, b))
    v.append(("slice", "a", "b"))
    v.append(("slice", "0", "1"))
    v.append(raw("[a:1]"))
    v.append(raw("[0:b]"))
    v.append(("anchor", "A"))
    v.append(("all",))
    v.append(("trav",))
    for attr in (".", "a"):
        for op in paths.OPS:
            for term in ("a", "1000"):
                for inv in (False, True):
                    v.append(("search", attr, op, term, inv))
        for bad in ("(", "[", "*a", "a{4294967296}", "(?u)(?a)x"):
            v.append(raw("[%s=~/%s/]" % (attr, bad)))
    v.append(raw("[a.b=a]"))
    v.append(raw("[/a/b=a]"))
    v.append(raw("[.=]"))
    for kw in ("has_child", "max", "min", "unique", "distinct"):
        for params in ((), ("a",), ("a", "b")):
            for inv in (False, True):
                v.append(("kw", kw, params, inv))
    # degenerate parameter lists (empty members, lone anchors marks, blanks)
    for kw in ("has_child", "max", "min", "unique", "distinct", "parent",
               "name"):
        for inner in (",", ",,", " ", "''", "a,", ",a", "&", "&a", "\\,",
                      '""', "' '", "0,", "-"):
            v.append(raw("[%s(%s)]" % (kw, inner)))
            if inner in (",", "&", "''"):
                v.append(raw("[!%s(%s)]" % (kw, inner)))
    v.append(raw("[has_child(a\\'b)]"))
    v.append(raw("[max(a\\'b)]"))
    for params in ((), ("0",), ("1",), ("2",), ("5",), ("x",), ("-1",),
                   ("1", "2")):
        v.append(("kw", "parent", params, False))
    v.append(("kw", "name", (), False))
    v.append(("kw", "name", ("a",), False))
    v.append(("kw", "name", (), True))
    for text, operands in COLLECTORS:
        v.append(("collraw", text, False, operands))
    return v


# collector expressions with the operand paths they evaluate: the property
# limits collectors to operands selecting scalars, so a case is in scope only
# when every operand (evaluated alone) selects nothing but scalars
COLLECTORS = [
    ("(a)", ("a",)), ("(a)+(b)", ("a", "b")), ("(a)-(b)", ("a", "b")),
    ("(a)&(b)", ("a", "b")), ("(*)+(a)", ("*", "a")), ("(*)-(a)", ("*", "a")),
    ("(**)&(*)", ("**", "*")), ("(a)(b)", ("a", "b")),
    ("((a)+(b))-(a)", ("a", "b")), ("(a)+(b)-(a)&(b)", ("a", "b")),
    ("(*)-(**)", ("*", "**")), ("([0])+([1])", ("[0]", "[1]")),
    ("(**)-(**)", ("**",)), ("(**)+(**)", ("**",)),
    # slices reaching past either end as operands (in scope where the sliced
    # Array holds scalars only)
    ("([-9:2])", ("[-9:2]",)), ("([0:9])", ("[0:9]",)),
    ("([-9:9])", ("[-9:9]",)), ("([-9:-7])", ("[-9:-7]",)),
    ("([5:9])", ("[5:9]",)), ("([-9:9])[0]", ("[-9:9]",)),
    ("([-9:1])+([2])", ("[-9:1]", "[2]")), ("([0])+([-9:2])", ("[0]", "[-9:2]")),
    ("([-9:2])-([0])", ("[-9:2]", "[0]")), ("([1:9])&([-9:2])", ("[1:9]", "[-9:2]")),
]


NAV = [("key", "a"), ("idx", 0), ("all",), ("trav",),
       ("search", ".", "=", "zz", True), ("slice", 0, 2)]


def mixed_pack():
    """Lists of length 0-3 mixing scalars, nulls, hashes and lists."""
    import itertools
    members = (None, 1000, "a", ("m", (("a", 1000),)), ("l", ("a",)),
               ("m", ()), ("l", ()), 0, False)      # (falsy scalars, too)
    out = []
    for n in range(0, 4):
        for combo in itertools.product(members, repeat=n):
            out.append(("l", combo))
            if n <= 2:
                out.append(("m", (("a", ("l", combo)),)))
    return out


def plan(tier):
    global DOCS, PATHS
    if tier == "quick":
        DOCS = corpus.docs(3, (None, 1000, "a"), ("a", "b"))
    else:
        DOCS = corpus.docs(4, (None, 1000, "a"), ("a", "b"))
    DOCS = DOCS + corpus.collision_pack() + mixed_pack() + \
        corpus.merge_pack()
    voc = vocab()
    plist = [(s,) for s in voc]
    for nav in NAV:
        for s in voc:
            plist.append((nav, s))
    PATHS = [(p, render(p, "."), render(p, "/")) for p in plist]
    bounds = {"documents": len(DOCS), "paths": len(PATHS),
              "vocabulary": len(voc), "navigators": len(NAV),
              "index_range": [-3, 4],
              "slice_bounds": [-3, -1, 0, 1, 2, 4]}
    step = 25
    shards = [(lo, min(len(DOCS), lo + step))
              for lo in range(0, len(DOCS), step)]
    from vkit.props import C14
    shards += [("accepted", sym) for sym in C14.SIGMA]
    from vkit.props import C04
    shards += [("session", len(C04.SESSION_SEEDS) - 1, first)
               for first in range(len(C04.SESSION_MENU))]
    bounds["live_sessions"] = "C04's session family on the Array-of-Hashes " \
        "seed (depth 3): only exceptions escaping a query step count here"
    bounds["accepted_texts"] = {
        "alphabet": C14.SIGMA, "max_length": 3, "contexts": C14.CONTEXTS,
        "inner_max_length": 2, "documents": ACCEPT_DOCS}
    return shards, bounds


ACCEPT_DOCS = ['{"a": [1, {"b": "a"}], "b": "a"}', '["a", ["b", 1]]', '"a"']


def accepted_shard(first):
    """Every text of <= 3 symbols (and every text of <= 2 symbols inside each
    syntactic context) of C14's alphabet that the parser accepts is a
    syntactically valid path: evaluated on three documents it must give
    results or a YAML Path error."""
    import itertools
    from vkit.props import C14
    st = core.Stats(ID)
    docs = [(t, corpus.load(t)) for t in ACCEPT_DOCS]
    texts = [first]
    for n in (1, 2):
        for tail in itertools.product(C14.SIGMA, repeat=n):
            texts.append(first + "".join(tail))
    for pre, post in C14.CONTEXTS:
        texts.append(pre + first + post)
        for sym in C14.SIGMA:
            texts.append(pre + first + sym + post)
    for text in texts:
        out, _ = C14.probe(text)
        if out != "ok":
            continue
        for dtext, doc in docs:
            st.evaluations += 1
            st.transitions += 1
            st.validated += 1
            res = qrun.query(doc, text, mustexist=True)
            cls = res.kind if res.kind in ("nodes", "unmatched") else (
                res.kind + ":" + res.detail.split("@")[0])
            st.outcomes[cls] += 1
            st.states += 1
            if res.kind == "crash":
                st.fail("accepted-text|%s" % res.detail,
                        {"doc": dtext, "path": text, "mode": "required"},
                        "results or a YAML Path error", res.detail)
            elif res.kind != "unmatched":
                st.sig("accepted", text, cls)
    return st


def sigof(segs):
    out = []
    for s in segs:
        if s[0] in ("raw", "collraw"):
            out.append("raw:" + s[1])
        else:
            out.append(paths.sig((s,)))
    return "/".join(out)


def session_shard(seed_index, first):
    """Live sessions (C04's family: ONE Processor over every sequence of up
    to three sets / deletes / queries on one live document); here only what
    escapes from a query step counts."""
    from vkit.props import C04
    st4 = C04.session_family(seed_index, 3, first)
    st = core.Stats(ID)
    st.evaluations, st.transitions = st4.evaluations, st4.transitions
    st.states, st.validated = st4.states, st4.validated
    st.sigs = st4.sigs
    for cls, lst in st4.fails.items():
        if cls.startswith("session|query|crash"):
            for f in lst:
                st.fail(cls, f["case"], f["expected"], f["observed"])
            st.fail_counts[cls] = st4.fail_counts[cls]
    return st


def run_shard(shard):
    if shard[0] == "accepted":
        return accepted_shard(shard[1])
    if shard[0] == "session":
        return session_shard(shard[1], shard[2])
    lo, hi = shard
    st = core.Stats(ID)
    for di in range(lo, hi):
        spec = DOCS[di]
        text = corpus.render(spec)
        doc = corpus.load(text)
        shp = corpus.shape(spec)
        for pi, (segs, dot, slash) in enumerate(PATHS):
            # alternate the notation deterministically; both are covered for
            # every path across the documents
            ptxt = dot if (di + pi) % 2 == 0 else slash
            check_case(st, doc, text, shp, segs, ptxt)
        if di % CLIMB_STRIDE == 0:
            climb_create_family(st, doc, text, shp)
            consumer_edit_family(st, doc, text, shp)
        if di == lo:
            st.sample({"doc": text, "path": PATHS[(di * 7) % len(PATHS)][1]})
    return st


CLIMB_STRIDE = 1
CLIMB_FIRST = ["*", "[.!=zz]", "[a:b]", "**", "a.*", "a[.!=zz]", "[0].*"]
CLIMB_UP = ["[parent()]", "[parent(0)]", "[parent(2)]"]
CLIMB_TAIL = ["new", "[&new]", "[5]", "a", "[0]"]


def climb_create_family(st, doc, text, shp):
    """An optional-match query (the default mode of get_nodes) which climbs
    back with parent() into a container it is still enumerating and names a
    missing child there: results or a YAML Path error - no RuntimeError from
    the container changing under the enumeration, and an end."""
    for first in CLIMB_FIRST:
        for up in CLIMB_UP:
            for tail in CLIMB_TAIL:
                ptxt = first + up + (tail if tail.startswith("[")
                                     else "." + tail)
                dup = copy.deepcopy(doc)
                st.evaluations += 1
                st.transitions += 3
                st.validated += 1
                out = qrun.query(dup, ptxt, mustexist=False, default="z",
                                 limit=200)
                st.outcomes["optional:" + (out.kind if out.kind != "crash"
                                           else "crash")] += 1
                st.states += 1
                if out.kind == "crash":
                    st.fail("optional|%s" % out.detail,
                            {"doc": text, "path": ptxt, "mode": "optional"},
                            "results or a YAML Path error", out.detail)
                elif out.kind == "nodes":
                    st.sig(shp, "climb", first, up, tail)


EDIT_PATHS = ["*", "[.^a]", "[.!=zz]", "[.=~/./]", "**", "[a:b]", "[0:2]",
              "[a!=zz]", "a.*", "a[.!=zz]", "a[0:2]", "*.*", "[has_child(a)]",
              "[!has_child(zz)]", "a[max()]", "a[!max()]"]
EDITS = ("drop-last", "drop-first", "drop-others", "clear")


def _enumerated(doc, ptxt):
    """The container the first segment(s) of the path enumerate."""
    if ptxt.startswith("a") and corpus.is_map(doc) and "a" in doc:
        return doc["a"]
    return doc


def _apply_edit(cont, edit, keep):
    if corpus.is_map(cont):
        keys = [k for k in cont.keys()]
        victims = {"drop-last": keys[-1:], "drop-first": keys[:1],
                   "drop-others": [k for k in keys if cont[k] is not keep],
                   "clear": keys}[edit]
        for k in victims:
            if k in cont:
                del cont[k]
    elif corpus.is_list(cont):
        if edit == "drop-last" and cont:
            del cont[-1]
        elif edit == "drop-first" and cont:
            del cont[0]
        elif edit == "drop-others":
            cont[:] = [e for e in cont if e is keep]
        elif edit == "clear":
            del cont[:]


def consumer_edit_family(st, doc0, text, shp):
    """get_nodes() is a generator: its consumer may edit the document between
    two results (the tools do - delete what was found, rename it).  Whatever
    it removes from the container under enumeration after the FIRST result,
    the rest of the query still ends in results or a YAML Path error."""
    for ptxt in EDIT_PATHS:
        for edit in EDITS:
            for must in (True, False):
                doc = copy.deepcopy(doc0)
                st.evaluations += 1
                st.transitions += 2
                st.validated += 1
                outcome = "nodes"
                try:
                    proc = qrun.Processor(corpus.LOG, doc)
                    count = 0
                    for nc in proc.get_nodes(ptxt, mustexist=must,
                                             default_value="z"):
                        count += 1
                        if count == 1:
                            keep = nc.node if not isinstance(
                                nc, list) else None
                            _apply_edit(_enumerated(doc, ptxt), edit, keep)
                        if count > 200:
                            outcome = "crash:Endless"
                            break
                except qrun.YAMLPathException:
                    outcome = "ype"
                except RecursionError:
                    outcome = "crash:RecursionError"
                except Exception as ex:   # pylint: disable=broad-except
                    outcome = "crash:%s@%s" % (type(ex).__name__,
                                               qrun.where(ex))
                st.states += 1
                st.outcomes["edited:" + outcome.split(":")[0]] += 1
                if outcome.startswith("crash"):
                    st.fail("consumer-edit|%s|%s" % (edit, outcome[6:]),
                            {"doc": text, "path": ptxt, "mode": "edit",
                             "edit": edit, "mustexist": must},
                            "results or a YAML Path error", outcome)
                else:
                    st.sig(shp, "edit", ptxt, edit, outcome)


def scalars_only(doc, nav, operands):
    """Do all collector operands (below the navigator) select only scalars?"""
    for op in operands:
        segs = ((nav,) if nav else ()) + (("raw", op, not op.startswith("[")),)
        out = qrun.query(doc, render(segs, "/"), mustexist=True)
        if out.kind == "crash":
            return True         # the crash itself will be judged
        for nc in out.ncs:
            if op.startswith("[") and ":" in op and not isinstance(nc, list) \
                    and isinstance(nc.node, list) and all(
                        corpus.is_scalar(getattr(e, "node", e))
                        for e in nc.node):
                continue        # a slice of an Array of scalars
            if isinstance(nc, list) or qrun.is_virtual(nc) \
                    or not corpus.is_scalar(nc.node):
                return False
    return True


def check_case(st, doc, text, shp, segs, ptxt):
    if segs and segs[-1][0] == "collraw":
        nav = segs[0] if len(segs) > 1 else None
        if not scalars_only(doc, nav, segs[-1][3]):
            st.extra["collector_cases_out_of_scope_nonscalar_operand"] += 1
            return
    st.evaluations += 1
    st.transitions += len(segs)
    st.validated += 1
    sig = sigof(segs) if segs else ptxt
    out = qrun.query(doc, ptxt, mustexist=True)
    cls = out.kind if out.kind in ("nodes", "unmatched") else (
        out.kind + ":" + out.detail.split("@")[0])
    st.outcomes[cls] += 1
    st.states += 1
    if out.kind == "crash":
        st.fail("required|%s" % out.detail, {"doc": text, "path": ptxt,
                                             "mode": "required"},
                "results or a YAML Path error", out.detail)
    elif out.kind != "unmatched":
        st.sig(shp, sig, cls)
    if segs and segs[-1][0] in ("key", "idx", "slice", "anchor"):
        dup = copy.deepcopy(doc)
        out2 = qrun.query(dup, ptxt, mustexist=False, default="z")
        st.evaluations += 1
        st.outcomes["optional:" + (out2.kind if out2.kind != "crash" else
                                   "crash")] += 1
        if out2.kind == "crash":
            st.fail("optional|%s" % out2.detail, {"doc": text, "path": ptxt,
                                                  "mode": "optional"},
                    "results or a YAML Path error", out2.detail)


def replay(case):
    if case.get("op") == "session":
        from vkit.props import C04
        f = C04.replay(case)
        return f if f and f["cls"].startswith("session|query|crash") else None
    st = core.Stats(None)
    doc = corpus.load(case["doc"])
    if case.get("mode") == "edit":
        consumer_edit_family(st, doc, case["doc"], "?")
        for lst in st.fails.values():
            for f in lst:
                if f["case"]["path"] == case["path"] and \
                        f["case"]["edit"] == case["edit"] and \
                        f["case"]["mustexist"] == case["mustexist"]:
                    return f
        return None
    if case.get("mode") == "optional":
        out = qrun.query(doc, case["path"], mustexist=False, default="z",
                         limit=200)
    else:
        out = qrun.query(doc, case["path"], mustexist=True)
    if out.kind == "crash":
        return {"cls": "%s|%s" % (case.get("mode"), out.detail), "case": case,
                "expected": "results or a YAML Path error",
                "observed": out.detail}
    return None


def repro(case):
    return (
        "from types import SimpleNamespace\n"
        "from yamlpath import Processor\n"
        "from yamlpath.common import Parsers\n"
        "from yamlpath.wrappers import ConsolePrinter\n"
        "log = ConsolePrinter(SimpleNamespace(verbose=False, quiet=True, "
        "debug=False))\n"
        "doc, _ = Parsers.get_yaml_data(Parsers.get_yaml_editor(), log, %r, "
        "literal=True)\n"
        "print(list(Processor(log, doc).get_nodes(%r, mustexist=%s)))\n"
        % (case["doc"], case["path"], case.get("mode") != "optional"))
