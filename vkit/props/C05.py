"""
C05 - merging two documents yields the policy-defined result for every
option mix; structurally impossible merges are merge errors.

Product exploration: all ordered pairs of a merge corpus (maps, lists,
Arrays-of-Hashes with identity keys, sets, scalars, empty containers, every
pair of kinds clashing under one key) x all 3x4x5x3 policy combinations
(x per-path rule / identity-key overrides in the thorough tier), each merge
run on the real Merger and on the plain-data reference merge.
"""
import itertools

from vkit import core, corpus, mergerun, refmerge

ID = "C05"
LEVEL = "model_checking"
RULE = ("all ordered pairs (L, R) of the merge corpus x all 180 policy "
        "combinations; the real Merger's result is compared with the "
        "reference merge as data (maps order-free) plus the key-order "
        "constraints the property states; expected merge errors must be "
        "MergeException; non-trivial = the reference result differs from L "
        "or is an expected error; distinct = distinct (shape L, shape R, "
        "policy vector, outcome class)")
ASSUMPTIONS = [
    "cases the option documentation leaves open (scalar over a container "
    "under a key, a set into a non-set, duplicates inside the right-hand "
    "array under 'unique', null values) are counted as unspecified; there "
    "only 'no crash' is required",
]

HASHES = ("deep", "left", "right")
ARRAYS = ("all", "left", "right", "unique")
AOH = ("all", "deep", "left", "right", "unique")
SETS = ("unique", "left", "right")
LEFTS = []
RIGHTS = []
POLICIES = []
RULESETS = [None]


def merge_corpus(tier):
    docs = []
    vals = (1, 2, "x")
    docs += corpus.docs(3, vals, ("a", "b"), sets=True, root_scalars=True)
    rec = lambda i, v: ("m", (("id", i), ("v", v)))        # noqa: E731
    aohs = [
        ("l", (rec(1, "x"),)),
        ("l", (rec(1, "y"),)),
        ("l", (rec(1, "x"), rec(2, "y"))),
        ("l", (rec(2, "z"), rec(3, "w"))),
        ("l", (("m", (("v", "x"),)), rec(1, "y"))),       # missing identity
        ("l", (rec(1, "x"), rec(1, "x"))),
        ("l", (rec(1, "x"), 5)),
        ("l", (rec(1, "x"), ("m", ((2, "x"),)))),    # non-text key, no identity
    ]
    docs += aohs
    for a in aohs[:4]:
        docs.append(("m", (("a", a),)))
    kinds = [1, "x", ("m", ()), ("m", (("b", 1),)), ("l", ()),
             ("l", (1, 2)), ("l", (2, 3)), ("l", (rec(1, "x"),)),
             ("s", ("x",)), ("s", ("x", "y"))]
    for k in kinds:
        docs.append(("m", (("a", k),)))
        docs.append(("m", (("b", 2), ("a", k))))
    docs.append(("m", (("a", 1), ("b", 2), ("c", 3))))
    docs.append(("m", (("c", 9), ("b", 8), ("d", 7))))
    docs.append(("m", (("a", ("m", (("a", 1), ("b", 2)))),)))
    docs.append(("m", (("a", ("m", (("c", 3), ("a", 9)))),)))
    docs.append(("s", ("x", "y")))
    docs.append(("s", ("y", "z")))
    # scalars of different types that Python calls equal, at equal keys
    docs.append(("m", (("a", 1), ("b", 0), ("c", 2))))
    docs.append(("m", (("a", True), ("b", False), ("c", 2.0))))
    docs.append(("m", (("a", ("m", (("a", 0), ("b", 1.0)))),)))
    docs.append(("m", (("a", ("m", (("a", False), ("b", 1)))),)))
    # keys with capitals (rule paths are case-sensitive)
    docs.append(("m", (("A", ("l", (1, 2))), ("a", ("l", (1, 2))))))
    docs.append(("m", (("A", ("l", (2, 3))), ("a", ("l", (2, 3))))))
    docs.append(("m", (("A", ("m", (("K", 1),))),)))
    docs.append(("m", (("A", ("m", (("K", 2), ("k", 3)))),)))
    # twin nodes: equal values under the same key name in different parents
    # (a per-path rule must apply to the addressed one only)
    for hv in (("l", ("x",)), ("l", (1, 2)), ("m", (("k", 1),))):
        for hw in (("l", ("y",)), ("l", (2, 3)), ("m", (("k", 2),))):
            if hv[0] != hw[0]:
                continue
            docs.append(("m", (("p", ("m", (("h", hv), ("t", 1)))),
                               ("d", ("m", (("h", hv), ("t", 2)))))))
            docs.append(("m", (("p", ("m", (("h", hw), ("t", 1)))),
                               ("d", ("m", (("h", hw), ("t", 2)))))))
            # ... and in parents that are themselves equal
            docs.append(("m", (("p", ("m", (("h", hv),))),
                               ("d", ("m", (("h", hv),))))))
            docs.append(("m", (("p", ("m", (("h", hw),))),
                               ("d", ("m", (("h", hw),))))))
    # elements and identities that only Python calls equal; repeats within
    # one array; rules written for another kind of node than they meet
    docs.append(("l", (1, 2)))
    docs.append(("l", (True,)))
    docs.append(("l", (1.0, 2)))
    docs.append(("m", (("a", ("l", ("x",))),)))
    docs.append(("m", (("a", ("l", ("y", "y", "x"))),)))
    docs.append(("l", (rec("16", "x"),)))
    docs.append(("l", (rec("0x10", "y"),)))
    docs.append(("l", (rec("true", "x"), rec("7", "w"))))
    docs.append(("l", (rec("1", "y"), rec(" 7", "z"))))
    docs.append(("m", (("a", ("l", ())),)))
    # anchored booleans (ruamel wraps them in an int subclass of its own)
    docs.append(("l", (("&", "T", True), 0)))
    docs.append(("l", (("m", (("id", ("&", "Y", True)), ("v", "x"))),)))
    docs.append(("m", (("a", ("l", (("&", "F", False), ("*", "F"), 2))),)))
    # twin Arrays-of-Hashes: an identity key configured for one of them
    docs.append(("m", (("p", ("l", (rec(1, "x"),))),
                       ("d", ("l", (rec(1, "x"),))))))
    docs.append(("m", (("p", ("l", (rec(2, "x"),))),
                       ("d", ("l", (rec(2, "x"),))))))
    # records whose identity is null, next to records without the identity
    # key at all (an absent key is not a null identity)
    docs.append(("l", (rec(None, "z"),)))
    docs.append(("l", (rec(None, "z"), rec(1, "w"))))
    docs.append(("l", (("m", (("v", "x"),)), rec(None, "y"))))
    docs.append(("l", (("m", (("v", "x"), ("w", 1))), rec(1, "y"))))
    docs.append(("m", (("a", ("l", (rec(None, "z"),))),)))
    docs.append(("m", (("a", ("l", (("m", (("v", "x"),)), rec(2, "y")))),)))
    seen = set()
    out = []
    for d in docs:
        key = repr(d)
        if key not in seen:
            seen.add(key)
            out.append(d)
    return out


def plan(tier):
    global LEFTS, RIGHTS, POLICIES, RULESETS
    docs = merge_corpus(tier)
    if tier == "quick":
        # every document on both sides, over a stride of the policy space
        # that still contains every value of every option paired with every
        # value of every other option
        LEFTS = docs
        RIGHTS = docs
        POLICIES = pairwise_policies()
        RULESETS = [None,
                    {"rules": {"/p/h": "left"}},
                    {"rules": {"/d/h": "right"}},
                    {"rules": {"/a": "left"}},
                    {"rules": {"/A": "right", "/A/K": "left"}},
                    {"keys": {"/a": "v"}},
                    {"keys": {"/p": "v"}},
                    {"rules": {"/a": "deep"}}]
    else:
        LEFTS = docs
        RIGHTS = docs
        POLICIES = [dict(hashes=h, arrays=a, aoh=o, sets=s)
                    for h in HASHES for a in ARRAYS for o in AOH
                    for s in SETS]
        RULESETS = [None,
                    {"rules": {"/a": "left"}},
                    {"rules": {"/a": "right"}},
                    {"keys": {"/a": "v"}},
                    {"keys": {"/": "v"}},
                    {"rules": {"/p/h": "left"}},
                    {"rules": {"/d/h": "right"}},
                    {"rules": {"/p/h": "unique", "/d": "left"}},
                    {"rules": {"/A": "right", "/A/K": "left"}},
                    {"keys": {"/p": "v"}},
                    {"rules": {"/a": "deep"}}]
    bounds = {"left_documents": len(LEFTS), "right_documents": len(RIGHTS),
              "policy_vectors": len(POLICIES), "rule_sets": len(RULESETS),
              "policy_space": "3x4x5x3 = 180" if tier != "quick" else
              "all-pairs covering subset of 3x4x5x3 (%d vectors)"
              % len(POLICIES)}
    shards = [(i,) for i in range(len(LEFTS))]
    return shards, bounds


def pairwise_policies():
    """A subset of the 180 vectors in which every pair of option values
    (across two different options) occurs - greedy all-pairs cover, fixed."""
    allv = [dict(hashes=h, arrays=a, aoh=o, sets=s) for h in HASHES
            for a in ARRAYS for o in AOH for s in SETS]
    names = ("hashes", "arrays", "aoh", "sets")
    need = set()
    for v in allv:
        for x, y in itertools.combinations(names, 2):
            need.add((x, v[x], y, v[y]))
    chosen = []
    while need:
        best, gain = None, -1
        for v in allv:
            g = sum(1 for x, y in itertools.combinations(names, 2)
                    if (x, v[x], y, v[y]) in need)
            if g > gain:
                best, gain = v, g
        chosen.append(best)
        for x, y in itertools.combinations(names, 2):
            need.discard((x, best[x], y, best[y]))
    # always include the all-defaults vector and the single-deviation ones
    base = dict(hashes="deep", arrays="all", aoh="all", sets="unique")
    extra = [base]
    for n, vals in (("hashes", HASHES), ("arrays", ARRAYS), ("aoh", AOH),
                    ("sets", SETS)):
        for val in vals:
            v = dict(base)
            v[n] = val
            extra.append(v)
    out = []
    for v in extra + chosen:
        if v not in out:
            out.append(v)
    return out


def run_shard(shard):
    (li,) = shard
    st = core.Stats(ID)
    lspec = LEFTS[li]
    ltext = corpus.render(lspec)
    ldoc = corpus.load(ltext)
    lcanon = corpus.canon(ldoc)
    for rspec in RIGHTS:
        rtext = corpus.render(rspec)
        rdoc = corpus.load(rtext)
        rcanon = corpus.canon(rdoc)
        shapes = (corpus.shape(lspec), corpus.shape(rspec))
        for pol in POLICIES:
            for rs in RULESETS:
                check_merge(st, ldoc, rdoc, lcanon, rcanon, ltext, rtext,
                            shapes, pol, rs)
    st.sample({"lhs": ltext, "rhs": corpus.render(RIGHTS[li % len(RIGHTS)]),
               "policies": POLICIES[li % len(POLICIES)]})
    return st


def ref_policy(pol, rs):
    p = dict(pol)
    if rs:
        def topath(text):
            return tuple(x for x in text.strip("/").split("/") if x)
        if "rules" in rs:
            p["rules"] = {topath(k): v for k, v in rs["rules"].items()}
        if "keys" in rs:
            p["keys"] = {topath(k): v for k, v in rs["keys"].items()}
    return p


def rules_addressable(rs, rcanon):
    """[rules]/[keys] paths are resolved in the right-hand document: every
    step of /a/b must be a key of a right-hand Hash, / an Array-of-Hashes
    root; a [keys] entry must address an Array-of-Hashes."""
    for section in ("rules", "keys"):
        for path in (rs.get(section) or {}):
            names = [x for x in path.strip("/").split("/") if x]
            node = rcanon
            for name in names:
                if node[0] != "m":
                    return False
                kids = dict((refmerge.keyname(k), v) for k, v in node[1])
                if name not in kids:
                    return False
                node = kids[name]
            if (not names or section == "keys") and not refmerge.is_aoh(node):
                return False
    return True


def check_merge(st, ldoc, rdoc, lcanon, rcanon, ltext, rtext, shapes, pol, rs):
    st.evaluations += 1
    st.transitions += 1
    case = {"lhs": ltext, "rhs": rtext, "policies": pol, "config": rs}
    psig = "%(hashes)s/%(arrays)s/%(aoh)s/%(sets)s" % pol
    if rs and not rules_addressable(rs, rcanon):
        st.extra["ruleset_not_addressing_rhs_skipped"] += 1
        st.evaluations -= 1
        st.transitions -= 1
        return
    try:
        exp = ("doc", refmerge.merge(lcanon, rcanon, ref_policy(pol, rs)))
    except refmerge.MergeError as ex:
        exp = ("error", str(ex))
    except refmerge.Unspecified as ex:
        exp = ("unspecified", str(ex))
    cfg = mergerun.make_config(pol, rules=(rs or {}).get("rules"),
                               keys=(rs or {}).get("keys"))
    res, data = mergerun.merge(mergerun.fresh(ldoc), mergerun.fresh(rdoc), cfg)
    st.outcomes[res] += 1
    st.validated += 1
    kinds = "%s<-%s" % (lcanon[0] if lcanon[0] in "mls" else "v",
                        rcanon[0] if rcanon[0] in "mls" else "v")
    if res == "crash":
        st.fail("crash|%s|%s" % (kinds, data), case,
                exp[0] + ":" + str(exp[1])[:200], data)
        return
    if exp[0] == "unspecified":
        st.extra["unspecified"] += 1
        return
    st.states += 1
    if exp[0] == "error":
        st.sig(shapes, psig, "error")
        if res == "ok":
            st.fail("no-merge-error|%s|%s" % (kinds, exp[1]), case,
                    "MergeException (%s)" % exp[1],
                    repr(corpus.canon(data))[:300])
        elif res != "merge-error":
            st.fail("wrong-error|%s|%s" % (kinds, exp[1]), case,
                    "MergeException", "%s %s" % (res, data))
        return
    if exp[1] != lcanon:
        st.sig(shapes, psig, "changed")
    if res != "ok":
        st.fail("spurious-error|%s|%s" % (kinds, res), case,
                repr(exp[1])[:300], "%s: %s" % (res, data))
        return
    got = corpus.canon(data)
    if refmerge.unordered(got) != refmerge.unordered(exp[1]):
        st.fail("wrong-result|%s|%s" % (kinds, psig), case,
                repr(exp[1])[:400], repr(got)[:400])
        return
    bad = None
    if refmerge.policy(ref_policy(pol, rs), "hashes", ()) == "deep":
        bad = refmerge.order_violation(lcanon, rcanon, got)
    if bad:
        st.fail("key-order|%s" % kinds, case, "relative key order kept", bad)


def replay(case):
    st = core.Stats(None)
    ldoc = corpus.load(case["lhs"])
    rdoc = corpus.load(case["rhs"])
    check_merge(st, ldoc, rdoc, corpus.canon(ldoc), corpus.canon(rdoc),
                case["lhs"], case["rhs"], ("?", "?"), case["policies"],
                case.get("config"))
    for lst in st.fails.values():
        return lst[0]
    return None


def repro(case):
    return (
        "import sys\n"
        "from types import SimpleNamespace\n"
        "from yamlpath.common import Parsers\n"
        "from yamlpath.merger import Merger, MergerConfig\n"
        "from yamlpath.wrappers import ConsolePrinter\n"
        "log = ConsolePrinter(SimpleNamespace(verbose=False, quiet=True, "
        "debug=False))\n"
        "yaml = Parsers.get_yaml_editor()\n"
        "lhs, _ = Parsers.get_yaml_data(yaml, log, %r, literal=True)\n"
        "rhs, _ = Parsers.get_yaml_data(yaml, log, %r, literal=True)\n"
        "m = Merger(log, lhs, MergerConfig(log, SimpleNamespace(**%r), "
        "**%r))\n"
        "m.merge_with(rhs)\n"
        "yaml.dump(m.data, sys.stdout)\n"
        % (case["lhs"], case["rhs"], case["policies"], case.get("config")
           or {}))
