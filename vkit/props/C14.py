"""
C14 - parsing any text as a YAML Path ends in segments or a YAML Path error.

(a) black box: every string up to length L over the syntactic alphabet;
(b) explicit-state BFS over the parser's own reachable states (parsergraph).
"""
import itertools
import signal
import traceback

from yamlpath import YAMLPath
from yamlpath.enums import PathSegmentTypes, PathSeparators
from yamlpath.exceptions import YAMLPathException

from vkit import core

ID = "C14"
LEVEL = "model_checking"
RULE = ("(c) the same strings wrapped in each of 9 syntactic contexts; "
        "(a) all strings of length <= L over the 27-symbol syntactic alphabet "
        "are parsed (escaped, unescaped), stringified under AUTO/DOT/FSLASH "
        "and have their keyword parameters split; (b) BFS over the parser's "
        "reachable states (state = live locals of the parser after a prefix, "
        "transition = append one symbol and re-parse on the real code), every "
        "transition's full text also gets the (a) checks.  distinct_nontrivial "
        "= distinct parser states reached + distinct (outcome, segment-type "
        "sequence) signatures of accepted black-box strings.")
ASSUMPTIONS = [
    "characters outside the alphabet behave like the two letters (the parser "
    "compares characters only against the significant ones); the one place "
    "where that could fail - white-space of every kind around and inside "
    "the search keywords, which are looked up by name - is enumerated by a "
    "family of its own",
    "termination watchdog: a batch of 2000 strings may take 60 s",
    "graph: literal runs inside one segment id are capped; states beyond the "
    "depth bound are not expanded",
]

SIGMA = [".", "/", "[", "]", "(", ")", "'", '"', "\\", "=", "!", "<", ">",
         "~", "^", "$", "%", "&", "*", "+", "-", ":", ",", " ", "a", "b", "1"]
# multi-character symbols let the graph reach keyword searches
GRAPH_SIGMA = SIGMA + ["max", "has_child", "parent", "name"]
SEPS = (PathSeparators.DOT, PathSeparators.FSLASH)
# (c) the same exhaustive strings placed inside each syntactic context, which
# reaches depths the plain enumeration cannot (e.g. keyword parameters)
CONTEXTS = [("[max(", ")]"), ("[has_child(", ")]"), ("[a=", "]"),
            ("[a=~", "]"), ("(", ")"), ("a[", "]"), ("/a/", ""),
            ("(a)+(", ")"), ("'", "'")]


class _Timeout(BaseException):
    pass


def _alarm(signum, frame):
    raise _Timeout()


def _where(ex):
    """innermost frame inside the library: 'file:function:source line'."""
    best = None
    for fs in traceback.extract_tb(ex.__traceback__):
        if "/yamlpath/" in fs.filename.replace("\\", "/"):
            best = fs
    if best is None:
        return "?"
    return "%s:%s:%s" % (best.filename.rsplit("/", 1)[-1], best.name,
                         (best.line or "").strip())


def _parameters(attrs):
    """Split a keyword segment's parameters.

    The accessor's own `raise ValueError` for an unmatched quote is pinned by
    the repository's test-suite (test_path_searchkeywordterms.py::
    test_unmatched_demarcation) and is therefore its documented outcome; any
    other exception type escapes to the oracle.  (What a *query* does with
    such a segment is C15's business.)
    """
    if not hasattr(type(attrs), "parameters"):
        return
    try:
        attrs.parameters  # pylint: disable=pointless-statement
    except ValueError as ex:
        if "unmatched demarcation" not in str(ex):
            raise


def probe(text):
    """-> (outcome, segment type names) ; outcome 'ok' | 'ype' | 'EXC:...'"""
    try:
        path = YAMLPath(text)
        esc = path.escaped
        path.unescaped          # pylint: disable=pointless-statement
        str(path)
        for sep in SEPS:
            path.separator = sep
            str(path)
        # a separator forced before the path is first read
        for sep in SEPS:
            lazy = YAMLPath(text)
            lazy.separator = sep
            lazy.escaped        # pylint: disable=pointless-statement
            lazy.unescaped      # pylint: disable=pointless-statement
        types = []
        for (stype, attrs) in esc:
            types.append(stype.name)
            if stype is PathSegmentTypes.KEYWORD_SEARCH:
                _parameters(attrs)
        return "ok", tuple(types)
    except YAMLPathException:
        return "ype", ()
    except _Timeout:
        raise
    except Exception as ex:      # pylint: disable=broad-except
        return "EXC:%s@%s" % (type(ex).__name__, _where(ex)), ()


def check_text(st, text, how):
    """Apply the oracle to one text; record into st."""
    out, types = probe(text)
    st.evaluations += 1
    if out == "ok":
        st.outcomes["ok"] += 1
        if types:
            st.sig("bb", types)
    elif out == "ype":
        st.outcomes["YAMLPathException"] += 1
    else:
        st.outcomes[out.split("@")[0]] += 1
        st.fail(out, {"text": text, "via": how},
                "segments or YAMLPathException", out)
    return out


def _guarded(st, texts, how):
    old = signal.signal(signal.SIGALRM, _alarm)
    try:
        signal.alarm(60)
        try:
            done = 0
            for text in texts:
                check_text(st, text, how)
                done += 1
            signal.alarm(0)
            return
        except _Timeout:
            pass
        # find the culprit one by one
        for text in texts[done:]:
            signal.alarm(10)
            try:
                check_text(st, text, how)
            except _Timeout:
                st.evaluations += 1
                st.outcomes["TIMEOUT"] += 1
                st.fail("TIMEOUT", {"text": text, "via": how},
                        "termination", "no result within 10 s")
        signal.alarm(0)
    finally:
        signal.alarm(0)
        signal.signal(signal.SIGALRM, old)


# ---------------------------------------------------------------- black box
def ctx_shard(arg):
    (pre, post), first, maxlen = arg
    st = core.Stats(ID)
    batch = [pre + post] if first == SIGMA[0] else []
    for n in range(0, maxlen):
        for tail in itertools.product(SIGMA, repeat=n):
            batch.append(pre + first + "".join(tail) + post)
            if len(batch) >= 2000:
                _guarded(st, batch, "context %s...%s" % (pre, post))
                batch = []
    if batch:
        _guarded(st, batch, "context %s...%s" % (pre, post))
    return st


def bb_shard(arg):
    prefix, maxlen = arg
    st = core.Stats(ID)
    batch = []
    if prefix is None:
        texts = [""] + SIGMA[:] + SPECIAL_TEXTS   # lengths 0 and 1
        _guarded(st, texts, "blackbox")
        for t in ("a]", "[a", "(a)+(b)"):
            st.sample({"text": t, "via": "blackbox"})
        return st
    for n in range(0, maxlen - len(prefix) + 1):
        for tail in itertools.product(SIGMA, repeat=n):
            batch.append(prefix + "".join(tail))
            if len(batch) >= 2000:
                _guarded(st, batch, "blackbox")
                batch = []
    if batch:
        _guarded(st, batch, "blackbox")
    return st


# texts no short enumeration reaches: a regular expression which holds every
# delimiter the stringifier could fall back on (written with one of its own),
# very long runs, deep nesting
_ALL_DELIMS = "/|_#@;:,`-+&0123456789"
SPECIAL_TEXTS = [
    "logs[.=~!^(0|1|2|3|4|5|6|7|8|9)[/|_#@;:,`+&-]+$!]",
    "[a=~!%s!]" % _ALL_DELIMS, "/x[.=~?%s?]" % _ALL_DELIMS,
    "[.!=~!%s!]" % _ALL_DELIMS, "(a[.=~!%s!])+(b)" % _ALL_DELIMS,
    "[.=~/%s/]" % _ALL_DELIMS.replace("/", ""),
    "a" * 5000, "a." * 2000, "[0]" * 1000, "\\" * 999,
    # regular expressions no compiler takes: for their size, their nesting,
    # their syntax (parsing a path must not depend on any of these)
    "a[b=~/x{4294967296}/]", "/a[.=~|y{99999999999999999999}|]",
    "[.=~/%s%s/]" % ("(" * 3000, ")" * 3000), "[k!=~/(?P<n>a)(?P<n>b)/]",
    "[.=~/(/]", "[.=~/[z-a]/]", "[.=~/a**/]", "[.=~/(?u)(?a)x/]",
    "(a[.=~/x{4294967296}/])-(b)", "a[b=~/\\/]",
]
KEYWORDS = ["has_child", "max", "min", "name", "parent", "unique", "distinct"]
BLANKS = ["", " ", "\t", "\n", "\r", "\x0b", "\x0c", "\u00a0", "\u2003",
          "\\ ", "\\\t", "  ", " \t"]


def kwws_shard(kw):
    """Characters OUTSIDE the alphabet where they could matter: every kind
    of white-space (and its escaped form) before, inside the name of, and
    after each real search keyword, plain and inverted, alone and after a
    key."""
    st = core.Stats(ID)
    texts = []
    for pre in BLANKS:
        for mid in BLANKS:
            for inv in ("", "!"):
                for params in ("", "a", "a, b"):
                    for lead in ("", "x", "/x"):
                        texts.append("%s[%s%s%s%s(%s)]" % (
                            lead, inv, pre, kw, mid, params))
        # white-space splitting the keyword's own name
        for cut in range(1, len(kw)):
            texts.append("[%s%s%s(a)]" % (kw[:cut], pre, kw[cut:]))
    for lo in range(0, len(texts), 2000):
        _guarded(st, texts[lo:lo + 2000], "keyword %s + white-space" % kw)
    return st


# -------------------------------------------------------------------- graph
_OBS = None


def _obs():
    global _OBS
    if _OBS is None:
        from vkit import parsergraph
        _OBS = parsergraph.Observer()
    return _OBS


def expand(arg):
    """Successors of a batch of (text, depth) states -> list of
    (text, symbol, result, key, absorbing) + Stats of the bb checks."""
    items, maxseg = arg
    obs = _obs()
    st = core.Stats(ID)
    out = []
    texts = []
    for text in items:
        for sym in GRAPH_SIGMA:
            nxt = text + sym
            res, key, absorbing = obs.run(nxt)
            st.transitions += 1
            texts.append(nxt)
            if key is not None and not absorbing:
                segid = dict(key).get("segment_id", "")
                if len(segid) > maxseg:
                    key = None          # beyond the literal-run bound
            out.append((nxt, res, key, absorbing))
    _guarded(st, texts, "graph")
    st.validated = st.transitions
    return out, st


def graph(total, depth, maxseg, witness):
    from vkit import parsergraph
    try:
        parsergraph.analyse()
    except parsergraph.Unavailable as ex:
        total.extra["graph_unavailable"] = 1
        return {"available": False, "why": str(ex)}
    seen = {("INIT",): ""}
    second = {}
    frontier = [""]
    level = 0
    absorbing_n = 0
    while frontier and level < depth:
        n = max(1, len(frontier) // (core.jobs() * 4) + 1)
        chunks = [(frontier[i:i + n], maxseg)
                  for i in range(0, len(frontier), n)]
        nxt_frontier = []
        for out, st in core.pmap(expand, chunks):
            total.merge(st)
            for text, res, key, absorbing in out:
                if absorbing:
                    absorbing_n += 1
                    continue
                if key is None:
                    continue
                if key not in seen:
                    seen[key] = text
                    nxt_frontier.append(text)
                elif witness and key not in second and seen[key] != text:
                    second[key] = text
        frontier = nxt_frontier
        level += 1
    total.states += len(seen)
    for key in seen:
        total.sig("state", key)
    mism = 0
    if witness and second:
        # soundness witness of the state key: two different prefixes that
        # reach the same key must have identical successors.
        pairs = sorted((seen[k], second[k]) for k in second)
        n = max(1, len(pairs) // (core.jobs() * 4) + 1)
        chunks = [pairs[i:i + n] for i in range(0, len(pairs), n)]
        for bad, cnt in core.pmap(witness_chunk, chunks):
            total.extra["witness_pairs"] += cnt
            mism += len(bad)
            if bad:
                raise core.HarnessError(
                    "state key is not a bisimulation: %r" % (bad[:3],))
    samp = [t for t in list(seen.values())[-200:] if len(t) >= 3][:3]
    for t in samp:
        total.sample({"text": t, "via": "graph (first prefix reaching a state)"})
    return {"available": True, "depth": depth, "alphabet": GRAPH_SIGMA,
            "max_literal_run": maxseg, "absorbing_error_transitions":
            absorbing_n, "unexpanded_frontier": len(frontier),
            "witness_pairs": len(second)}


def witness_chunk(pairs):
    obs = _obs()
    bad = []
    for a, b in pairs:
        for sym in GRAPH_SIGMA:
            ra = obs.run(a + sym)
            rb = obs.run(b + sym)
            if ra != rb:
                # results may differ only through the droppable variables
                bad.append((a, b, sym, ra[0], rb[0]))
                break
    return bad, len(pairs)


# ---------------------------------------------------------------- interface
def explore(tier, seed):
    maxlen = 4 if tier == "quick" else 5
    depth, maxseg = (5, 2) if tier == "quick" else (8, 2)
    total = core.Stats(ID)
    shards = [(None, maxlen)] + [(a + b, maxlen) for a in SIGMA for b in SIGMA]
    rot = seed % len(shards)
    shards = shards[rot:] + shards[:rot]
    for st in core.pmap(bb_shard, shards, 4):
        total.merge(st)
    bb_evals = total.evaluations
    ctxlen = 4 if tier == "quick" else 5
    cshards = [(c, f, ctxlen) for c in CONTEXTS for f in SIGMA]
    for st in core.pmap(ctx_shard, cshards, 2):
        total.merge(st)
    ctx_evals = total.evaluations - bb_evals
    for st in core.pmap(kwws_shard, KEYWORDS):
        total.merge(st)
    kw_evals = total.evaluations - bb_evals - ctx_evals
    ginfo = graph(total, depth, maxseg, witness=(tier != "quick"))
    bounds = {"blackbox": {"alphabet": SIGMA, "max_length": maxlen,
                           "strings": bb_evals,
                           "separator_settings": ["AUTO", "DOT", "FSLASH"]},
              "contexts": {"wrappers": CONTEXTS, "inner_max_length": ctxlen,
                           "strings": ctx_evals},
              "keywords_and_white_space": {"keywords": KEYWORDS, "blanks": [
                  repr(b) for b in BLANKS], "strings": kw_evals},
              "graph": ginfo}
    return total, bounds


def replay(case):
    st = core.Stats(None)
    _guarded(st, [case["text"]], case.get("via", "replay"))
    for lst in st.fails.values():
        return lst[0]
    return None


def repro(case):
    return ("from yamlpath import YAMLPath\n"
            "p = YAMLPath(%r)\n"
            "print(p.escaped, p.unescaped, str(p))\n"
            "for t, a in p.escaped:\n"
            "    if hasattr(a, 'parameters'): print(a.parameters)\n"
            % case["text"])
