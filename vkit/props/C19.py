"""
C19 - EYAML key rotation re-keys every secret once and touches nothing else.

Documents: every way to place encrypted and plain scalars (one-line, folded,
with white-space before the marker, anchored and aliased from a hash value and
from a list, look-alikes that are not secrets) in small skeletons.  The real
`eyaml_rotate_keys.main()` runs in-process with the external command replaced
by a keyed, reversible stand-in cipher (call log kept); a subset runs through
the stand-in as a real executable.
"""
import itertools
import os
import re

import yamlpath.eyaml.eyamlprocessor as eproc_mod

from vkit import cli, core, corpus, fake_eyaml
from vkit.corpus import anchor_of

ID = "C19"
LEVEL = "model_checking"
RULE = ("skeletons (hash of values, list, nested hash/list) x every "
        "assignment of slot kinds {secret one-line, secret folded, secret "
        "with leading white-space, plaintext, look-alike xENC[, look-alike "
        "enc[, int, null} to 2-4 slots, plus anchored secrets aliased from a "
        "hash value / a list element; x {--backup, no backup}; plus wrong-"
        "old-key and no-secret files; non-trivial = >= 1 secret; distinct = "
        "distinct (skeleton, slot kinds, backup)")
ASSUMPTIONS = [
    "hiera-eyaml itself is absent: a deterministic keyed stand-in implements "
    "the same command-line protocol (wrong keys -> exit 1, block output "
    "folded with CR LF)",
]

STUB = os.path.join(core.VERIF, "tools", "fake-eyaml")
KINDS = ("secret", "folded", "spaced", "split", "tabbed", "plain", "xenc", "lowenc",
         "int", "null")
SKELETONS = ["hash2", "hash3", "list3", "nested", "deep"]
CASES = []


def keys(wd):
    names = {}
    for n in ("oldpub", "oldpriv", "newpub", "newpriv", "otherpub",
              "otherpriv"):
        path = os.path.join(wd, n + ".pem")
        with open(path, "w", encoding="utf-8") as fh:
            fh.write("KEY " + n + "\n")
        names[n] = path
    return names


def keymat(kf, which):
    data = b""
    for n in (which + "pub", which + "priv"):
        with open(kf[n], "rb") as fh:
            data += fh.read()
    return data


def slot_text(kind, plain, key, indent):
    """YAML text of one scalar slot (after 'key:' or '-')."""
    pad = " " * (indent + 2)
    if kind == "secret":
        return " " + fake_eyaml.encrypt(plain, key)
    if kind == "folded":
        enc = fake_eyaml.encrypt(plain, key)
        lines = [enc[i:i + 30] for i in range(0, len(enc), 30)]
        return " >\n" + "\n".join(pad + l for l in lines)
    if kind == "split":
        # white-space and a line break INSIDE the ENC[ marker itself
        enc = fake_eyaml.encrypt(plain, key)
        lines = [enc[:2], enc[2:20]] + [enc[i:i + 30]
                                        for i in range(20, len(enc), 30)]
        return " >\n" + "\n".join(pad + l for l in lines)
    if kind == "tabbed":
        # a folded value whose content starts with a TAB (white-space, too)
        enc = fake_eyaml.encrypt(plain, key)
        lines = [enc[i:i + 30] for i in range(0, len(enc), 30)]
        return " >\n" + pad + "\t" + ("\n" + pad).join(lines)
    if kind == "spaced":
        enc = fake_eyaml.encrypt(plain, key)
        return ' "  %s %s"' % (enc[:12], enc[12:])
    if kind == "plain":
        return " " + plain
    if kind == "xenc":
        return " xENC[PKCS7,notasecret]"
    if kind == "lowenc":
        return " enc[PKCS7,notasecret]"
    if kind == "int":
        return " 4242"
    return " null"


def build(skel, kinds, key):
    """-> (yaml text, [(position description, kind, plaintext)])"""
    # secrets carry line ends of every flavour in the middle of the text;
    # plain slots get the one-line spelling
    # ... and white-space of every kind in front of the text
    secret_plains = ["alpha one", "bravo2\r\nsecond line\nthird",
                     "  charlie three", "\n\tdelta\rx"]
    simple = ["alpha one", "bravo2", "charlie three", "delta"]
    plains = [secret_plains[i] if is_secret_kind(kinds[i]) else simple[i]
              for i in range(len(kinds))]
    slots = []
    lines = []
    if skel == "hash2":
        names = ["first", "second"]
    elif skel == "hash3":
        names = ["first", "second", "third"]
    else:
        names = None
    if names:
        for i, name in enumerate(names):
            lines.append("%s:%s" % (name, slot_text(kinds[i], plains[i], key,
                                                    0)))
            slots.append(((name,), kinds[i], plains[i]))
    elif skel == "list3":
        lines.append("items:")
        for i in range(3):
            lines.append("  -%s" % slot_text(kinds[i], plains[i], key, 2))
            slots.append((("items", i), kinds[i], plains[i]))
    elif skel == "nested":
        lines.append("outer:")
        lines.append("  inner:%s" % slot_text(kinds[0], plains[0], key, 2))
        slots.append((("outer", "inner"), kinds[0], plains[0]))
        lines.append("  list:")
        lines.append("    -%s" % slot_text(kinds[1], plains[1], key, 4))
        slots.append((("outer", "list", 0), kinds[1], plains[1]))
        lines.append("top:%s" % slot_text(kinds[2], plains[2], key, 0))
        slots.append((("top",), kinds[2], plains[2]))
    else:
        lines.append("a:")
        lines.append("  - b:")
        lines.append("      c:%s" % slot_text(kinds[0], plains[0], key, 6))
        slots.append((("a", 0, "b", "c"), kinds[0], plains[0]))
        lines.append("    d:%s" % slot_text(kinds[1], plains[1], key, 4))
        slots.append((("a", 0, "d"), kinds[1], plains[1]))
    return "\n".join(lines) + "\n", slots


def anchored_docs(key):
    """Anchored secrets aliased from a hash value and from a list."""
    enc = fake_eyaml.encrypt("shared secret", key)
    enc2 = fake_eyaml.encrypt("other", key)
    out = []
    out.append(("anchored-hash",
                "first: &S %s\nsecond: *S\nthird: plain\n" % enc,
                [(("first",), "secret", "shared secret"),
                 (("second",), "secret", "shared secret"),
                 (("third",), "plain", "plain")], [[("first",), ("second",)]]))
    out.append(("anchored-list",
                "base: &S %s\nitems:\n  - *S\n  - %s\n  - *S\n" % (enc, enc2),
                [(("base",), "secret", "shared secret"),
                 (("items", 0), "secret", "shared secret"),
                 (("items", 1), "secret", "other"),
                 (("items", 2), "secret", "shared secret")],
                [[("base",), ("items", 0), ("items", 2)]]))
    out.append(("anchored-in-list",
                "items:\n  - &S %s\n  - *S\nother: *S\n" % enc,
                [(("items", 0), "secret", "shared secret"),
                 (("items", 1), "secret", "shared secret"),
                 (("other",), "secret", "shared secret")],
                [[("items", 0), ("items", 1), ("other",)]]))
    out.append(("two-anchors",
                "a: &S %s\nb: &T %s\nc: [*S, *T]\n" % (enc, enc2),
                [(("a",), "secret", "shared secret"),
                 (("b",), "secret", "other"),
                 (("c", 0), "secret", "shared secret"),
                 (("c", 1), "secret", "other")],
                [[("a",), ("c", 0)], [("b",), ("c", 1)]]))
    # YAML merge keys: a local secret overriding a merged one, a secret seen
    # only through the merge, and the merge key in last position
    enc3 = fake_eyaml.encrypt("third\r\nsecret", key)
    out.append(("merge-override",
                "defaults: &D\n  password: %s\n  user: plain\n"
                "prod:\n  <<: *D\n  password: %s\n"
                "stage:\n  <<: *D\n  token: %s\n" % (enc, enc2, enc3),
                [(("defaults", "password"), "secret", "shared secret"),
                 (("defaults", "user"), "plain", "plain"),
                 (("prod", "password"), "secret", "other"),
                 (("prod", "user"), "plain", "plain"),
                 (("stage", "password"), "secret", "shared secret"),
                 (("stage", "token"), "secret", "third\r\nsecret")],
                [[("defaults", "password"), ("stage", "password")]]))
    out.append(("merge-last",
                "base: &D\n  password: %s\nlist:\n  - token: %s\n"
                "    password: %s\n    <<: *D\n" % (enc, enc3, enc2),
                [(("base", "password"), "secret", "shared secret"),
                 (("list", 0, "token"), "secret", "third\r\nsecret"),
                 (("list", 0, "password"), "secret", "other")], []))
    # a secret inside an anchored CONTAINER which is aliased elsewhere: the
    # one scalar is reached by as many routes as the container has sites
    out.append(("aliased-hash",
                "a: &H\n  secret: %s\n  other: plain\nb: *H\nc: [*H]\n" % enc,
                [(("a", "secret"), "secret", "shared secret"),
                 (("a", "other"), "plain", "plain"),
                 (("b", "secret"), "secret", "shared secret"),
                 (("c", 0, "secret"), "secret", "shared secret")],
                [[("a", "secret"), ("b", "secret"), ("c", 0, "secret")]]))
    out.append(("aliased-list",
                "a: &L\n  - %s\n  - plain\nb: *L\ntop: %s\n" % (enc, enc2),
                [(("a", 0), "secret", "shared secret"),
                 (("a", 1), "plain", "plain"),
                 (("b", 0), "secret", "shared secret"),
                 (("top",), "secret", "other")],
                [[("a", 0), ("b", 0)]]))
    # the same ciphertext pasted twice, and two equal records: twins which are
    # NOT shared through an anchor (each is a secret of its own to rotate)
    out.append(("twin-ciphertexts",
                "items:\n  - %s\n  - plain\n  - %s\n  - %s\n" % (
                    enc, enc, enc2),
                [(("items", 0), "secret", "shared secret"),
                 (("items", 1), "plain", "plain"),
                 (("items", 2), "secret", "shared secret"),
                 (("items", 3), "secret", "other")], []))
    out.append(("twin-records",
                "list:\n  - password: %s\n    user: plain\n"
                "  - password: %s\n    user: plain\n"
                "  - password: %s\n    user: plain\n" % (enc, enc, enc),
                [(("list", 0, "password"), "secret", "shared secret"),
                 (("list", 0, "user"), "plain", "plain"),
                 (("list", 1, "password"), "secret", "shared secret"),
                 (("list", 1, "user"), "plain", "plain"),
                 (("list", 2, "password"), "secret", "shared secret")], []))
    out.append(("twin-values",
                "a: %s\nb: %s\nc:\n  - - %s\n  - - %s\n" % (
                    enc, enc, enc, enc),
                [(("a",), "secret", "shared secret"),
                 (("b",), "secret", "shared secret"),
                 (("c", 0, 0), "secret", "shared secret"),
                 (("c", 1, 0), "secret", "shared secret")], []))
    # anchored secrets which nothing aliases (one-line and folded, as a hash
    # value and as a list element): the anchor is part of the file
    f1 = slot_text("folded", "shared secret", key, 0)
    f2 = slot_text("folded", "other", key, 2)
    out.append(("anchored-unaliased",
                "solo: &S %s\nfold: &F%s\nlist:\n  - plain\n  - &L%s\n"
                "last: &P plain\n" % (enc2, f1, f2),
                [(("solo",), "secret", "other"),
                 (("fold",), "secret", "shared secret"),
                 (("list", 0), "plain", "plain"),
                 (("list", 1), "secret", "other"),
                 (("last",), "plain", "plain")], []))
    return out


N_ANCHORED = 12


def plan(tier):
    global CASES
    CASES = []
    nslots = {"hash2": 2, "hash3": 3, "list3": 3, "nested": 3, "deep": 2}
    for skel in SKELETONS:
        kinds_pool = KINDS if (tier != "quick" or nslots[skel] == 2) else (
            "secret", "folded", "spaced", "split", "tabbed", "plain", "xenc",
            "null")
        for kinds in itertools.product(kinds_pool, repeat=nslots[skel]):
            CASES.append(("grid", skel, kinds))
    for i in range(N_ANCHORED):
        CASES.append(("anchored", i, None))
    bounds = {"skeletons": SKELETONS, "slot_kinds": list(KINDS),
              "cases": len(CASES), "backup": [False, True]}
    step = 40
    return [(lo, min(len(CASES), lo + step))
            for lo in range(0, len(CASES), step)], bounds


def run_shard(shard):
    lo, hi = shard
    st = core.Stats(ID)
    with cli.workdir("vkit-c19-") as wd:
        kf = keys(wd)
        okey = keymat(kf, "old")
        for ci in range(lo, hi):
            kind, a, b = CASES[ci]
            if kind == "grid":
                text, slots = build(a, b, okey)
                classes = []
                label = "%s:%s" % (a, "/".join(b))
            else:
                label, text, slots, classes = anchored_docs(okey)[a]
            for backup in (False, True):
                check(st, wd, kf, label, text, slots, classes, backup,
                      real=(ci % 23 == 0 and not backup))
        # a wrong old key must fail
        text, slots = build("hash2", ("secret", "plain"), okey)
        check_wrong_key(st, wd, kf, text)
        # several files in ONE invocation (same anchor names in both): every
        # file must come out as if it had been rotated alone
        if lo == 0:
            multi_family(st, wd, kf, okey)
    st.sample({"case": label, "file": text})
    return st


def multi_family(st, wd, kf, okey):
    """Several files in ONE invocation."""
    docs = anchored_docs(okey)
    grid = [build("hash2", ("secret", "folded"), okey),
            build("list3", ("plain", "secret", "null"), okey),
            build("hash2", ("plain", "int"), okey)]
    files = [(lab, text, slots, classes)
             for lab, text, slots, classes in docs]
    files += [("grid%d" % i, t, sl, []) for i, (t, sl) in
              enumerate(grid)]
    for first in files:
        for second in files:
            for backup in (False, True):
                check_multi(st, wd, kf, [first, second], backup)
    # many files of ONE layout in one invocation (a directory of
    # per-node files): whatever the command remembers of one file -
    # names, places, object identities - must not leak into the next
    many = [same_layout_doc(i, okey) for i in range(8)]
    for count in (3, 5, 8):
        check_multi(st, wd, kf, many[:count], False)
    check_multi(st, wd, kf, many, True)


def same_layout_doc(idx, key):
    """One of a series of files which differ only in their values."""
    lines = ["services:"]
    slots = []
    for j in range(6):
        pw = "n%02d-pw%d" % (idx, j)
        tok = "n%02d-tok%d" % (idx, j)
        lines.append("  - user: user%d" % j)
        lines.append("    password: %s" % fake_eyaml.encrypt(pw, key))
        lines.append("    tokens:")
        lines.append("      - plain%d" % j)
        lines.append("      - %s" % fake_eyaml.encrypt(tok, key))
        slots.append((("services", j, "user"), "plain", "user%d" % j))
        slots.append((("services", j, "password"), "secret", pw))
        slots.append((("services", j, "tokens", 0), "plain", "plain%d" % j))
        slots.append((("services", j, "tokens", 1), "secret", tok))
    return ("node%02d" % idx, "\n".join(lines) + "\n", slots, [])


def rotate(wd, kf, target, backup, real, oldkeys=None):
    argv = ["--oldprivatekey=" + (oldkeys or kf)["oldpriv"],
            "--oldpublickey=" + (oldkeys or kf)["oldpub"],
            "--newprivatekey=" + kf["newpriv"],
            "--newpublickey=" + kf["newpub"], "--eyaml=" + STUB]
    if backup:
        argv.append("--backup")
    argv += target if isinstance(target, list) else [target]
    if real:
        return cli.run("eyaml-rotate-keys", argv, cwd=wd), None
    stub = fake_eyaml.InProcess()
    saved = eproc_mod.run
    eproc_mod.run = stub
    try:
        res = cli.run("eyaml-rotate-keys", argv, cwd=wd)
    finally:
        eproc_mod.run = saved
    return res, stub.log


def value_at(doc, pos):
    node = doc
    for ref in pos:
        node = node[ref]
    return node


def is_secret_kind(kind):
    return kind in ("secret", "folded", "spaced", "split", "tabbed")


def check_multi(st, wd, kf, files, backup):
    """Several files given to one invocation."""
    for name in os.listdir(wd):
        if name.startswith("target") or name.startswith("multi"):
            os.unlink(os.path.join(wd, name))
    targets = []
    for i, (label, text, slots, classes) in enumerate(files):
        path = os.path.join(wd, "multi%d.yaml" % i)
        cli.write(path, text)
        targets.append(path)
    res, log = rotate(wd, kf, targets, backup, False)
    for i, (label, text, slots, classes) in enumerate(files):
        judge(st, wd, kf, "multi[%d of %s]:%s" % (
            i, "+".join(f[0] for f in files), label), text, slots, classes,
              backup, False, targets[i], res, None)


def check(st, wd, kf, label, text, slots, classes, backup, real):
    for name in os.listdir(wd):
        if name.startswith("target"):
            os.unlink(os.path.join(wd, name))
    target = os.path.join(wd, "target.yaml")
    cli.write(target, text)
    try:
        corpus.load(text)
    except corpus.LoadError:
        st.extra["unloadable_generated_document"] += 1
        return
    res, log = rotate(wd, kf, target, backup, real)
    judge(st, wd, kf, label, text, slots, classes, backup, real, target, res,
          log)


def judge(st, wd, kf, label, text, slots, classes, backup, real, target, res,
          log):
    st.evaluations += 1
    case = {"case": label, "file": text, "backup": backup, "real": real}
    before = corpus.load(text)
    secrets = [s for s in slots if is_secret_kind(s[1])]
    st.transitions += 1
    st.validated += 1
    st.states += 1
    st.outcomes["exit=%s" % res.code] += 1
    if secrets:
        st.sig(label.split(":")[0], tuple(s[1] for s in slots), backup)
    if res.exc is not None or res.code != 0:
        st.fail("failed|%s" % ("traceback" if res.exc else res.code), case,
                "exit 0", repr(res)[:300])
        return
    after_bytes = cli.read(target)
    bak = target + ".bak"
    if not secrets:
        if after_bytes != text.encode():
            st.fail("no-secret|rewritten", case, "byte-identical file",
                    after_bytes[:200])
        elif os.path.exists(bak):
            st.fail("no-secret|backup-made", case, "no .bak", "exists")
        elif log:
            st.fail("no-secret|eyaml-called", case, "no external call",
                    repr(log))
        return
    if backup:
        if not os.path.exists(bak) or cli.read(bak) != text.encode():
            st.fail("backup|not-the-pre-image", case, ".bak == original",
                    "missing or different")
            return
    elif os.path.exists(bak):
        st.fail("backup|unrequested", case, "no .bak", "exists")
        return
    try:
        after = corpus.load(after_bytes.decode())
    except corpus.LoadError:
        st.fail("result|unloadable", case, "a loadable file",
                after_bytes[:300])
        return
    okey, nkey = keymat(kf, "old"), keymat(kf, "new")
    for pos, kind, plain in slots:
        try:
            val = value_at(after, pos)
            old = value_at(before, pos)
        except (KeyError, IndexError, TypeError):
            st.fail("result|structure-changed", case, "same positions",
                    repr(pos))
            return
        if is_secret_kind(kind):
            try:
                got = fake_eyaml.decrypt(str(val), nkey)
            except fake_eyaml.BadKey:
                st.fail("secret|not-under-new-keys|%s" % kind, case,
                        "decrypts under the new keys", repr(val)[:80])
                return
            if got != plain:
                st.fail("secret|plaintext-changed|%s" % kind, case, plain, got)
                return
            try:
                fake_eyaml.decrypt(str(val), okey)
                st.fail("secret|still-under-old-keys|%s" % kind, case,
                        "no longer decrypts under the old keys", repr(val))
                return
            except fake_eyaml.BadKey:
                pass
        else:
            if corpus.canon(val, anchors=True) != corpus.canon(
                    old, anchors=True):
                st.fail("non-secret|changed|%s" % kind, case, repr(old),
                        repr(val))
                return
    # frame: keys, order and anchors are unchanged
    if shape_of(after) != shape_of(before):
        st.fail("frame|keys-order-anchors", case, repr(shape_of(before)),
                repr(shape_of(after)))
        return
    # shared values are rotated once and stay shared
    for cls in classes:
        nodes = [value_at(after, p) for p in cls]
        if any(n is not nodes[0] for n in nodes):
            st.fail("anchor|sharing-lost", case, "aliases share one node",
                    repr(cls))
            return
    if log is not None:
        nclasses = len(secrets) - sum(len(c) - 1 for c in classes)
        dec = sum(1 for op, code in log if op == "decrypt")
        enc = sum(1 for op, code in log if op == "encrypt")
        if dec != nclasses or enc != nclasses:
            st.fail("calls|not-once-per-secret", case,
                    "%d decrypt + %d encrypt" % (nclasses, nclasses),
                    "%d decrypt + %d encrypt" % (dec, enc))


def shape_of(node):
    """Keys, order, anchors and which leaves are strings - values dropped."""
    name = anchor_of(node)
    if corpus.is_map(node):
        body = ("m", tuple((str(k), shape_of(v)) for k, v in node.items()))
    elif corpus.is_list(node):
        body = ("l", tuple(shape_of(v) for v in node))
    else:
        body = ("v",)
    return ("&", name, body) if name else body


def check_wrong_key(st, wd, kf, text):
    st.evaluations += 1
    target = os.path.join(wd, "target.yaml")
    for name in os.listdir(wd):
        if name.startswith("target"):
            os.unlink(os.path.join(wd, name))
    cli.write(target, text)
    wrong = dict(kf)
    wrong["oldpub"], wrong["oldpriv"] = kf["otherpub"], kf["otherpriv"]
    res, _ = rotate(wd, kf, target, False, False, oldkeys=wrong)
    st.transitions += 1
    st.outcomes["wrong-key:exit=%s" % res.code] += 1
    case = {"case": "wrong-old-key", "file": text}
    if res.code == 0 or res.exc is not None:
        st.fail("wrong-key|no-failure-status", case, "non-zero exit",
                repr(res)[:200])
    elif cli.read(target) != text.encode():
        st.fail("wrong-key|file-changed", case, "unchanged", "changed")


def replay(case):
    st = core.Stats(None)
    plan("thorough")
    with cli.workdir("vkit-c19-") as wd:
        kf = keys(wd)
        okey = keymat(kf, "old")
        label = case["case"]
        if label == "wrong-old-key":
            text, _ = build("hash2", ("secret", "plain"), okey)
            check_wrong_key(st, wd, kf, text)
        elif label.startswith("multi["):
            # (what one file of an invocation suffers depends on the files
            # named before it: the family is run whole)
            multi_family(st, wd, kf, okey)
            for lst in st.fails.values():
                for f in lst:
                    if f["case"]["case"] == label:
                        return f
            return None
        elif ":" in label:
            skel, kinds = label.split(":")
            text, slots = build(skel, tuple(kinds.split("/")), okey)
            check(st, wd, kf, label, text, slots, [], case["backup"],
                  case.get("real", False))
        else:
            for lab, text, slots, classes in anchored_docs(okey):
                if lab == label:
                    check(st, wd, kf, lab, text, slots, classes,
                          case["backup"], case.get("real", False))
    for lst in st.fails.values():
        return lst[0]
    return None


def repro(case):
    return "# eyaml-rotate-keys on:\n# %s" % case["file"].replace("\n",
                                                                  "\n# ")
