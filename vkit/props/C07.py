"""
C07 - yaml-paths search is sound and complete, and every printed path
resolves.

Every document of the corpus (plus all anchor/alias decorations of base
documents) x every search expression (9 operators, inverted or not, over a
term alphabet) x {values, keys+values, keys only} x the four alias-inclusion
modes x expand on/off x both notations.  The reference (written here, sharing
no code with yaml_paths) visits every position; each reported path is fed
back into a real query in the notation it was printed in and must resolve to
exactly the object that matched; reported and expected sites are compared as
multisets.
"""
import collections

from yamlpath import Processor
from yamlpath.common import Anchors
from yamlpath.commands import yaml_paths
from yamlpath.enums import PathSeparators
from yamlpath.eyaml import EYAMLProcessor

from vkit import core, corpus, paths, qrun, refmatch
from vkit.corpus import anchor_of, is_list, is_map, is_scalar

ID = "C07"
LEVEL = "model_checking"
RULE = ("documents <= N nodes over non-interned scalars + anchor/alias "
        "decorations (alias as map value and list element) x 9 operators x "
        "{plain, !} x terms x {values, keys+values, keys-only} x {anchors "
        "only, key aliases, value aliases, all} x expand {off, on} x {dot, "
        "slash}; non-trivial = the reference expects >= 1 path; distinct = "
        "distinct (document shape, expression, mode vector, #expected)")
ASSUMPTIONS = [
    "value matching is judged by refmatch (C12); expressions it leaves "
    "undecided for some scalar of the document are skipped and counted",
    "anchor *names* search (--refnames), EYAML decryption and sets are not "
    "explored",
]

DOCS = []
EXPRS = []
MODES = []


def base_specs():
    return [
        ("m", (("ka", "aa"), ("kb", ("l", ("ab", 1000))), ("kc", "xx"))),
        ("l", ("aa", ("m", (("ka", "ab"), ("kb", 1000))), "xx")),
        ("m", (("ka", ("l", ("aa", "ab"))), ("kb", ("m", (("ka", 2000),))))),
        ("l", (("l", ("aa", "ab")), ("l", ("xx", 1000)))),
        # a matched key whose value holds containers INSIDE a list (the
        # expansion has to carry the alias options through list elements)
        ("m", (("ka", "aa"), ("kb", ("l", (("m", (("ka", "ab"),
                                                  ("kc", "xx"))), "yy"))))),
        ("m", (("ka", "aa"), ("kb", ("m", (("kc", ("l", (("l", ("ab",)),
                                                         "xx"))),))))),
    ]


def plan(tier):
    global DOCS, EXPRS, MODES
    nmax = 3 if tier == "quick" else 4
    DOCS = corpus.docs(nmax, ("aa", "ab", 1000, 2000), ("ka", "kb"),
                       sets=False)
    for base in base_specs():
        DOCS += corpus.decorations(base, key_alias=False)
    DOCS += corpus.merge_pack()
    # an anchored hash with an equal twin under another name: a merge key
    # names the hash it refers to, not one that merely equals it
    _b = ("m", (("a", 1000), ("b", "a")))
    DOCS += [("m", (("p", ("&", "B", _b)), ("t", ("&", "T", _b)),
                    ("q", ("m", ((("<<", "B"), None), ("c", 1000)))))),
             ("m", (("t", ("&", "T", _b)), ("p", ("&", "B", _b)),
                    ("q", ("l", (("m", ((("<<", "B"), None),)),
                                 ("m", ((("<<", "T"), None),)))))))]
    DOCS += [
        # anchored containers aliased elsewhere, keys starting with the
        # forward-slash
        ("m", (("ka", ("&", "H", ("m", (("kc", "aa"),)))), ("kb", ("*", "H")))),
        ("m", (("ka", ("l", (("&", "H", ("m", (("kc", "aa"),))),
                             ("*", "H")))),)),
        ("m", (("/ka", "aa"), ("kb", ("m", (("/", "ab"), ("/k/c", "aa")))))),
        ("m", (("a.b", "aa"), ("k c", ("m", (("x/y", "ab"),))))),
        ("m", (("ka", ("m", (("ka", ("m", (("ka", "aa"),))),))),)),
        ("m", (("ka", ("l", ())), ("kb", ("m", ())), ("kc", "aa"))),
        # values and keys the search term can only name with escapes
        ("m", (("ka", "a a"), ("k b", ("l", ("a a", "a]", "aa"))),
               ("kc", ("m", (("a a", "it's"), ("kd", "a a b")))))),
        ("l", ("a a", ("m", (("a a", "x"), ("kb", "a\\b"))), "it's")),
        # anchor names holding a separator, on elements of the root Array
        # (where the anchor opens the printed path) and beneath a key
        ("l", (("&", "v1.0", "aa"), "ab", ("*", "v1.0"))),
        ("l", (("&", "s/2", ("m", (("kc", "aa"),))), "ab")),
        ("m", (("ka", ("l", (("&", "v1.0", "aa"), ("&", "s/2", "aa")))),)),
    ]
    EXPRS = []
    terms = ("aa", "a", "1000", "15", "k", "a a", "a]", "it's", "a\\b") \
        if tier != "quick" else ("aa", "a", "1000", "k", "a a", "it's", "B")
    if tier != "quick":
        terms += ("B",)          # (the name of the merge pack's anchor)
    for op in ("=", "^", "$", "%", "<", ">", "<=", ">=", "=~"):
        for term in terms:
            for inv in (False, True):
                EXPRS.append((op, term, inv))
    MODES = []
    for what in ("values", "keys+values", "keys"):
        for ka, va in ((False, False), (True, False), (False, True),
                       (True, True)):
            for expand in (False, True):
                for sep in ("dot", "slash"):
                    MODES.append((what, ka, va, expand, sep))
    bounds = {"documents": len(DOCS), "expressions": len(EXPRS),
              "mode_vectors": len(MODES)}
    step = 6
    bounds["anchor_names_family"] = {
        "expressions": [list(e) for e in NAME_EXPRS],
        "note": "--refnames on every document which defines an anchor: "
                "soundness of every reported path (resolves to one node "
                "whose anchor name satisfies the expression; a merge-key "
                "path names a hash the parent really merges in)"}
    return [(lo, min(len(DOCS), lo + step))
            for lo in range(0, len(DOCS), step)] + [("names",)], bounds


NAME_EXPRS = [("=", "A", False), ("=", "B", False), ("=", "T", False),
              ("^", "B", False), ("=~", "^[AT]$", False)]


def names_family():
    """Anchor NAMES searched too (--refnames), with terms no key or value of
    the corpus satisfies: whatever is reported is reported for its anchor."""
    from yamlpath import YAMLPath
    from yamlpath.enums import PathSegmentTypes
    st = core.Stats(ID)
    for spec in DOCS:
        text = corpus.render(spec)
        if "&" not in text:
            continue
        doc = corpus.load(text)
        all_anchors = {}
        Anchors.scan_for_anchors(doc, all_anchors)
        for op, term, inv in NAME_EXPRS:
            expression = "%s%s" % (op, "/%s/" % term if op == "=~" else term)
            exterm = yaml_paths.get_search_term(corpus.LOG, expression)
            for ka in (False, True):
                for va in (False, True):
                    for sep in (PathSeparators.DOT, PathSeparators.FSLASH):
                        st.evaluations += 1
                        case = {"doc": text, "names": True,
                                "expression": expression,
                                "mode": [ka, va, str(sep)]}
                        proc = EYAMLProcessor(corpus.LOG, doc, binary="eyaml")
                        try:
                            results = list(yaml_paths.search_for_paths(
                                corpus.LOG, proc, doc, exterm, sep,
                                search_values=True, search_keys=False,
                                search_anchors=True, include_key_aliases=ka,
                                include_value_aliases=va, decrypt_eyaml=False,
                                expand_children=False,
                                all_anchors=all_anchors))
                        except Exception as ex:  # pylint: disable=broad-except
                            st.fail("names|crash|%s" % type(ex).__name__,
                                    case, "paths", repr(ex)[:200])
                            continue
                        st.transitions += 1
                        st.states += 1
                        st.validated += len(results)
                        if results:
                            st.sig("names", text, expression, ka, va)
                        for path in results:
                            bad = _judge_name_path(doc, path, sep, op, term)
                            if bad:
                                st.fail("names|%s|%s%s" % (
                                    bad[0], "k" if ka else "-",
                                    "v" if va else "-"), dict(
                                        case, path=str(path)),
                                        "a path to a node anchored by a name "
                                        "which satisfies the expression",
                                        bad[1])
                                break
    return st


def _judge_name_path(doc, path, sep, op, term):
    from yamlpath import YAMLPath
    from yamlpath.enums import PathSegmentTypes
    ptext = str(path)
    proc = Processor(corpus.LOG, doc)
    try:
        nodes = [nc.node for nc in proc.get_nodes(ptext, mustexist=True,
                                                  pathsep=sep)]
    except Exception as ex:               # pylint: disable=broad-except
        return ("unresolvable", "%r: %s" % (ptext, type(ex).__name__))
    if not nodes or any(n is not nodes[0] for n in nodes):
        return ("ambiguous-path", "%r: %d nodes" % (ptext, len(nodes)))
    node = nodes[0]
    name = anchor_of(node)
    if name is None or not matches(op, term, False, name):
        return ("unsound", "%r resolves to a node anchored %r" % (ptext,
                                                                 name))
    segs = YAMLPath(ptext).escaped
    if segs and segs[-1][0] is PathSegmentTypes.ANCHOR and len(segs) > 1:
        parent_path = YAMLPath(ptext)
        parent_path.pop()
        try:
            parents = [nc.node for nc in proc.get_nodes(
                parent_path, mustexist=True)]
        except Exception:                 # pylint: disable=broad-except
            parents = []
        if len(parents) == 1 and is_map(parents[0]):
            par = parents[0]
            own = [v for _, v in par.non_merged_items()] if hasattr(
                par, "non_merged_items") else list(par.values())
            merged = [m[1] for m in (getattr(par, "merge", None) or [])]
            keys = list(par.keys())
            if not any(node is x for x in own + merged + keys):
                return ("unsound-merge-reference",
                        "%r names a node which %r neither holds nor merges "
                        "in" % (ptext, str(parent_path)))
    return None


def run_shard(shard):
    if shard[0] == "names":
        return names_family()
    lo, hi = shard
    st = core.Stats(ID)
    for di in range(lo, hi):
        spec = DOCS[di]
        text = corpus.render(spec)
        doc = corpus.load(text)
        shp = corpus.shape(spec)
        for expr in EXPRS:
            for mode in MODES:
                check(st, doc, text, shp, expr, mode)
        if di == lo:
            st.sample({"doc": text, "expression": "=aa", "mode":
                       list(MODES[9])})
    return st


# ------------------------------------------------------------------ reference
class Undecided(Exception):
    pass


def matches(op, term, inv, value):
    res = refmatch.match(op, term, value)
    if res is refmatch.UNSPECIFIED:
        raise Undecided("%r %s %r" % (value, op, term))
    return bool(res) != bool(inv)


KA = [False]       # the key-alias option of the case being judged


def leaf_sites(node, seen, va):
    """Leaf descendants (as objects), alias repeats dropped unless asked."""
    out = []
    if is_map(node):
        if getattr(node, "merge", None) and not (KA[0] or va):
            # merged-in content is a repeat: listed only when an alias option
            # asks for it, exactly as in the search itself
            items = list(node.non_merged_items())
        else:
            items = list(node.items())
        for _, v in items:
            out += _site_or_leaves(v, seen, va)
    elif is_list(node):
        for v in node:
            out += _site_or_leaves(v, seen, va)
    else:
        out.append(node)
    return out


def _site_or_leaves(v, seen, va):
    name = anchor_of(v)
    if name:
        if name in seen:
            if not va:
                return []
        else:
            seen.add(name)
    if is_map(v) or is_list(v):
        return leaf_sites(v, seen, va)
    return [v]


def expected(doc, expr, mode):
    op, term, inv = expr
    what, ka, va, expand, _ = mode
    search_values = what != "keys"
    search_keys = what != "values"
    seen = set()
    out = []
    KA[0] = ka

    def visit_child(key, v):
        name = anchor_of(v)
        alias = False
        if name:
            if name in seen:
                alias = True
            else:
                seen.add(name)
        if key is not None and search_keys and matches(op, term, inv, key):
            if expand:
                out.extend(leaf_sites(v, seen, va) if (
                    is_map(v) or is_list(v)) else [v])
            else:
                out.append(v)
            return
        if alias and not va:
            return
        if is_map(v) or is_list(v):
            walk(v)
        elif search_values and is_scalar(v):
            if matches(op, term, inv, v):
                out.append(v)

    def walk(node):
        if is_map(node):
            if getattr(node, "merge", None) and not (ka or va):
                # what a YAML merge key brings in is a repeat of the anchored
                # hash's content: counted only when an alias option asks
                for k, v in node.non_merged_items():
                    visit_child(k, v)
                return
            for k, v in node.items():
                visit_child(k, v)
        elif is_list(node):
            for v in node:
                visit_child(None, v)
    walk(doc)
    return out


# ----------------------------------------------------------------------- impl
def run_search(doc, expr, mode):
    op, term, inv = expr
    what, ka, va, expand, sep = mode
    # the term is written as the path syntax demands: white-space, brackets
    # and quotes backslash-escaped (a regular expression is taken verbatim)
    expression = "%s%s%s" % ("!" if inv else "", op,
                             "/%s/" % term if op == "=~"
                             else paths.esc_bs(term, "", ""))
    exterm = yaml_paths.get_search_term(corpus.LOG, expression)
    if exterm is None:
        return expression, None
    pathsep = PathSeparators.DOT if sep == "dot" else PathSeparators.FSLASH
    proc = EYAMLProcessor(corpus.LOG, doc, binary="eyaml")
    # (the command hands in the document's anchors; so does the harness)
    all_anchors = {}
    Anchors.scan_for_anchors(doc, all_anchors)
    results = list(yaml_paths.search_for_paths(
        corpus.LOG, proc, doc, exterm, pathsep,
        search_values=(what != "keys"), search_keys=(what != "values"),
        search_anchors=False, include_key_aliases=ka,
        include_value_aliases=va, decrypt_eyaml=False,
        expand_children=expand, all_anchors=all_anchors))
    return expression, results


def check(st, doc, text, shp, expr, mode):
    st.evaluations += 1
    what, ka, va, expand, sep = mode
    case = {"doc": text, "expr": list(expr), "mode": list(mode)}
    try:
        want = expected(doc, expr, mode)
    except Undecided:
        st.extra["undecided_comparison"] += 1
        return
    try:
        expression, results = run_search(doc, expr, mode)
    except Exception as ex:               # pylint: disable=broad-except
        st.outcomes["crash"] += 1
        st.fail("crash|%s@%s" % (type(ex).__name__, qrun.where(ex)), case,
                "paths", repr(ex)[:200])
        return
    if results is None:
        st.extra["expression_rejected"] += 1
        return
    case["expression"] = expression
    st.transitions += 1
    st.validated += len(results)
    st.states += 1
    msig = "%s/%s%s/%s" % (what, "k" if ka else "-", "v" if va else "-",
                           "expand" if expand else "plain")
    if want:
        st.sig(shp, expr, mode, len(want))
    st.outcomes["paths:%d" % min(len(results), 5)] += 1
    pathsep = PathSeparators.DOT if sep == "dot" else PathSeparators.FSLASH
    proc = Processor(corpus.LOG, doc)
    got = []
    texts = collections.Counter()
    for path in results:
        ptext = str(path)
        texts[ptext] += 1
        try:
            nodes = [nc.node for nc in proc.get_nodes(
                ptext, mustexist=True, pathsep=pathsep)]
        except Exception as ex:           # pylint: disable=broad-except
            st.fail("unresolvable|%s|%s" % (msig, sep), case,
                    "every printed path resolves",
                    "%r: %s" % (ptext, type(ex).__name__))
            return
        if not nodes or any(n is not nodes[0] for n in nodes):
            st.fail("ambiguous-path|%s|%s" % (msig, sep), case,
                    "the path resolves to exactly one node",
                    "%r -> %d nodes" % (ptext, len(nodes)))
            return
        got.append(nodes[0])
    # each at most once (an aliased node may be listed per site when the
    # alias options ask for aliases)
    if not (ka or va):
        dup = [t for t, n in texts.items() if n > 1]
        if dup:
            st.fail("duplicate|%s" % msig, case, "each path at most once",
                    repr(dup[:3]))
            return
    gi = collections.Counter(id(n) for n in got)
    wi = collections.Counter(id(n) for n in want)
    if gi != wi:
        extra = sum((gi - wi).values())
        missing = sum((wi - gi).values())
        kind = "unsound" if extra and not missing else (
            "incomplete" if missing and not extra else "different")
        st.fail("%s|%s|%s%s" % (kind, msig, "!" if expr[2] else "", expr[0]),
                case, "%d sites: %r" % (len(want), [short(n) for n in want]),
                "%d paths: %r" % (len(results), [str(p) for p in results]))


def short(n):
    return repr(n)[:20] if is_scalar(n) else type(n).__name__


def replay(case):
    st = core.Stats(None)
    if case.get("names"):
        global DOCS
        plan("quick")
        want = corpus.load(case["doc"])
        DOCS = [d for d in DOCS if corpus.render(d) == case["doc"]]
        st = names_family()
        for lst in st.fails.values():
            for f in lst:
                if f["case"]["expression"] == case["expression"] and \
                        f["case"]["mode"] == case["mode"]:
                    return f
        return None
    check(st, corpus.load(case["doc"]), case["doc"], "?",
          tuple(case["expr"]), tuple(case["mode"]))
    for lst in st.fails.values():
        return lst[0]
    return None


def repro(case):
    what, ka, va, expand, sep = case["mode"]
    flags = []
    if what == "keys":
        flags.append("--onlykeynames")
    elif what != "values":
        flags.append("--keynames")
    if ka and va:
        flags.append("--include-aliases all")
    elif ka:
        flags.append("--include-aliases key")
    elif va:
        flags.append("--include-aliases value")
    if expand:
        flags.append("--expand")
    flags.append("--pathsep %s" % ("/" if sep == "slash" else "."))
    return "# printf %r | yaml-paths %s --search=%r -\n" % (
        case["doc"], " ".join(flags), case.get("expression"))
