"""
C10 - anchor conflicts in a merge follow the chosen policy and the result
reloads.

All pairs of small documents defining and aliasing scalar anchors from the
name pool {A, B} (equal-name/equal-value, equal-name/different-value and
disjoint all occur; a pre-existing A_1 collides with the rename scheme) x the
four anchor policies x merge policies.  Oracle: alias-class model - the
expected data is the reference merge (C05) of the two documents after the
policy's substitution of the conflicting anchor's value - plus one value per
anchor name in the result, and dump -> strict reload -> same data.
"""
from vkit import core, corpus, editrun, mergerun, refmerge

ID = "C10"
LEVEL = "model_checking"
RULE = ("all pairs of anchor-decorated documents (5-6 shapes x names {A,B} x "
        "values {x,y}) x {stop, left, right, rename} x 4 merge-policy "
        "vectors; non-trivial = both documents define an anchor of the same "
        "name; distinct = distinct (L shape, R shape, names, equal/different "
        "value, anchor policy, merge policy)")
ASSUMPTIONS = [
    "scalar anchors only (the property is about scalar anchors)",
    "the data expected from the merge is the C05 reference merge",
]

LEFTS = []
RIGHTS = []
APOL = ("stop", "left", "right", "rename")
MPOL = [dict(hashes="deep", arrays="all", aoh="all", sets="unique"),
        dict(hashes="deep", arrays="unique", aoh="deep", sets="unique"),
        dict(hashes="right", arrays="all", aoh="all", sets="unique"),
        dict(hashes="left", arrays="right", aoh="all", sets="unique")]


def A(n, v):
    return ("&", n, v)


def R(n):
    return ("*", n)


def lefts():
    out = []
    for n in ("A", "B"):
        for v in ("x", "y"):
            out.append(("L1", n, v, ("m", (("a", A(n, v)), ("b", R(n))))))
            out.append(("L2", n, v, ("m", (("a", A(n, v)),
                                          ("c", ("l", (R(n), "k")))))))
            out.append(("L3", n, v, ("m", (("a", ("l", (A(n, v), R(n)))),
                                          ("b", R(n))))))
            out.append(("L4", n, v, ("m", (("p", A(n, v)),
                                          ("q", ("m", (("r", R(n)),)))))))
    for v, w in (("x", "y"), ("y", "y")):
        out.append(("L5", "AB", v + w, ("m", (
            ("a", A("A", v)), ("b", A("B", w)),
            ("c", ("l", (R("A"), R("B"))))))))
    # the left document already owns the name the rename scheme derives
    for v, w in (("x", "y"), ("y", "x"), ("x", "x")):
        out.append(("L6", "A+A_1", v + w, ("m", (
            ("a", A("A", v)), ("b", A("A_1", w)),
            ("c", ("l", (R("A"), R("A_1"))))))))
        out.append(("L7", "A+A_1+A_1_2", v + w, ("m", (
            ("a", A("A", v)), ("b", A("A_1", w)), ("b2", A("A_1_2", "zz")),
            ("c", ("l", (R("A"), R("A_1"), R("A_1_2"))))))))
    out.append(("L0", "-", "x", ("m", (("a", "x"), ("b", "x")))))
    # values Python takes for equal although they differ as YAML values
    for v in (True, 1, 1.0):
        out.append(("L1", "A", repr(v), ("m", (("a", A("A", v)),
                                               ("b", R("A"))))))
    # anchored values Python takes for "nothing" (the empty text, false, 0.0)
    for v in ("", False, 0.0):
        out.append(("L1", "A", repr(v), ("m", (("a", A("A", v)),
                                               ("b", R("A"))))))
        out.append(("L2", "A", repr(v), ("m", (("a", A("A", v)),
                                               ("c", ("l", (R("A"), "k")))))))
    return out


def rights():
    out = []
    for n in ("A", "B"):
        for v in ("x", "y"):
            out.append(("R1", n, v, ("m", (("d", A(n, v)), ("e", R(n))))))
            out.append(("R2", n, v, ("m", (("a", A(n, v)), ("e", R(n))))))
            out.append(("R3", n, v, ("m", (("d", ("l", (A(n, v), R(n)))),))))
            out.append(("R4", n, v, ("m", (("b", A(n, v)),
                                          ("c", ("l", (R(n),)))))))
    for v, w in (("x", "y"), ("y", "x")):
        out.append(("R5", "AB", v + w, ("m", (
            ("d", A("A", v)), ("e", A("B", w)),
            ("f", ("l", (R("B"), R("A"))))))))
        out.append(("R6", "A_1", v + w, ("m", (
            ("d", A("A_1", v)), ("e", A("A", w)), ("f", R("A")),
            ("g", R("A_1"))))))
    out.append(("R0", "-", "y", ("m", (("a", "y"), ("z", "y")))))
    # the scalar anchor and all its aliases live inside a container which is
    # itself anchored (and aliased elsewhere)
    for n in ("A", "B"):
        for v in ("x", "y"):
            out.append(("R7", n, v, ("m", (
                ("d", ("&", "D", ("m", (("t", A(n, v)), ("g", R(n)))))),
                ("e", ("*", "D"))))))
    for v in (True, 1, 1.0, "", False, 0.0):
        out.append(("R1", "A", repr(v), ("m", (("d", A("A", v)),
                                               ("e", R("A"))))))
    return out


def plan(tier):
    global LEFTS, RIGHTS
    LEFTS, RIGHTS = lefts(), rights()
    bounds = {"left_documents": len(LEFTS), "right_documents": len(RIGHTS),
              "anchor_policies": list(APOL), "merge_policies": len(MPOL)}
    return [(i,) for i in range(len(LEFTS))], bounds


def strip(t):
    if t[0] == "&":
        return strip(t[2])
    if t[0] == "m":
        return ("m", tuple((strip(k), strip(v)) for k, v in t[1]))
    if t[0] == "l":
        return ("l", tuple(strip(v) for v in t[1]))
    return t


def anchors_in(t, out=None):
    """name -> set of values carried under that name."""
    if out is None:
        out = {}
    if t[0] == "&":
        out.setdefault(t[1], set()).add(strip(t[2]))
        anchors_in(t[2], out)
    elif t[0] == "m":
        for k, v in t[1]:
            anchors_in(k, out)
            anchors_in(v, out)
    elif t[0] == "l":
        for v in t[1]:
            anchors_in(v, out)
    return out


def subst(t, name, val):
    if t[0] == "&":
        if t[1] == name:
            return ("&", name, val)
        return ("&", t[1], subst(t[2], name, val))
    if t[0] == "m":
        return ("m", tuple((subst(k, name, val), subst(v, name, val))
                           for k, v in t[1]))
    if t[0] == "l":
        return ("l", tuple(subst(v, name, val) for v in t[1]))
    return t


# one value written in two styles under one anchor name: never a conflict
STYLE_PAIRS = [
    ("a: &A x\nb: *A\n", 'd: &A "x"\ne: *A\n'),
    ("a: &A 'x'\nb: *A\n", "d: &A x\ne: *A\n"),
    ('a: &A "x"\nb: [*A]\n', "d: &A 'x'\ne: *A\n"),
    ("a: &A |-\n  x\nb: *A\n", "d: &A x\ne: *A\n"),
    ("a: &A 1000\nb: *A\n", "d: &A 1_000\ne: *A\n"),
    ("a: &A 16\nb: *A\n", "d: &A 0x10\ne: *A\n"),
    ("a: &A 2.5\nb: *A\n", "d: &A 2.50\ne: *A\n"),
    ("a: &A true\nb: *A\n", "d: &A True\ne: *A\n"),
    # ... and the same spellings where the values do differ
    ("a: &A x\nb: *A\n", 'd: &A "y"\ne: *A\n'),
    ("a: &A 1000\nb: *A\n", "d: &A 1_001\ne: *A\n"),
]


def style_family(st):
    for ltext, rtext in STYLE_PAIRS:
        for lt, rt in ((ltext, rtext), (rtext.replace("d:", "a:").replace(
                "e:", "b:"), ltext.replace("a:", "d:").replace("b:", "e:"))):
            try:
                ldoc, rdoc = corpus.load(lt), corpus.load(rt)
            except corpus.LoadError:
                continue
            for apol in APOL:
                for mpol in MPOL:
                    check(st, ldoc, rdoc, lt, rt, apol, mpol,
                          ("style", "style", "A", "A"))


def run_shard(shard):
    (li,) = shard
    st = core.Stats(ID)
    if li == 0:
        style_family(st)
    ltag, lname, lval, lspec = LEFTS[li]
    ltext = corpus.render(lspec)
    ldoc = corpus.load(ltext)
    for rtag, rname, rval, rspec in RIGHTS:
        rtext = corpus.render(rspec)
        rdoc = corpus.load(rtext)
        for apol in APOL:
            for mpol in MPOL:
                check(st, ldoc, rdoc, ltext, rtext, apol, mpol,
                      (ltag, rtag, lname, rname))
    # chains of two merges (right documents with disjoint keys so that both
    # survive under deep hash merging)
    chain_r = [r for r in RIGHTS if r[0] in ("R1", "R3", "R5", "R6")]
    for i, (t1, n1, v1, s1) in enumerate(chain_r):
        for (t2, n2, v2, s2) in chain_r[i % 3::3]:
            r1t = corpus.render(s1)
            r2t = corpus.render(s2).replace('"d"', '"d2"').replace(
                '"e"', '"e2"').replace('"f"', '"f2"').replace('"g"', '"g2"')
            try:
                r1d, r2d = corpus.load(r1t), corpus.load(r2t)
            except corpus.LoadError:
                continue
            for apol in ("rename", "left", "right"):
                check_chain(st, ldoc, r1d, r2d, (ltext, r1t, r2t), apol,
                            MPOL[0])
    st.sample({"lhs": ltext, "rhs": corpus.render(RIGHTS[li % len(RIGHTS)][3]),
               "anchors": "rename"})
    return st


def check(st, ldoc, rdoc, ltext, rtext, apol, mpol, tags):
    st.evaluations += 1
    st.transitions += 1
    st.validated += 1
    case = {"lhs": ltext, "rhs": rtext, "anchors": apol, "policies": mpol}
    lc = corpus.canon(ldoc, anchors=True)
    rc = corpus.canon(rdoc, anchors=True)
    la, ra = anchors_in(lc), anchors_in(rc)
    conflicts = sorted(n for n in la if n in ra and la[n] != ra[n])
    shared = sorted(n for n in la if n in ra)
    psig = "%(hashes)s/%(arrays)s/%(aoh)s" % mpol
    if shared:
        st.sig(tags, tuple(conflicts), apol, psig)
    # the policy's substitution, then the plain reference merge
    l2, r2 = lc, rc
    if apol == "left":
        for n in conflicts:
            r2 = subst(r2, n, next(iter(la[n])))
    elif apol == "right":
        for n in conflicts:
            l2 = subst(l2, n, next(iter(ra[n])))
    try:
        exp = ("doc", refmerge.merge(strip(l2), strip(r2), mpol))
    except refmerge.MergeError as ex:
        exp = ("error", str(ex))
    except refmerge.Unspecified as ex:
        exp = ("unspecified", str(ex))
    lcopy = mergerun.fresh(ldoc)
    cfg = mergerun.make_config(mpol, anchors=apol)
    res, data = mergerun.merge(lcopy, mergerun.fresh(rdoc), cfg)
    st.outcomes[res] += 1
    cls = "%s|%s" % (apol, "conflict" if conflicts else
                     ("same-name" if shared else "disjoint"))
    if res == "crash":
        st.fail("crash|%s|%s" % (cls, data), case, exp[0], data)
        return
    st.states += 1
    if apol == "stop" and conflicts:
        if res != "merge-error":
            st.fail("%s|not-refused" % cls, case, "MergeException", res)
        elif corpus.canon(lcopy, anchors=True) != lc:
            st.fail("%s|refused-but-changed" % cls, case,
                    "left document unchanged", "changed")
        return
    if exp[0] == "unspecified":
        st.extra["unspecified"] += 1
        return
    if exp[0] == "error":
        if res != "merge-error":
            st.fail("%s|no-merge-error" % cls, case, exp[1], res)
        return
    if res != "ok":
        st.fail("%s|spurious-%s" % (cls, res), case, "merged document",
                "%s: %s" % (res, data))
        return
    got = corpus.canon(data, anchors=True)
    if refmerge.unordered(strip(got)) != refmerge.unordered(exp[1]):
        st.fail("%s|wrong-data" % cls, case, repr(exp[1])[:400],
                repr(strip(got))[:400])
        return
    # one value per anchor name in the result
    ga = anchors_in(got)
    if not conflicts and not set(ga) <= set(la) | set(ra):
        st.fail("%s|renamed-without-conflict" % cls, case,
                "anchor names %r" % sorted(set(la) | set(ra)),
                repr(sorted(ga)))
        return
    for n, vals in ga.items():
        if len(vals) > 1:
            st.fail("%s|anchor-two-values" % cls, case,
                    "every use of &%s reads one value" % n,
                    "%r" % sorted(map(repr, vals)))
            return
    if apol == "rename" and conflicts and mpol["hashes"] == "deep":
        for n in conflicts:
            want = {next(iter(la[n])), next(iter(ra[n]))}
            have = set()
            for vals in ga.values():
                have |= vals
            if not want <= have:
                st.fail("%s|rename-lost-a-value" % cls, case,
                        "both values stay anchored", repr(sorted(ga)))
                return
    bad = editrun.reload_check(data)
    if bad:
        st.fail("%s|reload" % cls, case, "dump reloads to the same data", bad)


def check_chain(st, ldoc, r1, r2, texts, apol, mpol):
    """Two right-hand documents merged one after the other into the same
    Merger (what yaml-merge a b c does): the invariants of a single merge
    must hold for the end result."""
    from yamlpath.merger import Merger
    from yamlpath.merger.exceptions import MergeException
    st.evaluations += 1
    st.transitions += 2
    case = {"lhs": texts[0], "rhs": texts[1], "rhs2": texts[2],
            "anchors": apol, "policies": mpol, "chain": True}
    cfg = mergerun.make_config(mpol, anchors=apol)
    try:
        Merger.depwarn_printed = False
        merger = Merger(corpus.LOG, mergerun.fresh(ldoc), cfg)
        merger.merge_with(mergerun.fresh(r1))
        merger.merge_with(mergerun.fresh(r2))
    except MergeException:
        st.outcomes["chain:refused"] += 1
        return
    except Exception as ex:               # pylint: disable=broad-except
        from vkit import qrun
        st.fail("chain|crash|%s@%s" % (type(ex).__name__, qrun.where(ex)),
                case, "a merged document", repr(ex)[:160])
        return
    st.outcomes["chain:ok"] += 1
    st.states += 1
    st.sig("chain", texts, apol, mpol["hashes"])
    got = corpus.canon(merger.data, anchors=True)
    for n, vals in anchors_in(got).items():
        if len(vals) > 1:
            st.fail("chain|%s|anchor-two-values" % apol, case,
                    "every use of &%s reads one value" % n,
                    "%r" % sorted(map(repr, vals)))
            return
    bad = editrun.reload_check(merger.data)
    if bad:
        st.fail("chain|%s|reload" % apol, case,
                "dump reloads to the same data", bad)


def replay(case):
    if case.get("chain"):
        st = core.Stats(None)
        check_chain(st, corpus.load(case["lhs"]), corpus.load(case["rhs"]),
                    corpus.load(case["rhs2"]),
                    (case["lhs"], case["rhs"], case["rhs2"]),
                    case["anchors"], case["policies"])
        for lst in st.fails.values():
            return lst[0]
        return None
    st = core.Stats(None)
    check(st, corpus.load(case["lhs"]), corpus.load(case["rhs"]),
          case["lhs"], case["rhs"], case["anchors"], case["policies"], "?")
    for lst in st.fails.values():
        return lst[0]
    return None


def repro(case):
    from vkit.props import C05
    c = dict(case)
    c["policies"] = dict(case["policies"], anchors=case["anchors"])
    return C05.repro(c)
