"""
C10 - anchor conflicts in a merge follow the chosen policy and the result
reloads.

All pairs of small documents defining and aliasing scalar anchors from the
name pool {A, B} (equal-name/equal-value, equal-name/different-value and
disjoint all occur; a pre-existing A_1 collides with the rename scheme) x the
four anchor policies x merge policies.  Oracle: alias-class model - the
expected data is the reference merge (C05) of the two documents after the
policy's substitution of the conflicting anchor's value - plus one value per
anchor name in the result, and dump -> strict reload -> same data.
"""
from vkit import core, corpus, editrun, mergerun, refmerge

ID = "C10"
LEVEL = "model_checking"
RULE = ("all pairs of anchor-decorated documents (5-6 shapes x names {A,B} x "
        "values {x,y}) x {stop, left, right, rename} x 4 merge-policy "
        "vectors; non-trivial = both documents define an anchor of the same "
        "name; distinct = distinct (L shape, R shape, names, equal/different "
        "value, anchor policy, merge policy)")
ASSUMPTIONS = [
    "scalar anchors only (the property is about scalar anchors)",
    "the data expected from the merge is the C05 reference merge",
]

LEFTS = []
RIGHTS = []
APOL = ("stop", "left", "right", "rename")
MPOL = [dict(hashes="deep", arrays="all", aoh="all", sets="unique"),
        dict(hashes="deep", arrays="unique", aoh="deep", sets="unique"),
        dict(hashes="right", arrays="all", aoh="all", sets="unique"),
        dict(hashes="left", arrays="right", aoh="all", sets="unique")]


def A(n, v):
    return ("&", n, v)


def R(n):
    return ("*", n)


def lefts():
    out = []
    for n in ("A", "B"):
        for v in ("x", "y"):
            out.append(("L1", n, v, ("m", (("a", A(n, v)), ("b", R(n))))))
            out.append(("L2", n, v, ("m", (("a", A(n, v)),
                                          ("c", ("l", (R(n), "k")))))))
            out.append(("L3", n, v, ("m", (("a", ("l", (A(n, v), R(n)))),
                                          ("b", R(n))))))
            out.append(("L4", n, v, ("m", (("p", A(n, v)),
                                          ("q", ("m", (("r", R(n)),)))))))
    for v, w in (("x", "y"), ("y", "y")):
        out.append(("L5", "AB", v + w, ("m", (
            ("a", A("A", v)), ("b", A("B", w)),
            ("c", ("l", (R("A"), R("B"))))))))
    out.append(("L0", "-", "x", ("m", (("a", "x"), ("b", "x")))))
    return out


def rights():
    out = []
    for n in ("A", "B"):
        for v in ("x", "y"):
            out.append(("R1", n, v, ("m", (("d", A(n, v)), ("e", R(n))))))
            out.append(("R2", n, v, ("m", (("a", A(n, v)), ("e", R(n))))))
            out.append(("R3", n, v, ("m", (("d", ("l", (A(n, v), R(n)))),))))
            out.append(("R4", n, v, ("m", (("b", A(n, v)),
                                          ("c", ("l", (R(n),)))))))
    for v, w in (("x", "y"), ("y", "x")):
        out.append(("R5", "AB", v + w, ("m", (
            ("d", A("A", v)), ("e", A("B", w)),
            ("f", ("l", (R("B"), R("A"))))))))
        out.append(("R6", "A_1", v + w, ("m", (
            ("d", A("A_1", v)), ("e", A("A", w)), ("f", R("A")),
            ("g", R("A_1"))))))
    out.append(("R0", "-", "y", ("m", (("a", "y"), ("z", "y")))))
    return out


def plan(tier):
    global LEFTS, RIGHTS
    LEFTS, RIGHTS = lefts(), rights()
    bounds = {"left_documents": len(LEFTS), "right_documents": len(RIGHTS),
              "anchor_policies": list(APOL), "merge_policies": len(MPOL)}
    return [(i,) for i in range(len(LEFTS))], bounds


def strip(t):
    if t[0] == "&":
        return strip(t[2])
    if t[0] == "m":
        return ("m", tuple((strip(k), strip(v)) for k, v in t[1]))
    if t[0] == "l":
        return ("l", tuple(strip(v) for v in t[1]))
    return t


def anchors_in(t, out=None):
    """name -> set of values carried under that name."""
    if out is None:
        out = {}
    if t[0] == "&":
        out.setdefault(t[1], set()).add(strip(t[2]))
        anchors_in(t[2], out)
    elif t[0] == "m":
        for k, v in t[1]:
            anchors_in(k, out)
            anchors_in(v, out)
    elif t[0] == "l":
        for v in t[1]:
            anchors_in(v, out)
    return out


def subst(t, name, val):
    if t[0] == "&":
        if t[1] == name:
            return ("&", name, val)
        return ("&", t[1], subst(t[2], name, val))
    if t[0] == "m":
        return ("m", tuple((subst(k, name, val), subst(v, name, val))
                           for k, v in t[1]))
    if t[0] == "l":
        return ("l", tuple(subst(v, name, val) for v in t[1]))
    return t


def run_shard(shard):
    (li,) = shard
    st = core.Stats(ID)
    ltag, lname, lval, lspec = LEFTS[li]
    ltext = corpus.render(lspec)
    ldoc = corpus.load(ltext)
    for rtag, rname, rval, rspec in RIGHTS:
        rtext = corpus.render(rspec)
        rdoc = corpus.load(rtext)
        for apol in APOL:
            for mpol in MPOL:
                check(st, ldoc, rdoc, ltext, rtext, apol, mpol,
                      (ltag, rtag, lname, rname))
    st.sample({"lhs": ltext, "rhs": corpus.render(RIGHTS[li % len(RIGHTS)][3]),
               "anchors": "rename"})
    return st


def check(st, ldoc, rdoc, ltext, rtext, apol, mpol, tags):
    st.evaluations += 1
    st.transitions += 1
    st.validated += 1
    case = {"lhs": ltext, "rhs": rtext, "anchors": apol, "policies": mpol}
    lc = corpus.canon(ldoc, anchors=True)
    rc = corpus.canon(rdoc, anchors=True)
    la, ra = anchors_in(lc), anchors_in(rc)
    conflicts = sorted(n for n in la if n in ra and la[n] != ra[n])
    shared = sorted(n for n in la if n in ra)
    psig = "%(hashes)s/%(arrays)s/%(aoh)s" % mpol
    if shared:
        st.sig(tags, tuple(conflicts), apol, psig)
    # the policy's substitution, then the plain reference merge
    l2, r2 = lc, rc
    if apol == "left":
        for n in conflicts:
            r2 = subst(r2, n, next(iter(la[n])))
    elif apol == "right":
        for n in conflicts:
            l2 = subst(l2, n, next(iter(ra[n])))
    try:
        exp = ("doc", refmerge.merge(strip(l2), strip(r2), mpol))
    except refmerge.MergeError as ex:
        exp = ("error", str(ex))
    except refmerge.Unspecified as ex:
        exp = ("unspecified", str(ex))
    lcopy = mergerun.fresh(ldoc)
    cfg = mergerun.make_config(mpol, anchors=apol)
    res, data = mergerun.merge(lcopy, mergerun.fresh(rdoc), cfg)
    st.outcomes[res] += 1
    cls = "%s|%s" % (apol, "conflict" if conflicts else
                     ("same-name" if shared else "disjoint"))
    if res == "crash":
        st.fail("crash|%s|%s" % (cls, data), case, exp[0], data)
        return
    st.states += 1
    if apol == "stop" and conflicts:
        if res != "merge-error":
            st.fail("%s|not-refused" % cls, case, "MergeException", res)
        elif corpus.canon(lcopy, anchors=True) != lc:
            st.fail("%s|refused-but-changed" % cls, case,
                    "left document unchanged", "changed")
        return
    if exp[0] == "unspecified":
        st.extra["unspecified"] += 1
        return
    if exp[0] == "error":
        if res != "merge-error":
            st.fail("%s|no-merge-error" % cls, case, exp[1], res)
        return
    if res != "ok":
        st.fail("%s|spurious-%s" % (cls, res), case, "merged document",
                "%s: %s" % (res, data))
        return
    got = corpus.canon(data, anchors=True)
    if refmerge.unordered(strip(got)) != refmerge.unordered(exp[1]):
        st.fail("%s|wrong-data" % cls, case, repr(exp[1])[:400],
                repr(strip(got))[:400])
        return
    # one value per anchor name in the result
    ga = anchors_in(got)
    for n, vals in ga.items():
        if len(vals) > 1:
            st.fail("%s|anchor-two-values" % cls, case,
                    "every use of &%s reads one value" % n,
                    "%r" % sorted(map(repr, vals)))
            return
    if apol == "rename" and conflicts and mpol["hashes"] == "deep":
        for n in conflicts:
            want = {next(iter(la[n])), next(iter(ra[n]))}
            have = set()
            for vals in ga.values():
                have |= vals
            if not want <= have:
                st.fail("%s|rename-lost-a-value" % cls, case,
                        "both values stay anchored", repr(sorted(ga)))
                return
    bad = editrun.reload_check(data)
    if bad:
        st.fail("%s|reload" % cls, case, "dump reloads to the same data", bad)


def replay(case):
    st = core.Stats(None)
    check(st, corpus.load(case["lhs"]), corpus.load(case["rhs"]),
          case["lhs"], case["rhs"], case["anchors"], case["policies"], "?")
    for lst in st.fails.values():
        return lst[0]
    return None


def repro(case):
    from vkit.props import C05
    c = dict(case)
    c["policies"] = dict(case["policies"], anchors=case["anchors"])
    return C05.repro(c)
