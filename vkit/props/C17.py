"""
C17 - a failing or interrupted tool run never loses the user's file.

(1) Pre-write failures: every failure cause of yaml-set and yaml-merge x
    documents x {with, without --backup} x {stale .bak present, absent}: the
    exit status is non-zero, the target's bytes and the directory listing are
    unchanged; yaml-merge --output never replaces an existing file.
(2) Save-sequence faults (E5): for successful edits with --backup a fault is
    injected at the k-th I/O call of the save sequence for EVERY k and each
    fault kind (fail before, torn write/copy, interrupt after); afterwards at
    least one of {target, target.bak} must hold the complete original bytes,
    and a completed run leaves .bak byte-identical to the pre-image.
"""
import os

from vkit import cli, core, corpus, faults

ID = "C17"
LEVEL = "fault_enumeration"
RULE = ("pre-write: failure causes x 3 documents x backup on/off x stale .bak "
        "on/off; save sequence: scenarios (yaml-set YAML, yaml-set JSON, "
        "yaml-merge --overwrite, each with --backup) x 3 documents x stale "
        ".bak on/off x every fault position k = 1..K x 3 fault kinds (and "
        "every pair of positions in the thorough tier); non-trivial = the "
        "injected fault fired / the tool refused; distinct = distinct "
        "(scenario, call name at the fault position, kind, stale) resp. "
        "(cause, options)")
ASSUMPTIONS = [
    "faults are exceptions and torn writes at the process's I/O calls (no "
    "fsync is ever issued by the tools, so power loss with unsynced page "
    "cache is outside what the code can promise)",
    "the interposer sits in the command module's namespace: open, file "
    "write/close, exists, remove, copy2, copyfileobj, TemporaryFile",
]

DOCS = [
    "a: 1\nb:\n  - x\n  - y\nc:\n  d: old\n",
    '{"a": 1, "b": ["x", "y"], "c": {"d": "old"}}',
    "a: &A anchored\nb: *A\nlist:\n" + "".join(
        "  - item number %d with some padding text\n" % i for i in range(40)),
]
STALE = b"STALE BACKUP CONTENT\n"


def plan(tier):
    shards = [("pre", i) for i in range(len(DOCS))]
    shards += [("save", sc, di) for sc in range(3)
               for di in range(len(DOCS))]
    shards += [("save", 3, di) for di in range(2)]
    if tier != "quick":
        shards += [("save2", sc, di) for sc in range(3) for di in range(2)]
    bounds = {"documents": len(DOCS), "scenarios": [
        "yaml-set --backup (YAML target)", "yaml-set --backup (JSON target)",
        "yaml-merge --overwrite --backup",
        "eyaml-rotate-keys --backup (stand-in cipher)"], "fault_kinds":
        list(faults.KINDS), "faults_per_run": 1 if tier == "quick" else 2}
    return shards, bounds


def run_shard(shard):
    st = core.Stats(ID)
    with cli.workdir("vkit-c17-") as wd:
        if shard[0] == "pre":
            pre_write(st, wd, shard[1])
            if shard[1] == 0:
                symlink_family(st, wd)
                new_target_family(st, wd)
                later_document_family(st, wd)
                output_file_family(st, wd)
                other_target_family(st, wd)
                awkward_text_family(st, wd)
        elif shard[0] == "save":
            save_faults(st, wd, shard[1], shard[2], pairs=False)
        else:
            save_faults(st, wd, shard[1], shard[2], pairs=True)
    return st


AWKWARD = [
    # (name, bytes of a JSON-written document)
    ("surrogate-pair-escape", b'{"name": "smile \\ud83d\\ude00", "n": 1}\n'),
    ("lone-surrogate-escape", b'{"name": "half \\ud800 x", "n": 1}\n'),
    ("non-bmp-character", '{"name": "smile \U0001F600", "n": 1}\n'.encode()),
    ("latin-1-character", '{"name": "caf\u00e9", "n": 1}\n'.encode()),
    ("control-escape", b'{"name": "bell \\u0007 sep \\u2028", "n": 1}\n'),
    ("plain", b'{"name": "smile", "n": 1}\n'),
]


def awkward_text_family(st, wd):
    """JSON-written documents (a .json file, a flow-style root in a .yaml
    file) holding text which is awkward to write back - escaped surrogates,
    characters outside the BMP / ASCII, control characters: a yaml-set run
    which ends with a failure status has changed no file, one which succeeds
    leaves the change in a loadable file and, with --backup, the pre-image in
    the .bak."""
    import json as _json
    for name, data in AWKWARD:
        for fname in ("target.json", "target.yaml"):
            for backup in (False, True):
                for stale in (False, True):
                    files = {fname: data}
                    if stale:
                        files[fname + ".bak"] = STALE
                    reset(wd, files)
                    before = snapshot(wd)
                    argv = ["--change=/n", "--value=2"] + (
                        ["--backup"] if backup else []) + [
                            os.path.join(wd, fname)]
                    res = cli.run("yaml-set", argv, cwd=wd)
                    after = snapshot(wd)
                    case = {"doc": data.decode("utf-8", "replace"),
                            "file": fname, "argv": argv[:-1],
                            "backup": backup, "stale_bak": stale,
                            "tool": "yaml-set", "cause": "awkward:" + name}
                    st.evaluations += 1
                    st.transitions += 1
                    st.validated += 1
                    st.states += 1
                    ok = res.code == 0 and res.exc is None
                    st.outcomes["yaml-set:awkward:%s" % (
                        "ok" if ok else "failed")] += 1
                    st.sig("awkward", name, fname, backup, stale, ok)
                    if not ok:
                        if after != before:
                            changed = sorted(set(before) ^ set(after)) + [
                                k for k in before
                                if k in after and before[k] != after[k]]
                            st.fail("yaml-set|awkward-text|files-changed",
                                    case, "a failed run changes no file",
                                    "exit %r %r; changed: %r" % (
                                        res.code, res.exc, changed))
                        continue
                    try:
                        got = _json.loads(after[fname].decode("utf-8"))
                    except Exception as ex:   # pylint: disable=broad-except
                        got = repr(ex)
                    if not isinstance(got, dict) or got.get("n") != 2 or \
                            not isinstance(got.get("name"), str):
                        st.fail("yaml-set|awkward-text|result-unreadable",
                                case, "the document with n: 2",
                                repr(got)[:200])
                        continue
                    bak = after.get(fname + ".bak")
                    if backup and bak != data:
                        st.fail("yaml-set|awkward-text|backup-not-the-"
                                "pre-image", case, "the pre-image bytes",
                                repr(bak)[:120])
                    elif not backup and bak != (STALE if stale else None):
                        st.fail("yaml-set|awkward-text|backup-touched", case,
                                "no backup asked for", repr(bak)[:120])
    reset(wd, {})


def symlink_family(st, wd):
    """The target is a symbolic link to the real file (a common layout for
    managed configuration): with --backup the .bak must hold the pre-image
    bytes - also after the new content has been written through the link."""
    doc = DOCS[0]
    runs = [
        ("yaml-set", lambda t: ["--change=/c/d", "--value=new", "--backup",
                                t], {}),
        ("yaml-merge", lambda t: ["--nostdin", "--overwrite=" + t,
                                  "--backup", t,
                                  os.path.join(wd, "rhs.yaml")],
         {"rhs.yaml": "c:\n  d: merged\nnewkey: 1\n"}),
    ]
    for tool, mkargv, more in runs:
        for relative in (True, False):
            for stale in (False, True):
                files = dict(more)
                files["real.yaml"] = doc
                if stale:
                    files["conf.yaml.bak"] = STALE
                reset(wd, files)
                link = os.path.join(wd, "conf.yaml")
                os.symlink("real.yaml" if relative else
                           os.path.join(wd, "real.yaml"), link)
                res = cli.run(tool, mkargv(link), cwd=wd)
                st.evaluations += 1
                st.transitions += 1
                st.validated += 1
                st.states += 1
                case = {"tool": tool, "doc": doc, "stale_bak": stale,
                        "symlink": "relative" if relative else "absolute",
                        "cause": None, "fault": None}
                st.sig("symlink", tool, relative, stale)
                after = snapshot(wd)
                if res.code != 0 or res.exc is not None:
                    st.fail("%s|symlink-target|run-failed" % tool, case,
                            "exit 0", repr(res)[:160])
                elif after.get("conf.yaml.bak") != doc.encode():
                    st.fail("%s|symlink-target|backup-not-the-pre-image"
                            % tool, case, "the pre-image bytes",
                            repr(after.get("conf.yaml.bak"))[:120])
                elif after.get("real.yaml") == doc.encode():
                    st.fail("%s|symlink-target|nothing-written" % tool, case,
                            "the real file edited", "unchanged")
    reset(wd, {})


def later_document_family(st, wd):
    """Several result documents (merge_across / matrix_merge on a multi-
    document target) of which a LATER one cannot be presented as JSON: the
    run fails before writing, so neither the target nor a backup is touched."""
    target = "a: 1\n---\nb: 2\n"
    for mode in ("merge_across", "matrix_merge"):
        for rhs, cause in (("x: 1\n---\n1: a\n'1': b\n",
                            "result-later-document-unpresentable-as-json"),
                           ("x: 1\n---\n? [p, q]\n: v\n",
                            "result-later-document-key-unpresentable")):
            if mode == "matrix_merge":
                # (every left document receives every right document)
                rhs = rhs.split("---\n")[1]
                tgt = "a: 1\n---\nb: 2\n"
            else:
                tgt = target
            for backup in (False, True):
                for stale in (False, True):
                    files = {"target.yaml": tgt, "rhs.yaml": rhs}
                    if stale:
                        files["target.yaml.bak"] = STALE
                    reset(wd, files)
                    before = snapshot(wd)
                    argv = ["--multi-doc-mode=" + mode,
                            "--document-format=json", "--nostdin",
                            "--overwrite=" + os.path.join(wd, "target.yaml")]
                    if backup:
                        argv.append("--backup")
                    argv += [os.path.join(wd, "target.yaml"),
                             os.path.join(wd, "rhs.yaml")]
                    res = cli.run("yaml-merge", argv, cwd=wd)
                    if res.code == 0 and res.exc is None:
                        st.extra["result_presentable_after_all"] += 1
                        continue
                    judge_refusal(st, "yaml-merge", cause, res, before,
                                  snapshot(wd), {"doc": tgt, "rhs": rhs,
                                                 "argv": argv[:2],
                                                 "backup": backup,
                                                 "stale_bak": stale,
                                                 "later_document": True})
    reset(wd, {})


def output_file_family(st, wd):
    """yaml-merge --output=NEW whose result cannot be presented (the format
    is chosen by the FIRST result document; a later one holds a key JSON
    cannot express): the run fails and no output file has appeared."""
    lhs = '{"a": 1}\n---\n? [a, b]\n: 1\n'
    rhs = "x: 1\n---\ny: 2\n"
    for name in ("new.out", "new.json", "new.yaml"):
        for mode in ("merge_across", "matrix_merge"):
            reset(wd, {"lhs.yaml": lhs, "rhs.yaml": rhs})
            before = snapshot(wd)
            argv = ["--nostdin", "--multi-doc-mode=" + mode,
                    "--output=" + os.path.join(wd, name),
                    os.path.join(wd, "lhs.yaml"), os.path.join(wd, "rhs.yaml")]
            res = cli.run("yaml-merge", argv, cwd=wd)
            if res.code == 0 and res.exc is None:
                st.extra["result_presentable_after_all"] += 1
                continue
            judge_refusal(st, "yaml-merge",
                          "result-later-document-unpresentable-in-output",
                          res, before, snapshot(wd),
                          {"doc": lhs, "rhs": rhs, "argv": argv[1:3],
                           "backup": False, "stale_bak": False,
                           "output_file": name})
    reset(wd, {})


def other_target_family(st, wd):
    """yaml-merge --overwrite=FILE --backup where FILE exists and is NOT the
    left-most input (a result regenerated from its sources, or the right-hand
    file): FILE.bak is a copy of FILE's pre-image, of no other file."""
    lhs, rhs = "a: 1\nc:\n  d: old\n", "c:\n  d: merged\n"
    old = "# kept result\nprevious: result\n"
    for target, inputs in (("result.yaml", ("lhs.yaml", "rhs.yaml")),
                           ("rhs.yaml", ("lhs.yaml", "rhs.yaml"))):
        for stale in (False, True):
            files = {"lhs.yaml": lhs, "rhs.yaml": rhs}
            if target not in files:
                files[target] = old
            if stale:
                files[target + ".bak"] = STALE
            reset(wd, files)
            pre = files[target].encode()
            argv = ["--nostdin", "--overwrite=" + os.path.join(wd, target),
                    "--backup"] + [os.path.join(wd, n) for n in inputs]
            res = cli.run("yaml-merge", argv, cwd=wd)
            st.evaluations += 1
            st.transitions += 1
            st.validated += 1
            st.states += 1
            case = {"tool": "yaml-merge", "doc": lhs, "stale_bak": stale,
                    "other_target": target, "cause": None, "fault": None}
            st.sig("other-target", target, stale)
            after = snapshot(wd)
            if res.code != 0 or res.exc is not None:
                st.fail("yaml-merge|other-overwrite-target|run-failed", case,
                        "exit 0", repr(res)[:200])
            elif after.get(target + ".bak") != pre:
                st.fail("yaml-merge|other-overwrite-target|"
                        "backup-not-the-pre-image", case, repr(pre)[:80],
                        repr(after.get(target + ".bak"))[:120])
            elif b"merged" not in (after.get(target) or b""):
                st.fail("yaml-merge|other-overwrite-target|nothing-written",
                        case, "the merge in " + target,
                        repr(after.get(target))[:120])
    reset(wd, {})


def new_target_family(st, wd):
    """yaml-merge --overwrite names a file which does not exist yet (the
    option replaces the file only "when it already exists"): the result is
    written; with --backup there is no pre-image, hence no new .bak, and a
    stale one is not taken for it."""
    lhs, rhs = "a: 1\nc:\n  d: old\n", "c:\n  d: merged\n"
    for backup in (False, True):
        for stale in (False, True):
            files = {"lhs.yaml": lhs, "rhs.yaml": rhs}
            if stale:
                files["new.yaml.bak"] = STALE
            reset(wd, files)
            argv = ["--nostdin", "--overwrite=" + os.path.join(wd, "new.yaml")]
            if backup:
                argv.append("--backup")
            argv += [os.path.join(wd, "lhs.yaml"), os.path.join(wd, "rhs.yaml")]
            res = cli.run("yaml-merge", argv, cwd=wd)
            st.evaluations += 1
            st.transitions += 1
            st.validated += 1
            st.states += 1
            case = {"tool": "yaml-merge", "doc": lhs, "stale_bak": stale,
                    "new_target": True, "backup": backup, "cause": None,
                    "fault": None}
            st.sig("new-target", backup, stale)
            after = snapshot(wd)
            if res.code != 0 or res.exc is not None:
                st.fail("yaml-merge|new-overwrite-target|run-failed", case,
                        "exit 0", repr(res)[:200])
            elif b"merged" not in (after.get("new.yaml") or b""):
                st.fail("yaml-merge|new-overwrite-target|nothing-written",
                        case, "the merge in new.yaml",
                        repr(after.get("new.yaml"))[:120])
            elif (after.get("new.yaml.bak") != STALE) if stale else \
                    ("new.yaml.bak" in after):
                st.fail("yaml-merge|new-overwrite-target|backup-of-nothing",
                        case, "no backup of a file which did not exist",
                        repr(after.get("new.yaml.bak"))[:120])
    reset(wd, {})


def reset(wd, files):
    for name in os.listdir(wd):
        os.unlink(os.path.join(wd, name))
    for name, data in files.items():
        with open(os.path.join(wd, name), "wb") as fh:
            fh.write(data if isinstance(data, bytes) else data.encode())
    for name in files:
        # every file carries one and the same time stamp (a restored tree):
        # neither sizes nor time stamps tell a stale twin from the original
        os.utime(os.path.join(wd, name), ns=(1_600_000_000 * 10**9,) * 2)


def twin_of(text):
    """Other bytes of the same length (what a look at size and time stamp
    takes for the same file)."""
    data = text if isinstance(text, bytes) else text.encode()
    out = bytearray(data)
    for i, ch in enumerate(out):
        if chr(ch).isalnum():
            out[i] = ord("Q") if ch != ord("Q") else ord("Z")
            break
    return bytes(out)


def snapshot(wd):
    return {name: cli.read(os.path.join(wd, name))
            for name in sorted(os.listdir(wd))}


# ------------------------------------------------------------ pre-write causes
def set_causes():
    return [
        ("unmatched-mustexist", ["--change=/nope/deeper", "--value=x",
                                 "--mustexist"]),
        ("failed-check", ["--change=/a", "--value=x", "--check=not-the-value"]),
        ("key-under-scalar", ["--change=/a/b/c", "--value=x"]),
        ("format-int-text", ["--change=/a", "--value=text", "--format=int"]),
        ("delete-root", ["--change=/", "--delete"]),
        ("multi-match-saveto", ["--change=/b/*", "--value=x",
                                "--saveto=/saved"]),
        ("path-syntax-error", ["--change=/a[", "--value=x"]),
        ("bad-index", ["--change=/b[x]", "--value=x"]),
        ("delete-unmatched", ["--change=/nope", "--delete"]),
        # the change is made in memory but its result cannot be written (the
        # tool ends with an uncaught error = non-zero status)
        ("result-tag-on-number", ["--change=/a", "--value=5", "--tag=!x"]),
        ("result-anchor-name-unwritable", ["--change=/zz", "--aliasof=/a",
                                           "--anchor=a,b"]),
    ]


def merge_causes():
    return [
        ("array-into-hash", "- 1\n- 2\n", []),
        ("scalar-into-hash", "just a scalar\n", []),
        ("anchor-conflict-stop", "q: &A different\nr: *A\n", []),
        ("unmatched-mergeat", "x: 1\n", ["--mergeat=/[.=nothing]"]),
        ("invalid-second-input", "a: 1\n b: 2\n", []),
        ("aoh-deep-record-without-identity-key", "- {id: 1}\n- {zz: 1}\n",
         ["--mergeat=/b", "--aoh=deep"]),
        # the merge works but its result cannot be presented in the format
        # asked for (the tool ends with an uncaught error = non-zero status)
        ("result-unpresentable-as-json", "1: a\n'1': b\n",
         ["--document-format=json"]),
        ("result-key-unpresentable-as-json", "2001-01-01: x\n",
         ["--document-format=json"]),
    ]


def pre_write(st, wd, di):
    doc = DOCS[di]
    for backup in (False, True):
        for stale in (False, True):
            base = {"target.yaml": doc}
            if stale:
                base["target.yaml.bak"] = STALE
            # --- yaml-set
            for cause, argv in set_causes():
                reset(wd, base)
                before = snapshot(wd)
                full = argv + (["--backup"] if backup else []) + [
                    os.path.join(wd, "target.yaml")]
                res = cli.run("yaml-set", full, cwd=wd)
                if cause.startswith("result-") and res.code == 0 \
                        and res.exc is None:
                    # (written as JSON, where the tag or anchor is not
                    # presented at all: the run is no failure)
                    st.extra["result_presentable_after_all"] += 1
                    continue
                judge_refusal(st, "yaml-set", cause, res, before,
                              snapshot(wd), {"doc": doc, "argv": argv,
                                             "backup": backup,
                                             "stale_bak": stale})
            # --- yaml-set with unreadable / invalid input
            for cause, content in (("invalid-yaml-input", "a: 1\n b: 2\n"),
                                   ("duplicate-key-input", "a: 1\na: 2\n")):
                files = dict(base)
                files["target.yaml"] = content
                reset(wd, files)
                before = snapshot(wd)
                res = cli.run("yaml-set", ["--change=/a", "--value=x"] + (
                    ["--backup"] if backup else []) + [
                        os.path.join(wd, "target.yaml")], cwd=wd)
                judge_refusal(st, "yaml-set", cause, res, before,
                              snapshot(wd), {"doc": content, "backup": backup,
                                             "stale_bak": stale})
            # --- yaml-merge --overwrite target
            for cause, rhs, extra in merge_causes():
                if cause == "anchor-conflict-stop" and "&A" not in doc:
                    continue
                files = dict(base)
                files["rhs.yaml"] = rhs
                reset(wd, files)
                before = snapshot(wd)
                argv = extra + ["--nostdin", "--overwrite=" + os.path.join(
                    wd, "target.yaml")] + (["--backup"] if backup else []) + [
                        os.path.join(wd, "target.yaml"),
                        os.path.join(wd, "rhs.yaml")]
                res = cli.run("yaml-merge", argv, cwd=wd)
                judge_refusal(st, "yaml-merge", cause, res, before,
                              snapshot(wd), {"doc": doc, "rhs": rhs,
                                             "argv": extra, "backup": backup,
                                             "stale_bak": stale})
            # --- yaml-merge --output onto an existing file (even a merge
            #     that would otherwise succeed)
            if not backup:
                files = dict(base)
                files["rhs.yaml"] = "z: 9\n"
                files["existing.yaml"] = "precious: data\n"
                reset(wd, files)
                before = snapshot(wd)
                res = cli.run("yaml-merge", [
                    "--nostdin", "--output=" + os.path.join(
                        wd, "existing.yaml"),
                    os.path.join(wd, "target.yaml"),
                    os.path.join(wd, "rhs.yaml")], cwd=wd)
                judge_refusal(st, "yaml-merge", "existing-output", res,
                              before, snapshot(wd), {"doc": doc,
                                                     "stale_bak": stale})
    st.sample({"tool": "yaml-set", "cause": "failed-check", "doc": doc,
               "backup": True, "stale_bak": True})


def judge_refusal(st, tool, cause, res, before, after, case):
    st.evaluations += 1
    st.transitions += 1
    st.validated += 1
    st.states += 1
    case = dict(case, tool=tool, cause=cause)
    st.outcomes["%s:refused:%s" % (tool, res.code)] += 1
    st.sig(tool, cause, case.get("backup"), case.get("stale_bak"))
    if res.exc is not None and not cause.startswith("result-"):
        st.fail("%s|%s|traceback:%s" % (tool, cause,
                                        type(res.exc).__name__), case,
                "a non-zero exit status", repr(res.exc)[:160])
        return
    if res.code == 0 and res.exc is None:
        st.fail("%s|%s|exit-zero" % (tool, cause), case, "non-zero", "0")
        return
    if after != before:
        changed = sorted(set(before) ^ set(after)) + [
            k for k in before if k in after and before[k] != after[k]]
        st.fail("%s|%s|files-changed" % (tool, cause), case,
                "target bytes and directory listing unchanged",
                "changed: %r" % changed)


# ------------------------------------------------------------ save sequence
def scenario(sc, wd, di):
    """-> (tool, argv, files) for a run that succeeds when fault-free."""
    target = os.path.join(wd, "target.yaml")
    if sc == 0:
        return ("yaml-set", ["--change=/c/d", "--value=new", "--backup",
                             target], {"target.yaml": DOCS[di]}, "target.yaml")
    if sc == 1:
        tj = os.path.join(wd, "target.json")
        return ("yaml-set", ["--change=/c/d", "--value=new", "--backup", tj],
                {"target.json": DOCS[1] if di != 2 else
                 '{"c": {"d": "old"}, "pad": [%s]}' % ", ".join(
                     '"item %d with padding text"' % i for i in range(60))},
                "target.json")
    if sc == 3:
        from vkit import fake_eyaml
        from vkit.props import C19
        kf = C19.keys(wd)
        okey = C19.keymat(kf, "old")
        body = "plain: text\nsecret: %s\nlist:\n  - %s\n  - other\n" % (
            fake_eyaml.encrypt("alpha", okey), fake_eyaml.encrypt("beta", okey))
        if di == 1:
            body += "".join("pad%d: value number %d\n" % (i, i)
                            for i in range(30))
        files = {"target.yaml": body}
        for name in kf.values():
            files[os.path.basename(name)] = open(name).read()
        return ("eyaml-rotate-keys", [
            "--oldprivatekey=" + kf["oldpriv"], "--oldpublickey=" +
            kf["oldpub"], "--newprivatekey=" + kf["newpriv"],
            "--newpublickey=" + kf["newpub"], "--eyaml=" + C19.STUB,
            "--backup", target], files, "target.yaml")
    return ("yaml-merge", ["--nostdin", "--overwrite=" + target, "--backup",
                           target, os.path.join(wd, "rhs.yaml")],
            {"target.yaml": DOCS[di] if di != 1 else DOCS[0],
             "rhs.yaml": "c:\n  d: merged\nnewkey: 1\n"}, "target.yaml")


def save_faults(st, wd, sc, di, pairs):
    tool, argv, files, tname = scenario(sc, wd, di)
    for stale in (False, True, "twin"):
        base = dict(files)
        if stale == "twin":
            # a stale backup of the target's very size and time stamp
            base[tname + ".bak"] = twin_of(base[tname])
        elif stale:
            base[tname + ".bak"] = STALE
        original = base[tname].encode()
        # fault-free run: count the calls, check the completed state
        reset(wd, base)
        plan0 = faults.Plan()
        res = run_tool(tool, argv, wd, faults.patches(plan0))
        st.evaluations += 1
        case0 = {"tool": tool, "argv": [a.replace(wd, "") for a in argv],
                 "doc": base[tname], "stale_bak": stale, "fault": None}
        if res.code != 0 or res.exc is not None:
            st.fail("%s|fault-free-run-failed" % tool, case0, "exit 0",
                    repr(res)[:200])
            continue
        after = snapshot(wd)
        if after.get(tname + ".bak") != original:
            st.fail("%s|backup-not-the-pre-image" % tool, case0,
                    ".bak is a byte-identical copy of the original",
                    repr(after.get(tname + ".bak"))[:120])
            continue
        if after.get(tname) == original:
            st.fail("%s|nothing-written" % tool, case0, "an edited target",
                    "target unchanged")
            continue
        total = plan0.n
        st.extra["io_calls_%s_%d" % (tool, sc)] = max(
            st.extra["io_calls_%s_%d" % (tool, sc)], total)
        positions = [(k,) for k in range(1, total + 1)]
        for (k,) in positions:
            for kind in faults.KINDS:
                if kind == "assert" and not plan0.log[k - 1].startswith(
                        "write:"):
                    continue
                one_fault(st, wd, tool, argv, base, tname, original, stale,
                          k, kind, plan0.log[k - 1], sc)
    st.sample({"tool": tool, "argv": [a.replace(wd, "") for a in argv],
               "fault": {"k": 3, "kind": "torn"}, "io_calls": plan0.log[:12]})


def run_tool(tool, argv, wd, patches):
    if tool != "eyaml-rotate-keys":
        return cli.run(tool, argv, cwd=wd, patches=patches)
    import yamlpath.eyaml.eyamlprocessor as eproc_mod
    from vkit import fake_eyaml
    saved = eproc_mod.run
    eproc_mod.run = fake_eyaml.InProcess()
    try:
        return cli.run(tool, argv, cwd=wd, patches=patches)
    finally:
        eproc_mod.run = saved


def one_fault(st, wd, tool, argv, base, tname, original, stale, k, kind,
              name, sc):
    reset(wd, base)
    fplan = faults.Plan(k, kind)
    res = run_tool(tool, argv, wd, faults.patches(fplan))
    st.evaluations += 1
    st.transitions += 1
    st.validated += 1
    st.states += 1
    case = {"tool": tool, "argv": [a.replace(wd, "") for a in argv],
            "doc": base[tname], "stale_bak": stale,
            "fault": {"k": k, "kind": kind, "call": name}}
    if fplan.fired is None:
        st.extra["fault_not_reached"] += 1
        return
    st.sig(sc, name.split(":")[0] + ":" + name.split(":")[-1], kind, stale)
    st.outcomes["%s:%s" % (kind, "exit=%s" % res.code if res.exc is None
                           else type(res.exc).__name__)] += 1
    after = snapshot(wd)
    have_target = after.get(tname) == original
    have_backup = after.get(tname + ".bak") == original
    if not (have_target or have_backup):
        st.fail("%s|original-lost|%s:%s" % (tool, kind, name.split(":")[0]),
                case, "target or target.bak holds the complete original",
                "target=%r... bak=%r..." % (
                    (after.get(tname) or b"<absent>")[:40],
                    (after.get(tname + ".bak") or b"<absent>")[:40]))
        return
    if res.code == 0 and res.exc is None:
        # the run claims success although a step failed
        if after.get(tname + ".bak") != original:
            st.fail("%s|success-without-backup|%s" % (tool, kind), case,
                    ".bak is the pre-image", "differs")


def replay(case):
    st = core.Stats(None)
    with cli.workdir("vkit-c17-") as wd:
        if case.get("output_file"):
            output_file_family(st, wd)
        elif case.get("other_target"):
            other_target_family(st, wd)
        elif case.get("later_document"):
            later_document_family(st, wd)
        elif case.get("new_target"):
            new_target_family(st, wd)
        elif case.get("symlink"):
            symlink_family(st, wd)
        elif str(case.get("cause", "")).startswith("awkward:"):
            awkward_text_family(st, wd)
        elif case.get("cause"):
            for di in range(len(DOCS)):
                pre_write(st, wd, di)
        else:
            for sc in range(3):
                for di in range(len(DOCS)):
                    save_faults(st, wd, sc, di, pairs=False)
            for di in range(2):
                save_faults(st, wd, 3, di, pairs=False)
    for lst in st.fails.values():
        return lst[0]
    return None


def repro(case):
    return "# %r\n" % (case,)
