"""
C11 - a merge aimed at a path changes only what lies under that path.

Every left document x every target path (each existing position; several
positions through wildcards / searches / traversal; missing but creatable;
missing and not creatable) x right documents of every root type x merge
policies.  Oracle: the left document with each matched subtree replaced by
the reference merge (C05) of that subtree with the right document - the
frame outside the targets must be untouched - or created to hold the right
document, or a refusal.
"""
from vkit import editrun, core, corpus, mergerun, paths, refedit, refmerge, refquery
from vkit.props import C09

ID = "C11"
LEVEL = "model_checking"
RULE = ("left documents <= N nodes over {1, 'x'} x {a, b} x mergeat in {every "
        "position; /*, /a/*, /[.^a], /**/a, /*/*; /z, /a/z, /a/z/y; "
        "/[.=zz], /a/b/c/d} x 6 right documents (hash, hash clashing on a, "
        "array, AoH, set, scalar) x 6 policy vectors; non-trivial = >= 1 "
        "target below the root; distinct = distinct (L shape, mergeat "
        "signature, R kind, policy, outcome)")
ASSUMPTIONS = [
    "targets are the C01 reference evaluator's matches; the per-target result "
    "is the C05 reference merge; a null target is left open",
    "a refusal may surface as MergeException or as the YAML Path error of the "
    "target query",
]

LEFTS = []
RDOCS = [
    ("hash", ("m", (("y", 2),))),
    ("hash-clash", ("m", (("a", 9), ("y", 2)))),
    ("array", ("l", (7, 1))),
    ("aoh", ("l", (("m", (("id", 1), ("v", "q"))),))),
    ("set", ("s", ("q",))),
    ("scalar", 5),
]
POLS = [dict(hashes="deep", arrays="all", aoh="all", sets="unique"),
        dict(hashes="right", arrays="all", aoh="all", sets="unique"),
        dict(hashes="left", arrays="all", aoh="all", sets="unique"),
        dict(hashes="deep", arrays="right", aoh="right", sets="right"),
        dict(hashes="deep", arrays="unique", aoh="deep", sets="unique"),
        dict(hashes="deep", arrays="left", aoh="unique", sets="left")]
MULTI = [(("all",),), (("key", "a"), ("all",)),
         (("search", ".", "^", "a", False),), (("trav",), ("key", "a")),
         (("all",), ("all",)),
         (("key", "a"), ("search", ".", "^", "a", False))]
MISSING = [(("key", "z"),), (("key", "a"), ("key", "z")),
           (("key", "a"), ("key", "z"), ("key", "y")),
           (("search", ".", "=", "zz", False),),
           (("key", "a"), ("key", "b"), ("key", "c"), ("key", "d"))]


def plan(tier):
    global LEFTS
    nmax = 4 if tier == "quick" else 5
    LEFTS = corpus.docs(nmax, (1, "x"), ("a", "b"), sets=False)
    LEFTS = [d for d in LEFTS if d[0] == "m" or tier != "quick"
             or corpus.size(d) <= 3]
    # twins: equal containers holding the same (interned) scalars, one of
    # which alone is the merge point - or holds it
    for inner in (("m", (("a", 1), ("b", True))), ("l", (1, 1)),
                  ("m", (("a", ("l", (1, "x"))),))):
        LEFTS.append(("m", (("a", inner), ("b", inner))))
        LEFTS.append(("l", (inner, inner)))
    # keys which need an escape in a path (a search over key names reports
    # them, the merge then writes through the reported path)
    LEFTS.append(("m", (("a.b", 1), ("a c", "x"), ("ab", 1))))
    LEFTS.append(("m", (("a", ("m", (("a.x", 1), ("a y", "x"), ("b", 1)))),
                        ("b", 1))))
    bounds = {"left_documents": len(LEFTS), "right_documents":
              [r[0] for r in RDOCS], "policy_vectors": len(POLS),
              "multi_target_paths": [paths.render(p, "/") for p in MULTI],
              "missing_paths": [paths.render(p, "/") for p in MISSING]}
    step = 12
    return [(lo, min(len(LEFTS), lo + step))
            for lo in range(0, len(LEFTS), step)], bounds


def positions_of(spec, pos=()):
    out = [pos]
    if isinstance(spec, tuple) and spec[0] == "m":
        for k, v in spec[1]:
            out += positions_of(v, pos + (("key", k),))
    elif isinstance(spec, tuple) and spec[0] == "l":
        for i, v in enumerate(spec[1]):
            out += positions_of(v, pos + (("idx", i),))
    return out


def run_shard(shard):
    lo, hi = shard
    st = core.Stats(ID)
    rloaded = [(n, corpus.render(s), corpus.load(corpus.render(s)))
               for n, s in RDOCS]
    for li in range(lo, hi):
        lspec = LEFTS[li]
        ltext = corpus.render(lspec)
        ldoc = corpus.load(ltext)
        shp = corpus.shape(lspec)
        targets = [p for p in positions_of(lspec) if p] + MULTI + MISSING
        for segs in targets:
            for rname, rtext, rdoc in rloaded:
                for pol in POLS:
                    check(st, ldoc, ltext, shp, segs, rname, rtext, rdoc, pol)
        if li == lo:
            st.sample({"lhs": ltext, "mergeat": "/a/*", "rhs": "{y: 2}"})
    if lo == 0:
        rules_family(st)
        empty_left_family(st)
        alias_family(st)
        pad_family(st)
        replacing_family(st)
        mergekey_left_family(st)
    return st


def _plain(node):
    if corpus.is_map(node):
        return {str(k): _plain(v) for k, v in node.items()}
    if corpus.is_list(node):
        return [_plain(v) for v in node]
    val = corpus.plain_scalar(node)
    return val[1] if isinstance(val, tuple) and len(val) == 2 else val


def empty_left_family(st):
    """An empty left document (no document at all, {} or []) and a target
    path that has to be created: the path is built to hold the right-hand
    document, whatever its root type."""
    rights = [("x: 1\n", {"x": 1}), ("[1, 2]\n", [1, 2]), ("s\n", "s"),
              ("5\n", 5), ("x: {y: [1]}\n", {"x": {"y": [1]}})]
    cases = []
    for ltext in ("", "{}\n"):
        for at, build in (("/a", lambda r: {"a": r}),
                          ("/a/b", lambda r: {"a": {"b": r}}),
                          ("/a[0]", lambda r: {"a": [r]}),
                          ("/a/b[0]/c", lambda r: {"a": {"b": [{"c": r}]}}),
                          ("a.b.c", lambda r: {"a": {"b": {"c": r}}})):
            cases.append((ltext, at, build))
    for ltext in ("", "[]\n"):
        for at, build in (("/[0]", lambda r: [r]),
                          ("/[0]/a", lambda r: [{"a": r}]),
                          ("/[0][0]", lambda r: [[r]])):
            cases.append((ltext, at, build))
    for ltext, at, build in cases:
        for rtext, rplain in rights:
            for pol in POLS[:2]:
                st.evaluations += 1
                st.transitions += 1
                st.validated += 1
                ldoc = corpus.load(ltext) if ltext else None
                rdoc = corpus.load(rtext)
                case = {"lhs": ltext, "rhs": rtext, "mergeat": at,
                        "segs": [], "policies": pol, "empty_left": True}
                cfg = mergerun.make_config(pol, mergeat=at)
                res, data = mergerun.merge(ldoc, rdoc, cfg)
                st.outcomes["empty-left:" + res] += 1
                want = build(rplain)
                if res != "ok":
                    st.fail("empty-left|%s" % res, case, repr(want),
                            str(data))
                    continue
                st.states += 1
                st.sig("empty-left", ltext, at, type(rplain).__name__)
                if _plain(data) != want:
                    st.fail("empty-left|wrong-result|%s" % (
                        "no-document" if not ltext else "empty-container"),
                            case, repr(want), repr(_plain(data)))


ALIAS_CASES = [
    ("l: &l {k: 1}\na: *l\n", "x: [9]\n", "/*",
     {"l": {"k": 1, "x": [9]}, "a": {"k": 1, "x": [9]}}),
    ("l: &l [1]\na: *l\n", "[7]\n", "/*", {"l": [1, 7], "a": [1, 7]}),
    ("l: &l {k: 1}\na: *l\nb: {k: 2}\n", "x: 1\n", "/*",
     {"l": {"k": 1, "x": 1}, "a": {"k": 1, "x": 1}, "b": {"k": 2, "x": 1}}),
    ("a: {c: [1], d: [2]}\n", "x: [9]\n", "/a/*[parent()]",
     {"a": {"c": [1], "d": [2], "x": [9]}}),
    ("t: [&l {k: 1}, *l, {k: 3}]\n", "x: [9]\n", "/t/*",
     {"t": [{"k": 1, "x": [9]}, {"k": 1, "x": [9]}, {"k": 3, "x": [9]}]}),
]


PAD_CASES = [
    # (left, right, merge point, expected) - the list is padded up to the
    # created index; what lies beyond the index goes under THAT element only
    ("a: [{n: 0}]\nb: keep\n", "x: 1\n", "/a[3]/k",
     {"a": [{"n": 0}, {}, {}, {"k": {"x": 1}}], "b": "keep"}),
    ("a: [{n: 0}]\nb: keep\n", "[7]\n", "/a[2][0]",
     {"a": [{"n": 0}, [], [[7]]], "b": "keep"}),
    ("a: []\n", "x: 1\n", "/a[2]/k/j",
     {"a": [{}, {}, {"k": {"j": {"x": 1}}}]}),
    ("a: [1]\n", "5\n", "/a[3]/k", {"a": [1, {}, {}, {"k": 5}]}),
]


def pad_family(st):
    for ltext, rtext, at, want in PAD_CASES:
        for pol in POLS[:2]:
            st.evaluations += 1
            st.transitions += 1
            st.validated += 1
            case = {"lhs": ltext, "rhs": rtext, "mergeat": at, "segs": [],
                    "policies": pol, "alias_case": True}
            cfg = mergerun.make_config(pol, mergeat=at)
            res, data = mergerun.merge(corpus.load(ltext), corpus.load(rtext),
                                       cfg)
            st.outcomes["pad:" + res] += 1
            if res != "ok":
                st.fail("created-index|%s" % res, case, repr(want), str(data))
                continue
            st.states += 1
            st.sig("created-index", ltext, at, pol["hashes"])
            if _plain(data) != want:
                st.fail("created-index|wrong-result", case, repr(want),
                        repr(_plain(data)))


R_POL = dict(hashes="right", arrays="all", aoh="all", sets="unique")
AR_POL = dict(hashes="deep", arrays="right", aoh="all", sets="unique")
REPLACING_CASES = [
    # (left, [right documents merged one after the other], merge point,
    #  policy, expected): policies that REPLACE the target must replace it at
    # every place it is matched, also when the places hold one shared node
    ("t: {x: &x {k: 1}, y: *x}\n", ["n: 2\n"], "/t/*", R_POL,
     {"t": {"x": {"n": 2}, "y": {"n": 2}}}),
    ("hs: {h1: {a: 1}, h2: {a: 2}}\n", ["z: 1\n", "z: 2\n"], "/hs/*", R_POL,
     {"hs": {"h1": {"z": 2}, "h2": {"z": 2}}}),
    ("l: &l [1]\na: *l\n", ["[7]\n"], "/*", AR_POL, {"l": [7], "a": [7]}),
    ("hs: {h1: {a: [1]}, h2: {a: [2]}}\n", ["a: [8]\n", "a: [9]\n"],
     "/hs/*", AR_POL, {"hs": {"h1": {"a": [9]}, "h2": {"a": [9]}}}),
    # the replaced target is an ELEMENT of an array (picked by its index, by
    # a search, or every element)
    ("h: [{n: web, p: 80}, {n: db}]\n", ["p: 8443\n"], "/h[0]", R_POL,
     {"h": [{"p": 8443}, {"n": "db"}]}),
    ("h: [{n: web, p: 80}, {n: db}]\n", ["p: 8443\n"], "/h[n=db]", R_POL,
     {"h": [{"n": "web", "p": 80}, {"p": 8443}]}),
    ("m: [[1, 2], [3, 4]]\n", ["[4, 5]\n"], "/m[1]", AR_POL,
     {"m": [[1, 2], [4, 5]]}),
    ("m: [[1, 2], [3, 4]]\n", ["[9]\n"], "/m/*", AR_POL,
     {"m": [[9], [9]]}),
]


MK_LEFT = ("defaults: &d\n  opts: {retries: 3}\n  tags: [a]\n"
           "services:\n  web:\n    <<: *d\n    port: 80\n  db:\n    port: 1\n")


def mergekey_left_family(st):
    """The merge point inherits through a YAML merge key from an anchored
    hash OUTSIDE it: whatever the target becomes, the anchored hash and the
    target's siblings are as before (in memory and after dump + reload)."""
    from vkit import editrun
    rights = ["opts: {timeout: 9}\ntags: [b]\n", "opts: {timeout: 9}\n",
              "tags: [b]\nport: 81\n", "opts: {timeout: 9}\nnew: 1\n",
              "port: 81\n"]
    for rtext in rights:
        for pol in POLS[:2] + POLS[4:5]:
            for at in ("/services/web", "/services/*"):
                st.evaluations += 1
                st.transitions += 1
                st.validated += 1
                case = {"lhs": MK_LEFT, "rhs": rtext, "mergeat": at,
                        "segs": [], "policies": pol, "mergekey_left": True}
                doc = corpus.load(MK_LEFT)
                cfg = mergerun.make_config(pol, mergeat=at)
                res, data = mergerun.merge(doc, corpus.load(rtext), cfg)
                st.outcomes["mergekey-left:" + res] += 1
                if res not in ("ok", "merge-error"):
                    st.fail("mergekey-left|%s" % res, case, "a merge",
                            str(data)[:200])
                    continue
                if res != "ok":
                    continue
                st.states += 1
                st.sig("mergekey-left", rtext, at, pol["hashes"])
                for stage in ("in memory", "after dump and reload"):
                    if stage != "in memory":
                        try:
                            data = corpus.load(editrun.dump(data))
                        except Exception as ex:  # pylint: disable=broad-except
                            st.fail("mergekey-left|reload", case, "reloads",
                                    type(ex).__name__)
                            break
                    got = _plain(data)
                    outside = {"defaults": got.get("defaults")}
                    if at == "/services/web":
                        outside["db"] = got.get("services", {}).get("db")
                    want = {"defaults": {"opts": {"retries": 3},
                                         "tags": ["a"]}}
                    if at == "/services/web":
                        want["db"] = {"port": 1}
                    if outside != want:
                        st.fail("mergekey-left|outside-changed|%s" % stage,
                                case, repr(want), repr(outside))
                        break


def replacing_family(st):
    for ltext, rtexts, at, pol, want in REPLACING_CASES:
        st.evaluations += 1
        st.transitions += len(rtexts)
        st.validated += 1
        case = {"lhs": ltext, "rhs": rtexts, "mergeat": at, "segs": [],
                "policies": pol, "alias_case": True}
        doc = corpus.load(ltext)
        res = "ok"
        try:
            with core.watchdog(10):
                for rtext in rtexts:
                    cfg = mergerun.make_config(pol, mergeat=at)
                    res, doc = mergerun.merge(doc, corpus.load(rtext), cfg)
                    if res != "ok":
                        break
        except core.Hang:
            st.fail("replaced-target|hang", case, repr(want), "no result")
            continue
        st.outcomes["replacing:" + res] += 1
        if res != "ok":
            st.fail("replaced-target|%s" % res, case, repr(want), str(doc))
            continue
        st.states += 1
        st.sig("replaced-target", ltext, at)
        if _plain(doc) != want:
            st.fail("replaced-target|wrong-result", case, repr(want),
                    repr(_plain(doc)))
    # an empty left document and a merge point nothing can be built for:
    # a merge error or the right-hand document, never a crash or a loop
    for at in ("/*", "/a/*", "/**", "/[.=x]"):
        st.evaluations += 1
        st.validated += 1
        case = {"lhs": "", "rhs": "k: {x: 1}\n", "mergeat": at, "segs": [],
                "policies": POLS[0], "alias_case": True}
        cfg = mergerun.make_config(POLS[0], mergeat=at)
        try:
            with core.watchdog(10):
                res, data = mergerun.merge(None, corpus.load("k: {x: 1}\n"),
                                           cfg)
        except core.Hang:
            st.fail("empty-left-unbuildable|hang", case, "an answer", "none")
            continue
        st.outcomes["unbuildable:" + res] += 1
        if res == "crash":
            st.fail("empty-left-unbuildable|crash", case,
                    "a merge error or a document", str(data))
        elif res == "ok":
            try:
                editrun.dump(data)
            except Exception as ex:       # pylint: disable=broad-except
                st.fail("empty-left-unbuildable|undumpable", case,
                        "a finite document", type(ex).__name__)


def alias_family(st):
    """A target reached more than once (through an alias, or as the parent
    of several matches) is one node: it becomes the merge of its old content
    with the right-hand document - once - and the merge terminates."""
    for ltext, rtext, at, want in ALIAS_CASES:
        for pol in POLS[:2]:
            st.evaluations += 1
            st.transitions += 1
            st.validated += 1
            case = {"lhs": ltext, "rhs": rtext, "mergeat": at, "segs": [],
                    "policies": pol, "alias_case": True}
            cfg = mergerun.make_config(pol, mergeat=at)
            try:
                with core.watchdog(10):
                    res, data = mergerun.merge(corpus.load(ltext),
                                               corpus.load(rtext), cfg)
            except core.Hang:
                st.outcomes["alias:hang"] += 1
                st.fail("alias-target|hang", case, repr(want),
                        "no result within 10 s")
                continue
            st.outcomes["alias:" + res] += 1
            if res != "ok":
                st.fail("alias-target|%s" % res, case, repr(want), str(data))
                continue
            st.states += 1
            st.sig("alias-target", ltext, at, pol["hashes"])
            if pol["hashes"] == "deep" and pol["arrays"] == "all" and \
                    _plain(data) != want:
                st.fail("alias-target|wrong-result", case, repr(want),
                        repr(_plain(data)))


def rules_family(st):
    """Per-path [rules]/[keys] are written against the MERGED document and
    re-based on the merge point: with --mergeat=/t a rule for /t/x governs
    the right-hand document's /x (given absolutely, and - equivalently for a
    root merge - without a merge point)."""
    lefts = [("m", (("t", ("m", (("x", ("l", (1, 2))), ("k", "v")))),
                    ("u", 5))),
             ("m", (("t", ("m", (("x", ("l", (("m", (("id", 1),
                                                     ("v", "a"))),))),))),
                    ("x", ("l", (9,)))))]
    rights = [("m", (("x", ("l", (2, 3))),)),
              ("m", (("x", ("l", (("m", (("id", 1), ("w", "b"))),
                                  ("m", (("id", 2), ("w", "c")))))),)),
              ("m", (("x", ("l", ())), ("k", "new")))]
    for lspec in lefts:
        ltext = corpus.render(lspec)
        ldoc = corpus.load(ltext)
        for rspec in rights:
            rtext = corpus.render(rspec)
            rdoc = corpus.load(rtext)
            rcanon = corpus.canon(rdoc)
            for pol in POLS[:3]:
                for rule in ("left", "right", "unique", "all", "deep"):
                    for where in ("at-target", "at-root", "target-itself",
                                  "target-itself-list", "root-itself",
                                  "lookalike"):
                        check_rule(st, ldoc, ltext, rdoc, rtext, rcanon, pol,
                                   rule, where)


def check_rule(st, ldoc, ltext, rdoc, rtext, rcanon, pol, rule, where):
    from vkit import refmerge as rm
    st.evaluations += 1
    is_aoh = rm.is_aoh(dict((rm.keyname(k), v) for k, v in rcanon[1])["x"])
    if rule == "deep" and not is_aoh and "itself" not in where:
        return
    if where == "target-itself-list" and rule == "deep" and not is_aoh:
        return
    refrule = ("x",)
    at = ("t",)
    if where == "at-target":
        mergeat, rulepath = "/t", "/t/x"
        target = corpus.canon(ldoc["t"])
    elif where == "lookalike":
        # a rule for /tx is no rule for anything under the merge point /t
        mergeat, rulepath, refrule = "/t", "/tx", None
        target = corpus.canon(ldoc["t"])
    elif where == "target-itself":
        # the rule names the merge point: it governs the right-hand root
        if rule not in ("left", "right", "deep"):
            return
        mergeat, rulepath, refrule = "/t", "/t", ()
        target = corpus.canon(ldoc["t"])
    elif where == "target-itself-list":
        mergeat, rulepath, refrule = "/t/x", "/t/x", ()
        at = ("t", "x")
        target = corpus.canon(ldoc["t"]["x"])
        rdoc = rdoc["x"]          # the case keeps the whole right-hand text
        rcanon = corpus.canon(rdoc)
    elif where == "root-itself":
        if rule not in ("left", "right", "deep"):
            return
        mergeat, rulepath, refrule = None, "/", ()
        target = corpus.canon(ldoc)
    else:
        mergeat, rulepath = None, "/x"
        target = corpus.canon(ldoc)
    case = {"lhs": ltext, "rhs": rtext, "mergeat": mergeat or "/",
            "segs": [], "policies": pol, "rules": {rulepath: rule},
            "where": where}
    refpol = dict(pol)
    refpol["rules"] = {refrule: rule} if refrule is not None else {}
    try:
        sub = rm.merge(target, rcanon, refpol)
    except rm.MergeError:
        sub = None
    except rm.Unspecified:
        st.extra["unspecified"] += 1
        return
    if sub is None:
        want = None
    elif mergeat:
        want = refedit.edited(ldoc, (), {at: sub}, {}, set(),
                              anchors=False)
    else:
        want = sub
    cfg = mergerun.make_config(pol, mergeat=mergeat,
                               rules={rulepath: rule})
    res, data = mergerun.merge(mergerun.fresh(ldoc), mergerun.fresh(rdoc),
                               cfg)
    st.transitions += 1
    st.validated += 1
    st.states += 1
    st.outcomes["rule:" + res] += 1
    st.sig("rule", ltext, rtext, rule, where, pol["hashes"])
    if res == "crash":
        st.fail("rule|crash|%s" % data, case, "a merge", data)
    elif want is None:
        if res == "ok":
            st.fail("rule|not-refused", case, "a merge error", "merged")
    elif res != "ok":
        st.fail("rule|spurious-%s" % res, case, repr(want)[:300], str(data))
    elif rm.unordered(corpus.canon(data)) != rm.unordered(want):
        st.fail("rule|wrong-result|%s|%s" % (where, rule), case,
                repr(want)[:400], repr(corpus.canon(data))[:400])


def model(ldoc, segs, rcanon, pol):
    """-> ('doc', canon, n) | ('refuse',) | ('unspecified', why)"""
    try:
        ctxs = refedit.matched(ldoc, segs)
    except refquery.Unspecified as ex:
        return ("unspecified", str(ex))
    except refquery.ExpectError:
        return ("refuse",)
    if ctxs:
        try:
            if not refquery.all_branches_exist(segs, refquery.root_ctx(ldoc)):
                return ("unspecified", "some branch would be created")
        except (refquery.Unspecified, refquery.ExpectError):
            return ("unspecified", "branches")
        repl = {}
        for c in ctxs:
            old = corpus.canon(c.node)
            if old == ("null", None):
                return ("unspecified", "null target")
            if any(c.pos[:k] in repl for k in range(len(c.pos))):
                return ("unspecified", "nested targets")
            try:
                repl[c.pos] = refmerge.merge(old, rcanon, pol)
            except refmerge.MergeError:
                return ("refuse",)
            except refmerge.Unspecified as ex:
                return ("unspecified", str(ex))
        return ("doc", refedit.edited(ldoc, (), repl, {}, set(),
                                      anchors=False), len(ctxs))
    # nothing matched: creatable only for straight key paths
    if all(s[0] == "key" for s in segs):
        exp = C09.expect_created(ldoc, segs, rcanon)
        if exp is None:
            # below a scalar the path cannot be created; through a list the
            # engine's pass-through may still find a place: left open
            return ("unspecified", "creation outside the straight-line model")
        return ("doc", strip_anchors(exp), 0)
    return ("refuse",)


def strip_anchors(t):
    from vkit.props.C10 import strip
    return strip(t)


def check(st, ldoc, ltext, shp, segs, rname, rtext, rdoc, pol):
    st.evaluations += 1
    mergeat = paths.render(segs, "/")
    case = {"lhs": ltext, "mergeat": mergeat, "segs": segs, "rhs": rtext,
            "policies": pol}
    rcanon = corpus.canon(rdoc)
    mod = model(ldoc, segs, rcanon, pol)
    if mod[0] == "unspecified":
        st.extra["unspecified"] += 1
        return
    st.transitions += 1
    st.validated += 1
    lcopy = mergerun.fresh(ldoc)
    cfg = mergerun.make_config(pol, mergeat=mergeat)
    res, data = mergerun.merge(lcopy, mergerun.fresh(rdoc), cfg)
    st.outcomes[res] += 1
    psig = "%(hashes)s/%(arrays)s/%(aoh)s/%(sets)s" % pol
    cls = "%s|%s" % (paths.sig(segs) if len(segs) < 3 else "deep", rname)
    if res == "crash":
        st.fail("crash|%s|%s" % (cls, data), case, mod[0], data)
        return
    st.states += 1
    if mod[0] == "refuse":
        st.sig(shp, paths.sig(segs), rname, psig, "refuse")
        if res == "ok":
            st.fail("not-refused|%s" % cls, case, "a merge error",
                    repr(corpus.canon(data))[:300])
        return
    st.sig(shp, paths.sig(segs), rname, psig, mod[2])
    if res != "ok":
        st.fail("spurious-%s|%s" % (res, cls), case, repr(mod[1])[:300],
                "%s: %s" % (res, data))
        return
    got = corpus.canon(data)
    if not C09.canon_match(unorder(mod[1]), unorder(got)):
        st.fail("wrong-result|%s|%s" % (cls, psig), case, repr(mod[1])[:400],
                repr(got)[:400])


def unorder(t):
    """Maps order-free but still PAD-matchable: sort the items."""
    if t[0] == "m":
        return ("m", tuple(sorted(((k, unorder(v)) for k, v in t[1]),
                                  key=lambda kv: repr(kv[0]))))
    if t[0] == "l":
        return ("l", tuple(unorder(v) for v in t[1]))
    return t


def replay(case):
    from vkit.props import C01
    st = core.Stats(None)
    if case.get("empty_left") or case.get("alias_case") \
            or case.get("mergekey_left"):
        empty_left_family(st)
        alias_family(st)
        pad_family(st)
        replacing_family(st)
        mergekey_left_family(st)
        for lst in st.fails.values():
            for f in lst:
                if all(f["case"][k] == case[k] for k in
                       ("lhs", "rhs", "mergeat", "policies")):
                    return f
        return None
    rdoc = corpus.load(case["rhs"])
    if case.get("rules"):
        (rulepath, rule), = case["rules"].items()
        check_rule(st, corpus.load(case["lhs"]), case["lhs"], rdoc,
                   case["rhs"], corpus.canon(rdoc), case["policies"], rule,
                   case.get("where") or (
                       "at-target" if case["mergeat"] != "/" else "at-root"))
        for lst in st.fails.values():
            return lst[0]
        return None
    check(st, corpus.load(case["lhs"]), case["lhs"], "?",
          C01.tup(case["segs"]), "?", case["rhs"], rdoc, case["policies"])
    for lst in st.fails.values():
        return lst[0]
    return None


def repro(case):
    from vkit.props import C05
    c = dict(case)
    c["policies"] = dict(case["policies"], mergeat=case["mergeat"])
    return C05.repro(c)
