"""
C08 - path text and parsed segments round-trip in both notations.

All segment sequences (ASTs) of length <= k over a grammar covering every
segment kind, with key / attribute / term / parameter text drawn from
letters, digits and every escapable special character, rendered by the
independent writer (paths.render: dot and slash, backslash-escaped and
quote-demarcated), parsed by the library, and compared field by field.
Plus: canonical string is a fixed point and re-parses identically in either
notation; == holds exactly for equal ASTs (all pairs); append-then-pop
restores the path.
"""
import itertools

from yamlpath import YAMLPath
from yamlpath.enums import PathSegmentTypes, PathSeparators
from yamlpath.exceptions import YAMLPathException
from yamlpath.path import CollectorTerms, SearchKeywordTerms, SearchTerms

from vkit import core, paths, qrun

ID = "C08"
LEVEL = "model_checking"
RULE = ("all ASTs of 1..k segments over: keys/terms over the text alphabet "
        "(letters, digit, every escapable special alone and embedded), "
        "indexes, array and hash slices, anchors, 9 operators x inversion x "
        "{. , attr}, 7 keywords x 0-2 parameters x inversion, collectors "
        "with + - & over inner paths; each rendered 4 ways; all pairs for "
        "==; non-trivial = the AST parsed back; distinct = distinct (segment "
        "signature, text class)")
ASSUMPTIONS = [
    "dot-notation paths whose first character is '/' are excluded (the "
    "notation's own definition)",
    "text containing * (wildcard), or starting with & ! or an operator "
    "character in attribute position, is outside the escapable set",
]

TEXTS = ["a", "b1", "1", "a.b", "a/b", "a b", "[", "]", "(", ")", "'", '"',
         "\\", "^", "$", "%", "a[0]", "x(y)", "it's", 'say "hi"', "a\\b",
         "50%", "^a$", ".", "/", " ", "a.b/c d", "/x", "/a.b", "./x",
         '"hi"', "'q'", '""', "'tis so", 'a"', "x'y\"z",
         # a backslash right before a character that is itself escaped
         "a\\ b", "a\\.b", "a\\/b", "b\\$", "\\'", "\\\\", "x\\"]
SIMPLE = ["a", "b1", "1"]
# segments (pre-escaped, as append() takes them) appended and popped again
APPENDS = ["zz", "[&A]", "[0]", "[1:2]", "*", "**", "[k=v]", "[max(a)]",
           "h\\=i", "b\\\\c", "x\\.y", "'q r'"]
SEGS1 = []
PATHS = []


def seg_vocab(tier):
    v = []
    for t in TEXTS:
        v.append(("key", t))
    for i in (-1, 0, 2):
        v.append(("idx", i))
    for a, b in ((0, 1), (-2, -1), (1, 1)):
        v.append(("slice", a, b))
    v.append(("slice", "a", "c"))
    for n in ("A", "an_1"):
        v.append(("anchor", n))
    v.append(("all",))
    v.append(("trav",))
    terms = TEXTS if tier != "quick" else [
        "a", "1", "a.b", "a b", "]", "[", "'", '"', "\\", "a/b", "(", ")",
        "^", "$", "%", '"hi"', "'q'", '""', "'tis so", 'say "hi"', 'a"',
        "x'y\"z", "a\\b", "b\\ c", "b\\$", "\\'"]
    for op in paths.OPS:
        for inv in (False, True):
            v.append(("search", ".", op, "a", inv))
            v.append(("search", "k", op, "1", inv))
    for term in terms:
        for op in ("=", "^", "=~"):
            v.append(("search", "k", op, term, False))
    for attr in ("k", "a.b", "a b", "k1", "/a/b"):
        v.append(("search", attr, "=", "a", False))
        v.append(("search", attr, ">=", "1", True))
    for kw in ("has_child", "max", "min", "unique", "distinct", "parent",
               "name"):
        for params in ((), ("a",), ("a", "b"), ("a b",), ("a,b",), ("1",),
                       ("it's",), ("x(y)",)):
            for inv in (False, True):
                v.append(("kw", kw, params, inv))
    return v


def coll_vocab():
    inner = [(("key", "a"),), (("key", "a"), ("key", "b")),
             (("key", "a"), ("idx", 0)), (("all",),),
             (("key", "a"), ("search", "k", "=", "1", False)),
             (("key", "a b"),), (("trav",), ("key", "a")),
             (("anchor", "A"),), (("anchor", "A"), ("key", "a")),
             # (white-space inside the inner path's search terms)
             (("search", "k", "=~", "a b", False),),
             (("key", "a"), ("search", ".", "=", "a b", False)),
             (("search", "a b", "^", "c d", True),)]
    out = []
    for i in inner:
        out.append((("coll", "", i),))
        for op in ("+", "-", "&"):
            for j in inner[:3]:
                out.append((("coll", "", i), ("coll", op, j)))
    out.append((("coll", "", inner[0]), ("coll", "+", inner[1]),
                ("coll", "-", inner[2])))
    out.append((("key", "x"), ("coll", "", inner[1]), ("idx", 0)))
    # an operator-less collector AFTER a collector that had an operator (the
    # pending operator must not stick), adjacent and with segments between
    for op in ("+", "-", "&"):
        for mid in ((), (("key", "k"),), (("idx", 0),),
                    (("search", "k", "=", "1", False),)):
            out.append((("coll", "", inner[0]), ("coll", op, inner[1])) + mid
                       + (("coll", "", inner[2]),))
            out.append((("coll", "", inner[0]), ("coll", op, inner[1])) + mid
                       + (("coll", "", inner[2]), ("coll", op, inner[0])))
    return out


def plan(tier):
    global SEGS1, PATHS
    SEGS1 = seg_vocab(tier)
    PATHS = [(s,) for s in SEGS1]
    second = [("key", "a"), ("key", "a.b"), ("idx", 0), ("all",), ("trav",),
              ("search", "k", "=", "a b", True), ("kw", "max", ("a",), False),
              ("anchor", "A"), ("slice", 0, 1), ("key", "]")]
    firsts = SEGS1 if tier != "quick" else SEGS1[::2]
    for s in firsts:
        for t in second:
            if s[0] == "trav" and t[0] == "trav":
                continue
            PATHS.append((s, t))
            PATHS.append((t, s))
    if tier != "quick":
        for s in SEGS1[::5]:
            for t in second[:4]:
                for u in second[:4]:
                    PATHS.append((t, s, u))
    PATHS += coll_vocab()
    bounds = {"segment_vocabulary": len(SEGS1), "paths": len(PATHS),
              "texts": TEXTS, "renderings": ["dot/backslash", "dot/quoted",
                                             "slash/backslash",
                                             "slash/quoted"]}
    shards = [("rt", lo, min(len(PATHS), lo + 400))
              for lo in range(0, len(PATHS), 400)]
    neq = len(SEGS1) if tier != "quick" else len(SEGS1)
    shards += [("eq", lo, min(neq, lo + 20)) for lo in range(0, neq, 20)]
    return shards, bounds


# ------------------------------------------------------------ parsed -> AST
def to_ast(segments):
    out = []
    for stype, attrs in segments:
        if stype is PathSegmentTypes.KEY:
            out.append(("key", str(attrs)))
        elif stype is PathSegmentTypes.INDEX:
            if isinstance(attrs, int):
                out.append(("idx", attrs))
            else:
                a, b = str(attrs).split(":", 1)
                try:
                    out.append(("slice", int(a), int(b)))
                except ValueError:
                    out.append(("slice", a, b))
        elif stype is PathSegmentTypes.ANCHOR:
            out.append(("anchor", str(attrs)))
        elif stype is PathSegmentTypes.MATCH_ALL:
            out.append(("all",))
        elif stype is PathSegmentTypes.TRAVERSE:
            out.append(("trav",))
        elif stype is PathSegmentTypes.SEARCH and isinstance(
                attrs, SearchTerms):
            out.append(("search", attrs.attribute, str(attrs.method),
                        attrs.term, bool(attrs.inverted)))
        elif stype is PathSegmentTypes.KEYWORD_SEARCH and isinstance(
                attrs, SearchKeywordTerms):
            out.append(("kw", str(attrs.keyword), tuple(attrs.parameters),
                        bool(attrs.inverted)))
        elif stype is PathSegmentTypes.COLLECTOR and isinstance(
                attrs, CollectorTerms):
            inner = to_ast(YAMLPath(attrs.expression).escaped)
            out.append(("coll", str(attrs.operation), inner))
        else:
            out.append(("?", str(stype), str(attrs)))
    return tuple(out)


def parse(text):
    try:
        return to_ast(YAMLPath(text).escaped)
    except YAMLPathException as ex:
        return ("ype", str(ex)[:80])
    except Exception as ex:               # pylint: disable=broad-except
        return ("crash", "%s@%s" % (type(ex).__name__, qrun.where(ex)))


def text_class(segs):
    kinds = set()
    for s in segs:
        for part in s[1:]:
            items = part if isinstance(part, tuple) else (part,)
            for it in items:
                if isinstance(it, str):
                    for ch in it:
                        if not ch.isalnum():
                            kinds.add(ch)
    return "".join(sorted(kinds))


def run_shard(shard):
    st = core.Stats(ID)
    if shard[0] == "rt":
        for pi in range(shard[1], shard[2]):
            roundtrip(st, PATHS[pi])
        st.sample({"ast": PATHS[shard[1]], "dot": paths.render(
            PATHS[shard[1]], "."), "slash": paths.render(PATHS[shard[1]],
                                                          "/")})
    else:
        if shard[1] == 0:
            root_paths(st)
        equality(st, shard[1], shard[2])
    return st


def root_paths(st):
    """The path of no segments - written "" or "/" - stays that path when
    its notation is switched, before or after it was first read."""
    for text in ("", "/"):
        for sep in (PathSeparators.DOT, PathSeparators.FSLASH):
            for read_first in (False, True):
                st.evaluations += 1
                st.transitions += 1
                case = {"root_text": text, "to": str(sep),
                        "read_first": read_first}
                path = YAMLPath(text)
                if read_first:
                    path.escaped  # pylint: disable=pointless-statement
                path.separator = sep
                shown = str(path)
                got = (to_ast(path.escaped), len(path.unescaped),
                       path.is_root, parse(shown))
                if got != ((), 0, True, ()):
                    st.fail("root-switched|%r" % text, case,
                            "no segments", "%r: %r" % (shown, got))
                    continue
                path.append("zz")
                if to_ast(path.escaped) != (("key", "zz"),):
                    st.fail("root-switched-append|%r" % text, case,
                            "one segment", repr(to_ast(path.escaped)))
                    continue
                st.outcomes["ok"] += 1


    root_grown(st)


def root_grown(st):
    """A path grown from the root by append() alone - the root written "" or
    "/" - holds exactly the appended segments (pre-escaped for its notation,
    as append() takes them), and popping them leads back to the root."""
    for text, sep in (("", "."), ("/", "/")):
        for first in TEXTS:
            if sep == "." and first.startswith("/"):
                continue
            for second in ("zz", "a.b", "a/b"):
                st.evaluations += 1
                st.transitions += 4
                case = {"root_text": text, "appended": [first, second]}
                want = (("key", first), ("key", second))
                pre = [paths.render((seg,), sep, "bs") for seg in want]
                if sep == "/":
                    pre = [t[1:] for t in pre]
                path = YAMLPath(text)
                try:
                    path.append(pre[0])
                    one = to_ast(path.escaped)
                    path.append(pre[1])
                    two = to_ast(path.escaped)
                    shown = str(path)
                    again = parse(shown)
                    path.pop()
                    back1 = to_ast(path.escaped)
                    path.pop()
                    back0 = (to_ast(path.escaped), path.is_root)
                except YAMLPathException as ex:
                    st.fail("root-grown|%r|raises" % text, case, repr(want),
                            str(ex)[:100])
                    continue
                got = (one, two, again, back1, back0)
                exp = (want[:1], want, want, want[:1], ((), True))
                if got != exp:
                    st.fail("root-grown|%r|segments" % text, case,
                            repr(exp), "%r: %r" % (shown, got))
                    continue
                st.outcomes["ok"] += 1


def roundtrip(st, segs):
    sig = paths.sig(segs)
    for sep in (".", "/"):
        styles = ("bs", "q", "qq1", "qq2") if any(
            x[0] == "search" for x in segs) else ("bs", "q")
        if any(x[0] == "coll" for x in segs):
            styles += ("rel",)
        for style in styles:
            text = paths.render(segs, sep, style)
            if sep == "." and text.startswith("/"):
                st.extra["dot_paths_starting_with_slash_excluded"] += 1
                continue
            st.evaluations += 1
            st.transitions += 1
            case = {"ast": segs, "text": text, "notation": sep,
                    "style": style}
            got = parse(text)
            if got != segs:
                st.outcomes["mismatch"] += 1
                st.fail("parse|%s|%s/%s" % (sig, sep, style), case,
                        repr(segs), repr(got))
                continue
            st.outcomes["ok"] += 1
            st.states += 1
            st.validated += 1
            st.sig(sig, text_class(segs))
            # canonical string: re-parses to the same segments, is a fixed
            # point, and survives a switch of notation
            path = YAMLPath(text)
            canon = str(path)
            if parse(canon) != segs:
                st.fail("canonical-reparse|%s|%s" % (sig, sep), case,
                        repr(segs), "%r -> %r" % (canon, parse(canon)))
                continue
            if str(YAMLPath(canon)) != canon:
                st.fail("canonical-not-fixed-point|%s|%s" % (sig, sep), case,
                        canon, str(YAMLPath(canon)))
                continue
            other = YAMLPath(text)
            other.separator = (PathSeparators.FSLASH if sep == "."
                               else PathSeparators.DOT)
            otext = str(other)
            # (a canonical dot-notated string never starts with "/": the
            # stringifier escapes it, so nothing is excluded here)
            if parse(otext) != segs:
                st.fail("switch-notation|%s|from%s" % (sig, sep), case,
                        repr(segs), "%r -> %r" % (otext, parse(otext)))
                continue
            # the switch changes the spelling only: the object's own parsed
            # segments - read for the first time after the switch - are the
            # same, in both forms the same number
            lazy = YAMLPath(text)
            lazy.separator = other.separator
            try:
                lazy_ast = to_ast(lazy.escaped)
                lazy_n = len(lazy.unescaped)
            except Exception as ex:       # pylint: disable=broad-except
                lazy_ast, lazy_n = "%s: %s" % (type(ex).__name__, ex), -1
            if lazy_ast != segs or lazy_n != len(segs):
                st.fail("switch-then-parse|%s|from%s" % (sig, sep), case,
                        repr(segs), "%r (%d unescaped)" % (lazy_ast, lazy_n))
                continue
            # a switched path copied, compared or extended with + is still
            # the path of those segments
            try:
                copy_ast = to_ast(YAMLPath(lazy).escaped)
                same = (lazy == YAMLPath(text)) and (YAMLPath(text) == lazy)
                plus_ast = to_ast((lazy + "zz").escaped)
            except Exception as ex:       # pylint: disable=broad-except
                copy_ast, same, plus_ast = "%s: %s" % (
                    type(ex).__name__, ex), False, None
            if copy_ast != segs or not same or \
                    plus_ast != segs + (("key", "zz"),):
                st.fail("switch-then-copy|%s|from%s" % (sig, sep), case,
                        repr(segs), "copy %r, equal %s, + %r" % (
                            copy_ast, same, plus_ast))
                continue
            # ... and a segment appended to the switched path joins it as a
            # segment; popped again, the path is as before
            try:
                grown = YAMLPath(text)
                grown.separator = other.separator
                grown.append("zz")
                g_ast = to_ast(grown.escaped)
                grown.pop()
                p_ast = to_ast(grown.escaped)
            except Exception as ex:       # pylint: disable=broad-except
                g_ast = p_ast = "%s: %s" % (type(ex).__name__, ex)
            if g_ast != segs + (("key", "zz"),) or p_ast != segs:
                st.fail("switch-append-pop|%s|from%s" % (sig, sep), case,
                        repr(segs), "%r then %r" % (g_ast, p_ast))
                continue
            # a parsed path popped loses exactly its last segment
            try:
                shorter = YAMLPath(text)
                shorter.pop()
                s_ast = to_ast(shorter.escaped)
            except Exception as ex:       # pylint: disable=broad-except
                s_ast = "%s: %s" % (type(ex).__name__, ex)
            if s_ast != segs[:-1]:
                st.fail("pop-parsed|%s|%s" % (sig, sep), case,
                        repr(segs[:-1]), repr(s_ast))
                continue
            # a copy of a path whose segments were read already, popped (as
            # parent() does to climb): the copy loses its last segment, the
            # source keeps every one of them in both forms and in its text
            try:
                src = YAMLPath(text)
                n_esc, n_une = len(src.escaped), len(src.unescaped)
                dup = YAMLPath(src)
                dup.pop()
                d_ast = to_ast(dup.escaped)
                after = (to_ast(src.escaped), len(src.escaped),
                         len(src.unescaped), parse(str(src)))
                dup2 = YAMLPath(src)
                dup2.append("zz")
                after2 = (to_ast(src.escaped), len(src.unescaped),
                          to_ast(dup2.escaped))
            except Exception as ex:       # pylint: disable=broad-except
                d_ast = "%s: %s" % (type(ex).__name__, ex)
                after = after2 = None
            if d_ast != segs[:-1] or after != (segs, n_esc, n_une, segs) or \
                    after2 != (segs, n_une, segs + (("key", "zz"),)):
                st.fail("copy-pop-source|%s|%s" % (sig, sep), case,
                        "copy %r, source %r" % (segs[:-1], segs),
                        "copy %r, source %r / %r" % (d_ast, after, after2))
                continue
            # ... and switching on an object that was never stringified
            fresh = YAMLPath(text)
            fresh.separator = PathSeparators.DOT
            fresh.separator = PathSeparators.FSLASH
            fresh.separator = PathSeparators.DOT
            if parse(str(fresh)) != segs:
                st.fail("switch-notation-twice|%s|from%s" % (sig, sep), case,
                        repr(segs), "%r -> %r" % (str(fresh),
                                                  parse(str(fresh))))
                continue
            # append then pop restores the path and leaves the original alone
            before = str(path)
            for extra in APPENDS:
                if segs[-1][0] == "trav" and extra == "**":
                    continue
                grown = path + extra
                if str(path) != before:
                    st.fail("append-mutates|%s" % sig, case, before,
                            str(path))
                    break
                try:
                    grown.pop()
                except YAMLPathException as ex:
                    st.fail("pop-raises|%s" % sig, dict(case, appended=extra),
                            "pop", str(ex)[:80])
                    break
                try:
                    restored = (grown == path
                                and to_ast(grown.escaped) == segs)
                    shown = "%r %r" % (str(grown), to_ast(grown.escaped))
                except Exception as ex:   # pylint: disable=broad-except
                    restored = False
                    shown = "%s: %s" % (type(ex).__name__, str(ex)[:80])
                if not restored:
                    st.fail("append-pop|%s|%s" % (sig, sep),
                            dict(case, appended=extra), before, shown)
                    break


def equality(st, lo, hi):
    """p == q exactly when the ASTs are equal, over all pairs of 1-segment
    paths (each rendered in the two notations)."""
    rendered = []
    for s in SEGS1:
        segs = (s,)
        texts = []
        for sep in (".", "/"):
            t = paths.render(segs, sep)
            if sep == "." and t.startswith("/"):
                continue
            texts.append(t)
        rendered.append((segs, texts))
    for i in range(lo, hi):
        segs_i, texts_i = rendered[i]
        for ti in texts_i:
            try:
                pi = YAMLPath(ti)
                pi.escaped       # pylint: disable=pointless-statement
            except YAMLPathException:
                continue
            if parse(ti) != segs_i:
                continue
            for j, (segs_j, texts_j) in enumerate(rendered):
                for tj in texts_j:
                    if parse(tj) != segs_j:
                        continue
                    st.evaluations += 1
                    st.transitions += 1
                    want = segs_i == segs_j
                    try:
                        got = (pi == YAMLPath(tj))
                    except Exception as ex:   # pylint: disable=broad-except
                        st.fail("eq-raises", {"a": ti, "b": tj}, want,
                                repr(ex)[:100])
                        continue
                    st.outcomes["eq:%s" % got] += 1
                    if got != want:
                        st.fail("eq|%s" % ("false-negative" if want else
                                           "false-positive"),
                                {"a": ti, "b": tj, "ast_a": segs_i,
                                 "ast_b": segs_j}, want, got)
                    elif want and ti != tj:
                        st.sig("eq", ti, tj)
    st.states += hi - lo


def replay(case):
    from vkit.props import C01
    st = core.Stats(None)
    if "root_text" in case:
        root_paths(st)
    elif "ast" in case:
        roundtrip(st, C01.tup(case["ast"]))
    else:
        want = C01.tup(case.get("ast_a")) == C01.tup(case.get("ast_b"))
        got = YAMLPath(case["a"]) == YAMLPath(case["b"])
        if got != want:
            return {"cls": "eq", "case": case, "expected": want,
                    "observed": got}
    for lst in st.fails.values():
        return lst[0]
    return None


def repro(case):
    if "root_text" in case:
        return ("from yamlpath import YAMLPath\n"
                "from yamlpath.enums import PathSeparators\n"
                "p = YAMLPath(%r); p.separator = PathSeparators.%s\n"
                "print(repr(str(p)), list(p.escaped))\n" % (
                    case["root_text"],
                    "DOT" if case["to"] == "." else "FSLASH"))
    if "text" in case:
        return ("from yamlpath import YAMLPath\n"
                "p = YAMLPath(%r)\n"
                "print(list(p.escaped)); print(str(p)); "
                "print(list(YAMLPath(str(p)).escaped))\n" % case["text"])
    return ("from yamlpath import YAMLPath\n"
            "print(YAMLPath(%r) == YAMLPath(%r))\n" % (case["a"], case["b"]))
