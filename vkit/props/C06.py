"""
C06 - a diff is truthful and complete; it is empty of changes iff the data
are equal.

Pairs (L, R): L from the corpus, R = L itself, every single-edit neighbour of
L (replace / delete / insert / adjacent swap at every position) and every
document of a sub-corpus; x array modes {position, value} x Array-of-Hashes
modes {position, dpos, value, key, deep}.  Oracles (no expected diff is
written down): entry truth and leaf coverage under positional comparison,
"non-SAME entry <=> the data differ" and once-only accounting in every mode.
"""
from types import SimpleNamespace

from yamlpath import YAMLPath
from yamlpath.differ import Differ, DifferConfig
from yamlpath.differ.enums.diffactions import DiffActions
from yamlpath.enums import PathSegmentTypes

from vkit import core, corpus, qrun

ID = "C06"
LEVEL = "model_checking"
RULE = ("L in the corpus (<= N nodes, nulls, empty containers, Arrays-of-"
        "Hashes with identity keys); R in {L} + all single-edit neighbours of "
        "L + a sub-corpus of unrelated documents; x 2 array modes x 5 AoH "
        "modes (key/deep only when all members are hashes); non-trivial = L "
        "and R differ as data; distinct = distinct (shape L, shape R, modes, "
        "verdict)")
ASSUMPTIONS = [
    "entry paths are resolved by plain key/index navigation (no library "
    "query code)",
    "'differ as data' disregards mapping key order always and sequence order "
    "in the synchronised modes (value: multiset of members; key/deep: "
    "records matched by identity key)",
]

ARRAYS = ("position", "value")
AOH = ("position", "dpos", "value", "key", "deep")
LEFTS = []
OTHERS = []


def rec(i, v):
    return ("m", (("id", i), ("v", v)))


def corpus_docs(tier):
    nmax = 3 if tier == "quick" else 4
    docs = corpus.docs(nmax, (None, 1, "x"), ("a", "b"), sets=True)
    docs += [
        ("l", ("a", None)), ("l", (None, None)), ("l", (1, 2)), ("l", (2, 1)),
        ("l", (1, 1, 2)), ("l", (1, 2, 2)),
        ("l", (rec(1, "x"),)), ("l", (rec(1, "x"), rec(2, "y"))),
        ("l", (rec(2, "y"), rec(1, "x"))), ("l", (rec(1, "x"), rec(2, "z"))),
        ("l", (rec(1, "x"), rec(1, "x"))),
        # records sharing an identity-key value but differing elsewhere
        ("l", (rec(1, "x"), rec(1, "y"))),
        ("l", (rec(1, "x"), rec(2, "y"), rec(1, "z"))),
        ("l", (rec(1, "x"), rec(1, "y"), rec(1, "z"))),
        ("m", (("a", ("l", (rec(1, "x"), rec(2, "y"), rec(1, "z"),
                            rec(2, "w")))),)),
        ("l", (("m", (("n", 1),)),)),
        ("m", (("a", ("l", (rec(1, "x"), rec(2, "y")))),)),
        ("m", (("a", ("l", (1, 2))), ("b", ("l", ())))),
        ("m", (("a", None), ("b", ("m", ())))),
        # type clashes between values Python calls equal
        ("m", (("a", 1), ("b", ("l", (0, 1))))),
        ("m", (("a", True), ("b", ("l", (False, True))))),
        ("l", (1, True, 0, False)),
        ("s", (1, "b")), ("s", (True, "b")), ("s", (0, False)),
        ("m", (("a", ("s", (1, "x"))),)), ("m", (("a", ("s", (True, "x"))),)),
        ("l", (("l", (1, 2)), ("l", (2, 1)))),
    ]
    return docs


def neighbours(spec):
    """Every single-edit neighbour: replace, delete, insert, adjacent swap."""
    out = []
    if not isinstance(spec, tuple):
        for alt in (None, 1, 2, "x", "y", True):
            if alt != spec or type(alt) is not type(spec):
                out.append(alt)
        out.append(("l", (spec,)))
        out.append(("m", (("a", spec),)))
        return out
    tag, items = spec[0], spec[1]
    if tag == "s":
        out.append(("s", items[1:]))
        for m in ("x", "y", "a"):
            if m not in items:
                out.append(("s", tuple(sorted(items + (m,), key=repr))))
        # a member replaced by the value of another type Python calls equal
        twins = {1: True, 0: False}
        for i, m in enumerate(items):
            for a, b in list(twins.items()) + [(v, k) for k, v in
                                                twins.items()]:
                if m == a and type(m) is type(a):
                    out.append(("s", tuple(sorted(
                        items[:i] + (b,) + items[i + 1:], key=repr))))
        return out
    if tag == "l":
        for i in range(len(items)):
            out.append(("l", items[:i] + items[i + 1:]))
            for alt in neighbours(items[i]):
                out.append(("l", items[:i] + (alt,) + items[i + 1:]))
            if i + 1 < len(items) and items[i] != items[i + 1]:
                out.append(("l", items[:i] + (items[i + 1], items[i]) +
                            items[i + 2:]))
        for i in range(len(items) + 1):
            for new in (9, None):
                out.append(("l", items[:i] + (new,) + items[i:]))
        out.append(("m", ()))
        return out
    # map
    keys = [k for k, _ in items]
    for i, (k, v) in enumerate(items):
        out.append(("m", items[:i] + items[i + 1:]))
        for alt in neighbours(v):
            out.append(("m", items[:i] + ((k, alt),) + items[i + 1:]))
        if i + 1 < len(items):
            out.append(("m", items[:i] + (items[i + 1], items[i]) +
                        items[i + 2:]))
    for newk in ("z", "a"):
        if newk not in keys:
            out.append(("m", items + ((newk, 9),)))
    out.append(("l", ()))
    return out


def plan(tier):
    global LEFTS, OTHERS
    LEFTS = corpus_docs(tier)
    OTHERS = LEFTS[::7] if tier == "quick" else LEFTS[::3]
    bounds = {"left_documents": len(LEFTS), "unrelated_documents":
              len(OTHERS), "array_modes": list(ARRAYS), "aoh_modes": list(AOH)}
    step = 6
    return [(lo, min(len(LEFTS), lo + step))
            for lo in range(0, len(LEFTS), step)], bounds


def run_shard(shard):
    lo, hi = shard
    st = core.Stats(ID)
    for li in range(lo, hi):
        lspec = LEFTS[li]
        ltext = corpus.render(lspec)
        rights = [lspec] + neighbours(lspec) + OTHERS
        seen = set()
        for rspec in rights:
            if isinstance(rspec, tuple) is False and rspec is None:
                continue
            rtext = corpus.render(rspec)
            if rtext in seen:
                continue
            seen.add(rtext)
            try:
                ldoc = corpus.load(ltext)
                rdoc = corpus.load(rtext)
            except corpus.LoadError:
                continue
            shapes = (corpus.shape(lspec), corpus.shape(rspec))
            for arrays in ARRAYS:
                for aoh in AOH:
                    check(st, ldoc, rdoc, ltext, rtext, shapes, arrays, aoh)
        if li == 0:
            notation_family(st)
            interleaved_family(st)
        if li == 1:
            duplicates_family(st)
        if li == 2:
            replaced_family(st)
        if li == 3:
            reuse_family(st)
        if li == lo:
            st.sample({"lhs": ltext, "rhs": corpus.render(neighbours(lspec)[0])
                       if neighbours(lspec) else ltext, "arrays": "position",
                       "aoh": "position"})
    return st


NOTATION_PAIRS = [
    ('l: [beta, "x y", 1000, 2.50, true]\n',
     "l: [\"beta\", 'x y', 1_000, 2.5, True]\n"),
    ("[a, b, a]\n", '- "a"\n- \'b\'\n- a\n'),
    ("k: |\n  one line\nl: [one, two]\n",
     'k: "one line\\n"\nl: ["two", \'one\']\n'),
    ("- {id: 1, v: x}\n- {id: 2, v: y}\n",
     '- {"id": 2, "v": \'y\'}\n- {"id": 1, "v": "x"}\n'),
    ("s: [0x10, 0o7, 1e3]\n", "s: [16, 7, 1000.0]\n"),
]


def notation_family(st):
    """The same data written in two notations (plain / quoted / block
    scalars, digit grouping, other bases): loaded as the command loads them
    these are nodes of different Python types, yet equal data - so every
    mode's verdict is "no difference" wherever the data oracle says so."""
    for ltext, rtext in NOTATION_PAIRS:
        ldoc, rdoc = corpus.load(ltext), corpus.load(rtext)
        for arrays in ARRAYS:
            for aoh in AOH:
                check(st, ldoc, rdoc, ltext, rtext, ("notation", "notation"),
                      arrays, aoh)


def duplicates_family(st):
    """Lists with repeated members which also moved: every pair of lists of
    up to three members over two scalars, and over two records."""
    import itertools
    for pool in (("a", "b"), (rec(1, "x"), rec(2, "y"))):
        lists = [()]
        for n in (1, 2, 3):
            lists += list(itertools.product(pool, repeat=n))
        for litems in lists:
            for ritems in lists:
                lspec, rspec = ("l", litems), ("l", ritems)
                ltext, rtext = corpus.render(lspec), corpus.render(rspec)
                ldoc, rdoc = corpus.load(ltext), corpus.load(rtext)
                for arrays in ARRAYS:
                    for aoh in AOH:
                        check(st, ldoc, rdoc, ltext, rtext,
                              ("dup%d" % len(litems), "dup%d" % len(ritems)),
                              arrays, aoh)


def replaced_family(st):
    """Several members replaced in place at once (also moved, dropped, added):
    [p, q, r] and [p, q, r, s] against every list of three or four members
    over those and two further values - as scalars and as records."""
    import itertools
    pools = (("p", "q", "r", "s", "x", "y"),
             tuple(rec(i, v) for i, v in enumerate("pqrsxy")))
    for pool in pools:
        rights = list(itertools.product(pool, repeat=3)) + \
            list(itertools.product(pool, repeat=4))
        for litems in (pool[:3], pool[:4]):
            lspec = ("l", litems)
            ltext = corpus.render(lspec)
            ldoc = corpus.load(ltext)
            for ritems in rights:
                rspec = ("l", ritems)
                rtext = corpus.render(rspec)
                rdoc = corpus.load(rtext)
                for arrays, aoh in (("value", "position"), ("value", "value"),
                                    ("position", "value"),
                                    ("position", "deep")):
                    check(st, ldoc, rdoc, ltext, rtext,
                          ("rep%d" % len(litems), "rep%d" % len(ritems)),
                          arrays, aoh)


def interleaved_family(st):
    """Two comparisons in flight at once: each Differ's report is that of its
    own pair whatever other Differ compared something in between (all four
    orders of compare / compare / report / report)."""
    texts = [("a: 1\nl: [x, y]\n", "a: 2\nl: [x, y]\n"),
             ("a: 1\nl: [x, y]\n", "a: 1\nl: [x, y]\n"),
             ("- {id: 1, v: x}\n", "- {id: 1, v: y}\n- {id: 2, v: z}\n")]
    for arrays in ARRAYS:
        for aoh in AOH[:2]:
            cfg = DifferConfig(corpus.LOG, SimpleNamespace(arrays=arrays,
                                                           aoh=aoh))

            def solo(pair):
                d = Differ(cfg, corpus.LOG, corpus.load(pair[0]))
                d.compare_to(corpus.load(pair[1]))
                return [str(e) for e in d.get_report()]
            for i, first in enumerate(texts):
                for second in texts[:i] + texts[i + 1:]:
                    st.evaluations += 1
                    st.transitions += 4
                    st.validated += 1
                    st.states += 1
                    want = (solo(first), solo(second))
                    d1 = Differ(cfg, corpus.LOG, corpus.load(first[0]))
                    d2 = Differ(cfg, corpus.LOG, corpus.load(second[0]))
                    d1.compare_to(corpus.load(first[1]))
                    d2.compare_to(corpus.load(second[1]))
                    got = ([str(e) for e in d1.get_report()],
                           [str(e) for e in d2.get_report()])
                    st.outcomes["equal"] += 1
                    if got != want:
                        st.fail("interleaved|%s/%s" % (arrays, aoh),
                                {"lhs": first[0], "rhs": first[1],
                                 "arrays": arrays, "aoh": aoh,
                                 "interleaved_with": list(second)},
                                repr(want)[:300], repr(got)[:300])
                    else:
                        st.sig("interleaved", i, arrays, aoh)


def reuse_family(st):
    """One Differ used for several comparisons in a row, its report read
    after each: every report is that of the basis document against the
    document compared last (sequences of two and three right-hand documents
    of one shape - so that the reports have equal lengths - and of others)."""
    import itertools
    basis = "a: 1\nl: [x, y]\nm: {k: v}\n"
    rights = [basis, "a: 2\nl: [x, y]\nm: {k: v}\n",
              "a: 1\nl: [x, z]\nm: {k: v}\n", "a: 3\nl: [y, x]\nm: {k: w}\n",
              "a: 1\n", "[1, 2]\n"]
    for arrays in ARRAYS:
        cfg = DifferConfig(corpus.LOG, SimpleNamespace(arrays=arrays,
                                                       aoh="position"))

        def solo(rtext):
            d = Differ(cfg, corpus.LOG, corpus.load(basis))
            d.compare_to(corpus.load(rtext))
            return [str(e) for e in d.get_report()]
        for n in (2, 3):
            for seq in itertools.product(rights, repeat=n):
                st.evaluations += 1
                st.transitions += 2 * n
                st.validated += 1
                st.states += 1
                differ = Differ(cfg, corpus.LOG, corpus.load(basis))
                for k, rtext in enumerate(seq):
                    differ.compare_to(corpus.load(rtext))
                    got = [str(e) for e in differ.get_report()]
                    want = solo(rtext)
                    if got != want:
                        st.fail("reused-differ|%s" % arrays,
                                {"lhs": basis, "rhs": rtext, "arrays": arrays,
                                 "aoh": "position",
                                 "reused_after": list(seq[:k])},
                                repr(want)[:300], repr(got)[:300])
                        break
                else:
                    st.outcomes["equal"] += 1
                    st.sig("reused", seq, arrays)


# ---------------------------------------------------------------- data oracle
def all_hashes(lst):
    return len(lst) > 0 and all(corpus.is_map(e) for e in lst)


def equal(l, r, arrays, aoh):
    """Do l and r hold the same data under the given list modes?"""
    if corpus.is_map(l) and corpus.is_map(r):
        if set(l.keys()) != set(r.keys()):
            return False
        return all(equal(l[k], r[k], arrays, aoh) for k in l)
    if corpus.is_list(l) and corpus.is_list(r):
        if len(l) != len(r):
            return False
        is_aoh = len(r) > 0 and corpus.is_map(r[0])
        mode = aoh if is_aoh else arrays
        if mode in ("position", "dpos"):
            return all(equal(a, b, arrays, aoh) for a, b in zip(l, r))
        if mode == "value":
            rest = list(r)
            for a in l:
                for j, b in enumerate(rest):
                    if plain_equal(a, b):
                        del rest[j]
                        break
                else:
                    return False
            return True
        # key / deep: records matched by the identity key (first key of the
        # first right-hand record)
        key = next(iter(r[0].keys()), None)
        rest = list(r)
        for a in l:
            if not corpus.is_map(a):
                return False
            if key not in a:
                # no identity: only an identical record can be its peer
                for j, b in enumerate(rest):
                    if plain_equal(a, b):
                        del rest[j]
                        break
                else:
                    return False
                continue
            for j, b in enumerate(rest):
                if corpus.is_map(b) and key in b and plain_equal(
                        a[key], b[key]):
                    if mode == "key":
                        same = plain_equal(a, b)
                    else:
                        same = equal(a, b, arrays, aoh)
                    if not same:
                        return False
                    del rest[j]
                    break
            else:
                return False
        return True
    if corpus.is_set(l) and corpus.is_set(r):
        # type-strict: the member 1 is not the member true
        return sorted(map(repr, map(corpus.plain_scalar, l))) == \
            sorted(map(repr, map(corpus.plain_scalar, r)))
    if corpus.is_scalar(l) and corpus.is_scalar(r):
        pl, pr = corpus.plain_scalar(l), corpus.plain_scalar(r)
        if (pl[0] == "bool") != (pr[0] == "bool"):
            return False            # a boolean is not the number 1 / 0
        return pl == pr or l == r
    return False


def plain_equal(a, b):
    return equal(a, b, "position", "position")


def navigate(doc, ypath):
    """Plain navigation of an entry path; returns (found, node)."""
    node = doc
    for stype, attrs in ypath.escaped:
        if stype is PathSegmentTypes.KEY:
            if corpus.is_map(node):
                if attrs in node:
                    node = node[attrs]
                    continue
                try:
                    ik = int(attrs)
                except (TypeError, ValueError):
                    return False, None
                if ik in node:
                    node = node[ik]
                    continue
                return False, None
            if corpus.is_set(node):
                for m in node:
                    # (members that are not text are addressed by their text)
                    if m == attrs or (not isinstance(m, str) and (
                            str(m) == attrs or (
                                str(attrs).lstrip("-").isdigit()
                                and m == int(attrs)))):
                        node = m
                        break
                else:
                    return False, None
                continue
            return False, None
        if stype is PathSegmentTypes.INDEX:
            if corpus.is_list(node) and isinstance(attrs, int) and \
                    0 <= attrs < len(node):
                node = node[attrs]
                continue
            return False, None
        return False, None
    return True, node


def leaves(node, pos=()):
    """Positions of scalar / null leaves (an empty container has no leaf: a
    diff of {} with {} may stay silent; {} against [] is the verdict's job)."""
    if corpus.is_map(node):
        out = []
        for k, v in node.items():
            out += leaves(v, pos + (k,))
        return out
    if corpus.is_list(node):
        out = []
        for i, v in enumerate(node):
            out += leaves(v, pos + (i,))
        return out
    if corpus.is_set(node):
        return [pos + (m,) for m in node]
    return [pos]


def path_pos(ypath):
    out = []
    for stype, attrs in ypath.escaped:
        out.append(attrs)
    return tuple(out)


def covers(entry_pos, leaf_pos):
    if len(entry_pos) > len(leaf_pos):
        return False
    for a, b in zip(entry_pos, leaf_pos):
        if a != b and str(a) != str(b):
            # a member that is not text is named by one text for both
            # documents (true in one, 1 in the other: the path says 1)
            if not (isinstance(b, (bool, int)) and not isinstance(b, str)
                    and str(a).lstrip("-").isdigit() and b == int(a)):
                return False
    return True


def check(st, ldoc, rdoc, ltext, rtext, shapes, arrays, aoh):
    st.evaluations += 1
    has_aoh = _has_list(rdoc, True) or _has_list(ldoc, True)
    if aoh in ("key", "deep") and not _all_aoh_pure(ldoc, rdoc):
        st.extra["key_deep_skipped_mixed_members"] += 1
        return
    if arrays != ("value" if aoh == "value" else "position") and (
            _mixed_list(ldoc) or _mixed_list(rdoc)):
        # which of the two mode families governs a list mixing hashes with
        # other members is nowhere defined
        st.extra["mixed_member_lists_skipped"] += 1
        return
    case = {"lhs": ltext, "rhs": rtext, "arrays": arrays, "aoh": aoh}
    cfg = DifferConfig(corpus.LOG, SimpleNamespace(arrays=arrays, aoh=aoh))
    try:
        differ = Differ(cfg, corpus.LOG, ldoc)
        differ.compare_to(rdoc)
        entries = list(differ.get_report())
    except Exception as ex:               # pylint: disable=broad-except
        st.outcomes["crash"] += 1
        st.fail("crash|%s@%s" % (type(ex).__name__, qrun.where(ex)), case,
                "a report", repr(ex)[:200])
        return
    st.transitions += len(entries) + 1
    st.validated += 1
    st.states += 1
    modes = "%s/%s" % (arrays, aoh)
    differs = not equal(ldoc, rdoc, arrays, aoh)
    changed = any(e.action is not DiffActions.SAME for e in entries)
    st.outcomes["differ" if differs else "equal"] += 1
    if differs:
        st.sig(shapes, modes, "differ")
    # ---- verdict (every mode)
    if changed != differs:
        st.fail("verdict|%s|%s" % (modes, "missed-difference" if differs
                                   else "spurious-difference"), case,
                "non-SAME entry iff data differ (differ=%s)" % differs,
                describe(entries))
        return
    positional = arrays == "position" and aoh in ("position", "dpos")
    if not positional:
        if arrays == "value" and corpus.is_list(ldoc) and \
                corpus.is_list(rdoc) and all(
                    corpus.is_scalar(x) for x in list(ldoc) + list(rdoc)):
            value_accounting(st, case, modes, ldoc, rdoc, entries)
        return
    # ---- truth (positional comparison)
    for e in entries:
        act = e.action
        epath = e.path if isinstance(e.path, YAMLPath) else YAMLPath(e.path)
        lval, rval = e.lhs, getattr(e, "rhs", getattr(e, "_rhs", None))
        if act in (DiffActions.SAME, DiffActions.CHANGE, DiffActions.DELETE):
            ok, node = navigate(ldoc, epath)
            if not ok or not plain_equal(node, lval):
                st.fail("truth|%s|lhs-of-%s" % (modes, act.name), case,
                        "entry.lhs is what L holds at %s" % epath,
                        "L holds %r, entry says %r" % (
                            node if ok else "<nothing>", lval))
                return
        if act in (DiffActions.SAME, DiffActions.CHANGE, DiffActions.ADD):
            ok, node = navigate(rdoc, epath)
            if not ok or not plain_equal(node, rval):
                st.fail("truth|%s|rhs-of-%s" % (modes, act.name), case,
                        "entry.rhs is what R holds at %s" % epath,
                        "R holds %r, entry says %r" % (
                            node if ok else "<nothing>", rval))
                return
        if act is DiffActions.SAME and not plain_equal(lval, rval):
            st.fail("truth|%s|SAME-but-different" % modes, case, "equal",
                    "%r vs %r" % (lval, rval))
            return
        if act is DiffActions.CHANGE and plain_equal(lval, rval):
            st.fail("truth|%s|CHANGE-but-equal" % modes, case, "different",
                    "%r vs %r" % (lval, rval))
            return
    # ---- coverage (positional comparison)
    lcov = [path_pos(e.path) for e in entries if e.action in (
        DiffActions.SAME, DiffActions.CHANGE, DiffActions.DELETE)]
    rcov = [path_pos(e.path) for e in entries if e.action in (
        DiffActions.SAME, DiffActions.CHANGE, DiffActions.ADD)]
    for side, doc, cov in (("left", ldoc, lcov), ("right", rdoc, rcov)):
        for leaf in leaves(doc):
            if not any(covers(c, leaf) for c in cov):
                st.fail("coverage|%s|%s-leaf-uncovered" % (modes, side), case,
                        "an entry at or above %r" % (leaf,),
                        describe(entries))
                return
    # ---- accounting for top-level scalar lists
    if corpus.is_list(ldoc) and corpus.is_list(rdoc) and all(
            corpus.is_scalar(x) for x in list(ldoc) + list(rdoc)):
        nl = sum(1 for e in entries if len(path_pos(e.path)) == 1 and
                 e.action in (DiffActions.SAME, DiffActions.CHANGE,
                              DiffActions.DELETE))
        nr = sum(1 for e in entries if len(path_pos(e.path)) == 1 and
                 e.action in (DiffActions.SAME, DiffActions.CHANGE,
                              DiffActions.ADD))
        if nl != len(ldoc) or nr != len(rdoc):
            st.fail("accounting|%s" % modes, case,
                    "%d left / %d right elements accounted once" % (
                        len(ldoc), len(rdoc)),
                    "%d / %d: %s" % (nl, nr, describe(entries)))


def value_accounting(st, case, modes, ldoc, rdoc, entries):
    """Two lists of scalars synchronised by value: whatever index an entry is
    reported at, the left-hand values of the SAME / CHANGE / DELETE entries
    are the left list's members, each once, and the right-hand values of the
    SAME / CHANGE / ADD entries the right list's; SAME pairs are equal and
    CHANGE pairs are not."""
    def key(v):
        val = corpus.plain_scalar(v)
        return repr(val)
    lvals, rvals = [], []
    for e in entries:
        lval, rval = e.lhs, getattr(e, "rhs", getattr(e, "_rhs", None))
        if e.action in (DiffActions.SAME, DiffActions.CHANGE,
                        DiffActions.DELETE):
            lvals.append(key(lval))
        if e.action in (DiffActions.SAME, DiffActions.CHANGE,
                        DiffActions.ADD):
            rvals.append(key(rval))
        if e.action is DiffActions.SAME and key(lval) != key(rval):
            st.fail("truth|%s|SAME-but-different" % modes, case, "equal",
                    "%r vs %r" % (lval, rval))
            return
        if e.action is DiffActions.CHANGE and key(lval) == key(rval):
            st.fail("truth|%s|CHANGE-but-equal" % modes, case, "different",
                    "%r vs %r" % (lval, rval))
            return
    if sorted(lvals) != sorted(key(x) for x in ldoc) or \
            sorted(rvals) != sorted(key(x) for x in rdoc):
        st.fail("accounting|%s|by-value" % modes, case,
                "every member of either list accounted for once",
                "left %r right %r: %s" % (sorted(lvals), sorted(rvals),
                                          describe(entries)))


def _mixed_list(doc):
    for _, node in corpus.positions(doc):
        if corpus.is_list(node) and any(corpus.is_map(e) for e in node) \
                and not all_hashes(node):
            return True
    return False


def _has_list(doc, aoh):
    for _, node in corpus.positions(doc):
        if corpus.is_list(node) and len(node) > 0 and corpus.is_map(node[0]):
            return True
    return False


def _all_aoh_pure(ldoc, rdoc):
    """key/deep are defined only on lists whose members are all hashes: no
    list may mix hashes with other members, and a list compared with an
    Array-of-Hashes must be one too (or be empty)."""
    for doc in (ldoc, rdoc):
        for _, node in corpus.positions(doc):
            if corpus.is_list(node) and any(corpus.is_map(e) for e in node) \
                    and not all_hashes(node):
                return False

    def paired(l, r):
        if corpus.is_list(l) and corpus.is_list(r):
            if (all_hashes(l) or all_hashes(r)) and not (
                    (all_hashes(l) or len(l) == 0)
                    and (all_hashes(r) or len(r) == 0)):
                return False
            return all(paired(a, b) for a, b in zip(l, r))
        if corpus.is_map(l) and corpus.is_map(r):
            return all(paired(l[k], r[k]) for k in l if k in r)
        return True
    return paired(ldoc, rdoc)


def describe(entries):
    return ["%s %s" % (e.action.name, e.path) for e in entries][:12]


def replay(case):
    st = core.Stats(None)
    if "reused_after" in case:
        reuse_family(st)
        for lst in st.fails.values():
            return lst[0]
        return None
    if case.get("interleaved_with"):
        interleaved_family(st)
        for lst in st.fails.values():
            return lst[0]
        return None
    check(st, corpus.load(case["lhs"]), corpus.load(case["rhs"]),
          case["lhs"], case["rhs"], ("?", "?"), case["arrays"], case["aoh"])
    for lst in st.fails.values():
        return lst[0]
    return None


def repro(case):
    return ("# printf %r > l.yaml; printf %r > r.yaml\n"
            "# yaml-diff --arrays %s --aoh %s l.yaml r.yaml; echo $?\n" % (
                case["lhs"], case["rhs"], case["arrays"], case["aoh"]))
