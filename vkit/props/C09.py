"""
C09 - queries never modify the document; creation adds exactly the missing
path.

Purity: every document x every path (C01 fragment and collector expressions
with + - &) - the canonical form *and* the identity map (position -> object)
are equal before and after a required query, exists(), and an optional query
on a path that already exists.
Creation: every document x every straight-line key/index path with an existing
prefix of any length and a missing tail of length 1..3.
"""
from vkit import core, corpus, editrun, paths, qrun, refquery
from vkit.props import C01

ID = "C09"
LEVEL = "model_checking"
RULE = ("purity: documents <= N nodes (+ hashes sharing key/value pairs, "
        "collision pack) x C01 paths of 1..2 segments and collector "
        "expressions over them; creation: every position of every document "
        "extended by every missing tail (fresh keys, indexes len and len+2) "
        "of length 1..3; non-trivial = the query matched / the tail was "
        "created; distinct = distinct (document shape, path signature, "
        "outcome)")
ASSUMPTIONS = [
    "padding elements of a sequence grown to reach an index may hold "
    "anything (the property only bounds the length)",
    "a missing tail below a null or other scalar is refused by the library; "
    "such prefixes are outside the creation clause",
]

DOCS = []
PURE = []
COLL = ["(a)", "(a)+(b)", "(a)-(b)", "(a)&(b)", "(*)+(a)", "(*)-(a)",
        "(*)-(b)", "(**)-(a)", "(*)&(*)", "((a)+(b))-(a)", "(a.*)-(b.*)",
        "(a)-(a.a)", "(*)-(*.a)", "(a.*)+(b.*)", "(/a)-(/b)", "(/*)-(/a)",
        "(/**)-(/*)", "(/*/*)-(/a)", "(a)-(b)-(a)", "(*)-((a)+(b))",
        # the same hash gathered twice on the left of a subtraction
        "(a)+(a)-(b)", "(/a)+(/a)-(/b)", "(*)+(*)-(a)", "(h)+(h)-(a)",
        "(l)-(a)", "(l.*)-(a)", "(/l)-(/b)", "(a)+(b)-(a.a)",
        "(d)+(l)-(a)", "(/l/*)+(/d)-(/a)"]
CREATE_DOCS = []


def share_pack():
    """Hashes that share a key/value pair with a sibling: the subtraction
    hazard (a collector '-' deleting from the document itself)."""
    out = []
    for inner in (("m", (("a", 1000), ("b", 2000))),
                  ("m", (("a", 1000),)),
                  ("m", (("b", 2000), ("a", 1000)))):
        out.append(("m", (("a", inner), ("b", 2000))))
        out.append(("m", (("a", inner), ("b", ("m", (("a", 1000),))))))
        out.append(("m", (("h", inner), ("a", 1000))))
        out.append(("l", (inner, ("m", (("a", 1000),)))))
        out.append(("m", (("a", ("l", (inner, inner))), ("b", inner))))
        # one anchored hash aliased several times (the same object collected
        # more than once)
        out.append(("m", (("d", ("&", "M", inner)),
                          ("l", ("l", (("*", "M"), ("*", "M")))),
                          ("a", 1000), ("b", 2000))))
        out.append(("m", (("a", ("&", "M", inner)), ("b", ("*", "M")),
                          ("h", ("*", "M")))))
    return out


def plan(tier):
    global DOCS, PURE, CREATE_DOCS
    nmax = 3 if tier == "quick" else 4
    DOCS = corpus.docs(nmax, (None, 1000, "a"), ("a", "b"))
    DOCS += corpus.collision_pack() + share_pack() + corpus.merge_pack()
    # integer keys without a text twin - negative, zero, positive - alone and
    # above a further level (found by the key segment's integer reading)
    DOCS += [("m", ((-1, "a"), (0, 1000), (1, ("m", (("a", 1000),))))),
             ("m", (("a", ("m", ((-1, ("m", (("a", "a"),))), (1, 1000)))),))]
    voc = paths.vocab("c01-quick")
    PURE = []
    for p in paths.upto(voc, 2):
        PURE.append((p, paths.render(p, "."), False))
    for text in COLL:
        PURE.append((None, text, True))
    CREATE_DOCS = corpus.docs(4 if tier == "quick" else 5,
                              (None, 1000, "a"), ("a", "b"), sets=False)
    bounds = {"purity": {"documents": len(DOCS), "paths": len(PURE),
                         "collectors": COLL},
              "creation": {"documents": len(CREATE_DOCS),
                           "tail_lengths": [1, 2, 3]}}
    shards = [("pure", lo, min(len(DOCS), lo + 10))
              for lo in range(0, len(DOCS), 10)]
    shards += [("create", lo, min(len(CREATE_DOCS), lo + 40))
               for lo in range(0, len(CREATE_DOCS), 40)]
    return shards, bounds


def run_shard(shard):
    kind, lo, hi = shard
    st = core.Stats(ID)
    if kind == "pure":
        for di in range(lo, hi):
            spec = DOCS[di]
            text = corpus.render(spec)
            doc = corpus.load(text)
            shp = corpus.shape(spec)
            for segs, ptext, is_coll in PURE:
                dirty = check_pure(st, doc, text, shp, segs, ptext, is_coll)
                if dirty:
                    doc = corpus.load(text)
            if di == lo:
                st.sample({"doc": text, "op": "query", "path": PURE[-3][1]})
        return st
    for di in range(lo, hi):
        spec = CREATE_DOCS[di]
        text = corpus.render(spec)
        doc0 = corpus.load(text)
        shp = corpus.shape(spec)
        for segs in create_paths(spec):
            check_create(st, doc0, text, shp, segs, paths.render(segs, "/"),
                         "q")
        if corpus.size(spec) <= 3:
            # new keys holding every character the path syntax escapes,
            # spelled with backslashes and with quotes, in both notations
            for segs in punct_create_paths(spec):
                for sep in (".", "/"):
                    for style in ("bs", "q"):
                        check_create(st, doc0, text, shp, segs,
                                     paths.render(segs, sep, style), "q")
        if di == lo:
            st.sample({"doc": text, "op": "create", "path": "/a/z[2]"})
    if lo == 0:
        set_member_family(st)
        value_family(st)
    return st


# --------------------------------------------------------------------- purity
def snapshot(doc):
    return corpus.canon(doc, anchors=True), corpus.idmap(doc)


def check_pure(st, doc, text, shp, segs, ptext, is_coll):
    st.evaluations += 1
    before = snapshot(doc)
    sig = paths.sig(segs) if segs else "collector:" + ptext
    case = {"doc": text, "op": "query", "path": ptext}
    out = qrun.query(doc, ptext, mustexist=True)
    st.transitions += 1
    st.outcomes[out.kind] += 1
    if snapshot(doc) != before:
        st.fail("pure|%s|required-query-mutates" % sig, case,
                "document unchanged", "changed by get_nodes(mustexist=True)")
        return True
    qrun.exists(doc, ptext)
    st.transitions += 1
    if snapshot(doc) != before:
        st.fail("pure|%s|exists-mutates" % sig, case, "document unchanged",
                "changed by exists()")
        return True
    if out.kind == "nodes" and out.ncs:
        st.sig(shp, sig, len(out.ncs))
        st.states += 1
        allowed = True
        if segs is not None:
            try:
                allowed = refquery.all_branches_exist(
                    segs, refquery.root_ctx(doc))
            except (refquery.Unspecified, refquery.ExpectError):
                allowed = False
        if allowed:
            st.validated += 1
            qrun.query(doc, ptext, mustexist=False)
            st.transitions += 1
            if snapshot(doc) != before:
                st.fail("pure|%s|optional-query-mutates" % sig, case,
                        "document unchanged",
                        "changed by get_nodes(mustexist=False) on an "
                        "existing path")
                return True
            # ... and with a default value at hand for what might be missing
            # (nothing is: the default must not land anywhere)
            out3 = qrun.query(doc, ptext, mustexist=False, default="z")
            st.transitions += 1
            if snapshot(doc) != before:
                st.fail("pure|%s|optional-query-with-default-mutates" % sig,
                        case, "document unchanged",
                        "changed by get_nodes(mustexist=False, "
                        "default_value='z') on an existing path")
                return True
            if out3.kind == "nodes" and len(out3.ncs) != len(out.ncs):
                st.fail("pure|%s|optional-query-other-results" % sig, case,
                        "%d results" % len(out.ncs),
                        "%d results" % len(out3.ncs))
                return True
    return False


# ------------------------------------------------------------------- creation
PAD = ("PAD",)


def create_paths(spec):
    """Straight-line key/index paths: an existing prefix (every position of
    the document that is a container) + a missing tail of length 1..3."""
    out = []

    def tails(first_options):
        res = []
        for first in first_options:
            res.append((first,))
            for second in (("key", "y"), ("idx", 0), ("idx", 1)):
                res.append((first, second))
                for third in (("key", "x"), ("idx", 0)):
                    res.append((first, second, third))
        return res

    def walk(s, prefix):
        if isinstance(s, tuple) and s[0] == "m":
            keys = [k for k, _ in s[1]]
            if all(isinstance(k, str) for k in keys):
                for t in tails([("key", "z")]):
                    out.append(prefix + t)
            for k, v in s[1]:
                if isinstance(k, str):
                    walk(v, prefix + (("key", k),))
        elif isinstance(s, tuple) and s[0] == "l":
            n = len(s[1])
            for t in tails([("idx", n), ("idx", n + 2)]):
                out.append(prefix + t)
            for i, v in enumerate(s[1]):
                walk(v, prefix + (("idx", i),))
    walk(spec, ())
    return out


PUNCT_KEYS = ("y.z", "y/z", "y z", "y'z", 'y"z', "(y)", "y\\z", "[y]", "y^",
              "$y", "y%z", ".y", "y.", "a.b.c")


def punct_create_paths(spec):
    out = []

    def walk(s, prefix):
        if isinstance(s, tuple) and s[0] == "m":
            if all(isinstance(k, str) for k, _ in s[1]):
                for key in PUNCT_KEYS:
                    out.append(prefix + (("key", key),))
                    out.append(prefix + (("key", key), ("key", "x")))
                    out.append(prefix + (("key", "z"), ("key", key)))
            for k, v in s[1]:
                if isinstance(k, str):
                    walk(v, prefix + (("key", k),))
    walk(spec, ())
    return out


SET_CREATE = [
    ("s: !!set {? x, ? y}\nk: v\n", "/s/z", {"s": {"x", "y", "z"}, "k": "v"}),
    ("s: !!set {? x, ? y}\nk: v\n", "s.z", {"s": {"x", "y", "z"}, "k": "v"}),
    ("a:\n  s: !!set {? x}\n", "/a/s/z", {"a": {"s": {"x", "z"}}}),
    ("s: !!set {}\nk: v\n", "/s/z", {"s": {"z"}, "k": "v"}),
    # a tail which goes on beneath the member cannot be created (members are
    # scalars): refused, and every node that existed is unchanged
    ("s: !!set {? x, ? y}\nk: v\n", "/s/z/w", None),
    ("s: !!set {? x, ? y}\nk: v\n", "s.x.w", None),
    ("a:\n  s: !!set {? x}\n", "/a/s/z[0]", None),
]


def _plain(node):
    if corpus.is_map(node):
        return {str(k): _plain(v) for k, v in node.items()}
    if corpus.is_list(node):
        return [_plain(v) for v in node]
    if corpus.is_set(node):
        return set(str(m) for m in node)
    val = corpus.plain_scalar(node)
    return val[1] if isinstance(val, tuple) and len(val) == 2 else val


ODD_VALUES = ["{}", "{'k': 1}", "0x10", "false", "[]", "5", "2.5", "true", "q",
              "[1, 2]", "1_000", "None", "...", "", " ", 7, True, None, 2.0,
              10.0]


def value_family(st):
    """Differential: creating a leaf with a value gives what overwriting an
    existing leaf with that value gives (same data, same type, or the same
    YAML Path error) - whatever Python literal the value's text resembles."""
    for value in ODD_VALUES:
        for ptext in ("b", "b.c", "/l[0]", "/a/z[1]/y"):
            st.evaluations += 1
            st.transitions += 1
            st.validated += 1
            case = {"doc": "a: {}\n", "op": "create-value", "path": ptext,
                    "segs": None, "value": value}
            fresh = corpus.load("a: {}\n")
            res1, det1 = editrun.apply_set(fresh, ptext, value,
                                           mustexist=False)
            # the same path, pre-existing with a placeholder leaf
            prior = corpus.load("a: {}\n")
            editrun.apply_set(prior, ptext, "placeholder", mustexist=False)
            res2, det2 = editrun.apply_set(prior, ptext, value,
                                           mustexist=True)
            st.outcomes["create-value:" + res1] += 1
            if res1 == "crash" or res2 == "crash":
                st.fail("create|value|crash:%s" % (det1 or det2), case,
                        "a value or a YAML Path error",
                        "create: %s %s / overwrite: %s %s" % (
                            res1, det1, res2, det2))
                continue
            st.states += 1
            st.sig("create-value", repr(value), ptext, res1)
            a = corpus.canon(fresh, anchors=False)
            b = corpus.canon(prior, anchors=False)
            if (res1, det1) != (res2, det2) or (res1 == "ok" and a != b):
                st.fail("create|value|differs-from-overwrite", case,
                        "%s %s %r" % (res2, det2, b),
                        "%s %s %r" % (res1, det1, a))


def set_member_family(st):
    """Creating a missing member of a set through set_value: the member's
    value can only be its own name, so that is the value supplied; the set
    gains the member and nothing else changes."""
    for text, ptext, want in SET_CREATE:
        st.evaluations += 1
        st.transitions += 1
        st.validated += 1
        doc = corpus.load(text)
        case = {"doc": text, "op": "create-set-member", "path": ptext,
                "segs": None, "value": "z"}
        res, detail = editrun.apply_set(doc, ptext, "z", mustexist=False)
        st.outcomes["create:" + res] += 1
        if want is None:
            st.states += 1
            if res != "ype" or _plain(doc) != _plain(corpus.load(text)):
                st.fail("create|beneath-set-member|%s" % (
                    "not-refused" if res != "ype" else "changed"), case,
                    "a YAML Path error and the document unchanged",
                    "%s %s: %r" % (res, detail, _plain(doc)))
            continue
        if res != "ok":
            st.fail("create|set-member|%s:%s" % (res, detail), case,
                    repr(want), "%s %s" % (res, detail))
            continue
        st.states += 1
        st.sig("create-set-member", text, ptext)
        got = _plain(doc)
        if got != want:
            st.fail("create|set-member|wrong-document", case, repr(want),
                    repr(got))


def expect_created(doc0, segs, vcanon):
    """Canonical form after creation; PAD matches any padding element."""
    def build(rest):
        if not rest:
            return vcanon
        seg = rest[0]
        if seg[0] == "key":
            return ("m", ((("str", seg[1]), build(rest[1:])),))
        return ("l", tuple([PAD] * seg[1] + [build(rest[1:])]))

    def walk(node, rest):
        if not rest:
            return corpus.canon(node, anchors=True)
        seg = rest[0]
        if corpus.is_map(node):
            if seg[0] != "key":
                return None
            items = []
            found = False
            for k, v in node.items():
                if k == seg[1]:
                    found = True
                    sub = walk(v, rest[1:])
                    if sub is None:
                        return None
                    items.append((corpus.canon(k, True), sub))
                else:
                    items.append((corpus.canon(k, True),
                                  corpus.canon(v, True)))
            if not found:
                items.append((("str", seg[1]), build(rest[1:])))
            return ("m", tuple(items))
        if corpus.is_list(node):
            if seg[0] != "idx":
                return None
            items = [corpus.canon(v, True) for v in node]
            i = seg[1]
            if i < len(node):
                sub = walk(node[i], rest[1:])
                if sub is None:
                    return None
                items[i] = sub
            else:
                items += [PAD] * (i - len(node)) + [build(rest[1:])]
            return ("l", tuple(items))
        return None
    return walk(doc0, segs)


def canon_match(exp, got):
    if exp == PAD:
        return True
    if isinstance(exp, tuple) and isinstance(got, tuple) \
            and len(exp) == len(got):
        return all(canon_match(e, g) for e, g in zip(exp, got))
    return exp == got


def check_create(st, doc0, text, shp, segs, ptext, value):
    st.evaluations += 1
    vcanon = corpus.plain_scalar(value)
    exp = expect_created(doc0, segs, vcanon)
    if exp is None:
        st.extra["create_out_of_scope"] += 1
        return None
    doc = editrun.fresh(doc0)
    before_ids = corpus.idmap(doc)
    st.transitions += 1
    st.validated += 1
    sig = paths.sig(segs)
    case = {"doc": text, "op": "create", "path": ptext, "segs": segs,
            "value": value}
    res, detail = editrun.apply_set(doc, ptext, value, mustexist=False)
    st.outcomes["create:" + res] += 1
    if res != "ok":
        st.fail("create|%s|%s:%s" % (sig, res, detail), case,
                "the missing tail is created", "%s %s" % (res, detail))
        return None
    st.states += 1
    st.sig(shp, sig, "created")
    got = corpus.canon(doc, anchors=True)
    if not canon_match(exp, got):
        st.fail("create|%s|wrong-document" % sig, case, repr(exp)[:400],
                repr(got)[:400])
        return None
    after_ids = corpus.idmap(doc)
    for pos, oid in before_ids.items():
        if pos == ():
            continue
        if after_ids.get(pos) != oid:
            # the position still exists (canon matched): identity changed
            parent_replaced = any(after_ids.get(pos[:k]) != before_ids.get(
                pos[:k]) for k in range(1, len(pos)))
            st.fail("create|%s|existing-node-replaced" % sig, case,
                    "every node that existed is unchanged",
                    "position %r is a different object" % (pos,))
            return None
    back = qrun.query(doc, ptext, mustexist=True)
    if back.kind != "nodes" or len(back.ncs) != 1 or \
            corpus.plain_scalar(back.ncs[0].node) != vcanon:
        st.fail("create|%s|path-does-not-resolve" % sig, case,
                "the path resolves to the supplied value", back.brief())
        return None
    bad = editrun.reload_check(doc)
    if bad:
        st.fail("create|%s|reload" % sig, case,
                "dump reloads to the same data", bad)
        return None
    return doc


def replay(case):
    st = core.Stats(None)
    if case["op"] in ("create-set-member", "create-value"):
        set_member_family(st)
        value_family(st)
        for lst in st.fails.values():
            for f in lst:
                if f["case"]["doc"] == case["doc"] and \
                        f["case"]["path"] == case["path"] and \
                        f["case"].get("value") == case.get("value"):
                    return f
        return None
    doc = corpus.load(case["doc"])
    if case["op"] == "query":
        segs = None
        check_pure(st, doc, case["doc"], "?", segs, case["path"], True)
    else:
        check_create(st, doc, case["doc"], "?", C01.tup(case["segs"]),
                     case["path"], case["value"])
    for lst in st.fails.values():
        return lst[0]
    return None


def repro(case):
    if case["op"] == "query":
        return (
            "import sys\n"
            "from types import SimpleNamespace\n"
            "from yamlpath import Processor\n"
            "from yamlpath.common import Parsers\n"
            "from yamlpath.wrappers import ConsolePrinter\n"
            "log = ConsolePrinter(SimpleNamespace(verbose=False, quiet=True, "
            "debug=False))\n"
            "yaml = Parsers.get_yaml_editor()\n"
            "doc, _ = Parsers.get_yaml_data(yaml, log, %r, literal=True)\n"
            "list(Processor(log, doc).get_nodes(%r, mustexist=True))\n"
            "yaml.dump(doc, sys.stdout)   # must still be the input\n"
            % (case["doc"], case["path"]))
    from vkit.props import C03
    c = dict(case)
    c["op"] = "set"
    return C03.repro(c).replace("mustexist=True", "mustexist=False")
