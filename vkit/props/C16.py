"""
C16 - the command-line tools deliver the library's answers and honest exit
codes.

The library-level cases are pushed through the six real `main()` entry points
(argument parsing, validation, I/O, formatting) under the closed-world driver
(vkit.cli), with file and stdin delivery, YAML and JSON documents and both
notations.  Differential oracle: every CLI observable (stdout lines, exit
status, bytes of the edited file) is a function of the answer the library
gives for the same input - which the other checks hold against their models.
"""
import json
import os

from yamlpath import Processor
from yamlpath.differ import Differ, DifferConfig
from yamlpath.differ.enums.diffactions import DiffActions
from yamlpath.enums import PathSeparators
from yamlpath.wrappers import NodeCoords
from types import SimpleNamespace

from vkit import cli, core, corpus, editrun, mergerun, paths, qrun
from vkit.props import C06, C07

ID = "C16"
LEVEL = "model_checking"
RULE = ("per tool an enumerated product of (document, arguments, delivery): "
        "yaml-get documents x paths x {file, '-', implied stdin} x {YAML flow, "
        "YAML block, JSON}; yaml-set documents x edits x {in place, stdin -> "
        "stdout}; yaml-merge pairs x policies x formats; yaml-diff pairs x "
        "modes; yaml-validate valid/invalid inputs; yaml-paths documents x "
        "expressions x options; non-trivial = the tool produced output or a "
        "non-zero status; distinct = distinct (tool, option vector, document "
        "shape, exit code)")
ASSUMPTIONS = [
    "the library answers themselves are held against their models by C01, "
    "C03-C07; here the oracle is differential",
    "a fixed subset of cases is re-run through a real subprocess to show the "
    "in-process driver is faithful (coverage.subprocess_conformance)",
]

GET_DOCS = []
GET_PATHS = []


def plain(node):
    if corpus.is_map(node):
        return {k: plain(v) for k, v in node.items()}
    if corpus.is_list(node):
        return [plain(v) for v in node]
    if corpus.is_set(node):
        return {str(m): None for m in node}
    if isinstance(node, NodeCoords):
        return plain(node.node)
    if isinstance(node, bool) or node is None:
        return node
    if isinstance(node, int):
        return int(node)
    if isinstance(node, float):
        return float(node)
    return str(node)


def get_line(node):
    node = NodeCoords.unwrap_node_coords(node)
    if corpus.is_map(node) or corpus.is_list(node) or corpus.is_set(node):
        return json.dumps(plain(node))
    if node is None:
        return "\x00"
    return str(node).replace("\n", "\\n")


def plan(tier):
    global GET_DOCS, GET_PATHS
    GET_DOCS = corpus.docs(3, (None, 1000, "a", 2.5, True), ("a", "b"),
                           sets=False)
    GET_DOCS += [s for s in corpus.collision_pack()
                 if not (isinstance(s, tuple) and s[0] == "s")][::4]
    GET_DOCS += [("m", (("a", "line1\nline2"), ("b", ("l", ("x y", ""))))),
                 ("m", (("a.b", 1), ("c d", ("m", (("e/f", 2),)))))]
    if tier == "quick":
        GET_DOCS = GET_DOCS[::3]
    voc = paths.vocab("c01-quick")
    GET_PATHS = [(s,) for s in voc[::2]] + [
        (("key", "a"), ("key", "b")), (("all",), ("key", "a")),
        (("trav",), ("search", ".", "=", "a", False)), (("slice", 0, 1),),
        (("key", "a"), ("idx", 0)), (("key", "zz"),)]
    shards = [("get", lo, min(len(GET_DOCS), lo + 8))
              for lo in range(0, len(GET_DOCS), 8)]
    shards += [("set", i) for i in range(8)]
    shards += [("merge", i) for i in range(6)]
    shards += [("diff", i) for i in range(6)]
    shards += [("validate", 0), ("paths", 0), ("paths", 1), ("paths", 2),
               ("conform", 0)]
    bounds = {"yaml-get": {"documents": len(GET_DOCS), "paths":
                           len(GET_PATHS), "deliveries": 3, "formats": 3},
              "tools": sorted(cli.TOOLS)}
    return shards, bounds


def run_shard(shard):
    st = core.Stats(ID)
    kind = shard[0]
    with cli.workdir() as wd:
        if kind == "get":
            shard_get(st, wd, shard[1], shard[2])
        elif kind == "set":
            shard_set(st, wd, shard[1])
        elif kind == "merge":
            shard_merge(st, wd, shard[1])
        elif kind == "diff":
            shard_diff(st, wd, shard[1])
        elif kind == "validate":
            shard_validate(st, wd)
        elif kind == "paths":
            if shard[1] == 2:
                shard_paths_multi(st, wd)
            else:
                shard_paths(st, wd, shard[1])
        else:
            shard_conform(st, wd)
            shard_get_raw(st, wd)
    return st


def note(st, tool, res, opts, shp):
    st.evaluations += 1
    st.transitions += 1
    st.validated += 1
    st.states += 1
    st.outcomes["%s:exit=%s" % (tool, res.code)] += 1
    if res.out or res.code:
        st.sig(tool, opts, shp, res.code)


def crashed(st, tool, res, case):
    if res.exc is not None:
        st.fail("%s|traceback:%s" % (tool, type(res.exc).__name__), case,
                "an exit status", repr(res.exc)[:200])
        return True
    return False


# -------------------------------------------------------------------- yaml-get
def shard_get(st, wd, lo, hi):
    for di in range(lo, hi):
        spec = GET_DOCS[di]
        texts = {"flow": corpus.render(spec),
                 "block": corpus.render_block(spec) + "\n"}
        try:
            texts["json"] = corpus.to_json(spec)
        except (ValueError, TypeError):
            pass
        shp = corpus.shape(spec)
        for fmt, text in texts.items():
            try:
                doc = corpus.load(text)
            except corpus.LoadError:
                continue
            fname = os.path.join(wd, "doc.%s" % ("json" if fmt == "json"
                                                 else "yaml"))
            cli.write(fname, text)
            for segs in GET_PATHS:
                for sep in (".", "/"):
                    ptext = paths.render(segs, sep)
                    if not ptext or (sep == "." and ptext.startswith("/")):
                        continue
                    out = qrun.query(doc, ptext, mustexist=True)
                    check_get(st, text, fname, ptext, out, shp, fmt)
        if di == lo:
            st.sample({"tool": "yaml-get", "doc": texts["flow"],
                       "argv": ["--query=" + paths.render(GET_PATHS[3], "/")]})


# documents whose values the JSON-safe conversion has to translate (dates,
# timestamps, sets, tagged scalars): (document, query, expected stdout lines)
GET_RAW = [
    ("d: 2020-01-01\nl: [2020-01-02, x]\nc: {d: 2020-01-03, n: 1}\n"
     "t: 2001-12-14T21:59:43.10-05:00\ns: !!set {? a, ? b}\n"
     "tagged: !custom value\nmulti: \"line1\\nline2\"\nnothing: null\n"
     "f: 1.50\ntruth: yes\n", [
         ("/d", ["2020-01-01"]), ("/l", ['["2020-01-02", "x"]']),
         ("/c", ['{"d": "2020-01-03", "n": 1}']),
         ("/t", ["2001-12-14T21:59:43.100000-05:00"]),
         ("/s", ['{"a": null, "b": null}']), ("/tagged", ["value"]),
         ("/multi", ["line1\\nline2"]), ("/nothing", ["\x00"]),
         ("/f", ["1.5"]), ("/truth", ["yes"]),
         ("/l[0]", ["2020-01-02"]), ("/c/d", ["2020-01-03"]),
         ("/*[.=1.50]", ["1.5"]), ("/c/*", ["2020-01-03", "1"]),
     ]),
    # values which reach a hash through a YAML merge key and need converting
    # for JSON (an anchored boolean, a date, a float)
    ("base: &b\n  enabled: &on true\n  when: 2001-01-01\n  ratio: 1.50\n"
     "svc:\n  <<: *b\n  port: 80\nl:\n  - <<: *b\n    x: *on\n", [
         ("/svc", ['{"port": 80, "enabled": true, "when": "2001-01-01", '
                   '"ratio": 1.5}']),
         ("/l", ['[{"x": true, "enabled": true, "when": "2001-01-01", '
                 '"ratio": 1.5}]']),
         ("/l[0]/when", ["2001-01-01"]),
     ]),
]


def shard_merge_streams(st, wd):
    """Several result documents (merge_across / matrix_merge) with the
    automatic output format: the FIRST document's style decides between a
    YAML stream and JSON lines, and either reloads to the merged documents."""
    block = "a: 1\nl: [x]\n"
    flow = '{"b": 2}\n'
    pairs = [
        ("---\n" + block + "---\n" + flow, "---\nc: 3\n---\n" + '{"d": 4}\n',
         "yaml", [{"a": 1, "l": ["x"], "c": 3}, {"b": 2, "d": 4}]),
        ("---\n" + flow + "---\n" + block, "---\n" + '{"d": 4}\n' + "---\nc: 3\n",
         "json", [{"b": 2, "d": 4}, {"a": 1, "l": ["x"], "c": 3}]),
        ("---\n" + block + "---\n" + block, "---\nc: 3\n---\nc: 4\n",
         "yaml", [{"a": 1, "l": ["x"], "c": 3}, {"a": 1, "l": ["x"], "c": 4}]),
    ]
    for ltext, rtext, fmt, want in pairs:
        lfile = os.path.join(wd, "ls.yaml")
        rfile = os.path.join(wd, "rs.yaml")
        cli.write(lfile, ltext)
        cli.write(rfile, rtext)
        for delivery in ("files", "rhs-stdin"):
            argv = ["--multi-doc-mode=merge_across"]
            if delivery == "files":
                res = cli.run("yaml-merge", argv + ["--nostdin", lfile,
                                                    rfile])
            else:
                res = cli.run("yaml-merge", argv + [lfile, "-"], stdin=rtext)
            case = {"tool": "yaml-merge", "lhs": ltext, "rhs": rtext,
                    "argv": argv, "delivery": delivery}
            note(st, "yaml-merge", res, ("streams", fmt, delivery), "stream")
            if crashed(st, "yaml-merge", res, case):
                continue
            if res.code != 0:
                st.fail("yaml-merge|streams|exit-status", case, 0,
                        "%s %s" % (res.code, res.err[:120]))
                continue
            lines = [l for l in res.out.split("\n") if l.strip()]
            is_json = bool(lines) and all(l.lstrip().startswith("{")
                                          for l in lines)
            try:
                if is_json:
                    got = [json.loads(l) for l in lines]
                else:
                    got = [_plain(d) for d in corpus.load_all(res.out)]
            except Exception as ex:       # pylint: disable=broad-except
                got = "unreadable: %s" % type(ex).__name__
            if is_json != (fmt == "json") or got != want:
                st.fail("yaml-merge|streams|format-or-content", case,
                        "%s: %r" % (fmt, want),
                        "%s: %r" % ("json" if is_json else "yaml",
                                    res.out[:300]))


def shard_merge_single(st, wd):
    """yaml-merge of ONE document - normalisation, or a change of format -
    gives the same outcome whether the document is a file, is '-', or simply
    waits on standard input."""
    for text in ("a: 1\nl: [1, 2]\n", '{"b": 2, "c": [1]}\n', "- 1\n- x\n",
                 "---\na: 1\n---\nb: 2\n",
                 # sources without any node (no status is demanded of these,
                 # only one outcome however the source is delivered)
                 "", "# only a comment\n", "---\n", "--- ~\n"):
        fname = os.path.join(wd, "single.yaml")
        cli.write(fname, text)
        for extra in ([], ["--document-format=json"]):
            results = {}
            empty = os.path.join(wd, "nodocs.yaml")
            cli.write(empty, "# no document in here\n")
            nodes = text not in ("", "# only a comment\n", "---\n",
                                 "--- ~\n")
            for delivery in ("file", "dash", "implied") + ((
                    "after-empty", "before-empty") if nodes else ()):
                if delivery == "file":
                    res = cli.run("yaml-merge", extra + ["--nostdin", fname])
                elif delivery == "after-empty":
                    # a file without any document contributes nothing,
                    # wherever it stands among the sources
                    res = cli.run("yaml-merge", extra + ["--nostdin", empty,
                                                         fname])
                elif delivery == "before-empty":
                    res = cli.run("yaml-merge", extra + ["--nostdin", fname,
                                                         empty])
                elif delivery == "dash":
                    res = cli.run("yaml-merge", extra + ["-"], stdin=text)
                else:
                    res = cli.run("yaml-merge", extra, stdin=text)
                case = {"tool": "yaml-merge", "lhs": text, "argv": extra,
                        "delivery": delivery, "single": True}
                note(st, "yaml-merge", res, ("single", tuple(extra),
                                             delivery), "single")
                if crashed(st, "yaml-merge", res, case):
                    results[delivery] = "traceback"
                    continue
                results[delivery] = (res.code, res.out)
            if len(set(map(repr, results.values()))) != 1 or \
                    results["file"] == "traceback" or \
                    (results["file"][0] != 0 and nodes):
                st.fail("yaml-merge|single-document|delivery", {
                    "tool": "yaml-merge", "lhs": text, "argv": extra,
                    "single": True}, "one outcome, exit 0",
                    repr(results)[:300])


def shard_get_empty(st, wd):
    """A document without any node: nothing can match, so every query ends
    with a non-zero status and prints nothing - from a file and from standard
    input alike."""
    for text in ("", "---\n", "# only a comment\n", "--- ~\n"):
        fname = os.path.join(wd, "empty.yaml")
        cli.write(fname, text)
        for query in ("/a", "a.b", "/*", "**", "/[0]"):
            outs = []
            for delivery in ("file", "dash"):
                if delivery == "file":
                    res = cli.run("yaml-get", ["--query=" + query, fname])
                else:
                    res = cli.run("yaml-get", ["--query=" + query, "-"],
                                  stdin=text)
                case = {"tool": "yaml-get", "doc": text,
                        "argv": ["--query=" + query], "delivery": delivery}
                note(st, "yaml-get", res, ("empty", delivery), query)
                if crashed(st, "yaml-get", res, case):
                    continue
                outs.append((res.code != 0, res.out))
                if res.code == 0 or res.out.strip():
                    st.fail("yaml-get|empty-document", case,
                            "non-zero exit, no output",
                            "%s %r" % (res.code, res.out[:80]))


def shard_get_raw(st, wd):
    shard_get_empty(st, wd)
    shard_merge_streams(st, wd)
    shard_merge_single(st, wd)
    for text, queries in GET_RAW:
        fname = os.path.join(wd, "raw.yaml")
        cli.write(fname, text)
        for query, want in queries:
            for delivery in ("file", "dash"):
                if delivery == "file":
                    res = cli.run("yaml-get", ["--query=" + query, fname])
                else:
                    res = cli.run("yaml-get", ["--query=" + query, "-"],
                                  stdin=text)
                case = {"tool": "yaml-get", "doc": text,
                        "argv": ["--query=" + query], "delivery": delivery}
                note(st, "yaml-get", res, ("raw", delivery), query)
                if crashed(st, "yaml-get", res, case):
                    continue
                got = res.out.split("\n")
                if got and got[-1] == "":
                    got.pop()
                if res.code != 0 or got != want:
                    st.fail("yaml-get|typed-values", case, want,
                            "%s %r" % (res.code, got))
        # the same values through yaml-merge's JSON writer
        other = os.path.join(wd, "other.yaml")
        cli.write(other, "extra: 1\n")
        res = cli.run("yaml-merge", ["--nostdin", "--document-format=json",
                                     fname, other])
        note(st, "yaml-merge", res, ("raw-json",), "raw")
        case = {"tool": "yaml-merge", "lhs": text, "rhs": "extra: 1\n",
                "argv": ["--document-format=json"]}
        try:
            got = json.loads(res.out)
        except ValueError:
            got = None
        if "<<" in text:
            svc = got.get("svc") if isinstance(got, dict) else None
            if not isinstance(svc, dict) or svc.get("enabled") is not True \
                    or svc.get("when") != "2001-01-01" \
                    or svc.get("ratio") != 1.5 or svc.get("port") != 80 \
                    or got.get("extra") != 1:
                st.fail("yaml-merge|json-typed-values", case,
                        "merged-in true / date / float as JSON values",
                        res.out[:300])
            continue
        if not isinstance(got, dict) or got.get("d") != "2020-01-01" or \
                got.get("l") != ["2020-01-02", "x"] or \
                got.get("c") != {"d": "2020-01-03", "n": 1} or \
                got.get("extra") != 1 or got.get("nothing", 0) is not None \
                or got.get("tagged") != "value":
            st.fail("yaml-merge|json-typed-values", case,
                    "dates as ISO strings, null, tagged value unwrapped",
                    res.out[:300])


def check_get(st, text, fname, ptext, out, shp, fmt):
    if out.kind == "crash":
        return          # C15's subject
    if out.kind == "nodes":
        want_lines = [get_line(nc) for nc in out.ncs]
        want_code = 0
    else:
        want_lines, want_code = None, 1
    results = {}
    for delivery in ("file", "dash", "implied"):
        if delivery == "file":
            res = cli.run("yaml-get", ["--query=" + ptext, fname])
        elif delivery == "dash":
            res = cli.run("yaml-get", ["--query=" + ptext, "-"], stdin=text)
        else:
            res = cli.run("yaml-get", ["--query=" + ptext], stdin=text)
        case = {"tool": "yaml-get", "doc": text, "argv": ["--query=" + ptext],
                "delivery": delivery}
        note(st, "yaml-get", res, (delivery, fmt), shp)
        if crashed(st, "yaml-get", res, case):
            return
        results[delivery] = (res.code, res.out)
        if res.code != want_code:
            st.fail("yaml-get|exit-status", case, want_code, "%r %s" % (
                res.code, res.err[:120]))
            return
        if want_lines is not None:
            got_lines = res.out.split("\n")
            if got_lines and got_lines[-1] == "":
                got_lines.pop()
            # a value may itself hold new-lines only in escaped form
            if got_lines != want_lines:
                st.fail("yaml-get|stdout", case, want_lines, got_lines)
                return
        elif res.out:
            st.fail("yaml-get|stdout-on-failure", case, "", res.out[:200])
            return
    if len(set(results.values())) != 1:
        st.fail("yaml-get|delivery-disagrees", {"tool": "yaml-get",
                                                "doc": text, "path": ptext},
                "same outcome from file and stdin", repr(results)[:300])


# -------------------------------------------------------------------- yaml-set
SET_DOCS = [
    ("m", (("a", 1), ("b", ("l", (1, 1, "b"))))),
    ("m", (("a", ("&", "A", "x")), ("b", ("l", (("*", "A"), "y"))))),
    ("l", (("m", (("a", "b"), ("b", "x"))), ("m", (("a", "c"),)))),
    ("m", (("a", ("m", (("b", "old"),))), ("c", "keep"))),
    ("l", (1000, "text", None)),
    ("m", (("a.b", "v"), ("c d", ("l", ("p", "q"))))),
    ("m", (("a", "x"),)),
    ("l", (("l", ()), 1000, ("l", (1000,)))),
]
SET_OPS = [
    ("set", "/a", "new"), ("set", "/a", "7"), ("set", "/b[0]", "z"),
    ("set", "/b[1]", "2.5"), ("set", "/*", "w"), ("set", "/[0]/a", "q"),
    ("set", "a.b", "n"), ("set", "/zz", "created"), ("set", "/a/zz/y", "deep"),
    ("set", "/[5]", "pad"), ("mustexist", "/a", "m"),
    ("mustexist", "/nope", "m"), ("null", "/a", None), ("delete", "/a", None),
    ("delete", "/b[1]", None), ("delete", "/[0]", None),
    ("delete", "/nope", None), ("delete", "/", None),
    ("check-ok", "/a", "c1"), ("check-bad", "/a", "c2"),
    ("saveto", "/a", "s1"), ("format-int-bad", "/a", "abc"),
    ("set", "/**", "all"), ("set", "/[.=zzz]", "none"),
]


def lib_edit(doc, op, path, value):
    """The library-level answer for one edit -> ('ok', canon) | ('fail',)"""
    proc = Processor(corpus.LOG, doc)
    from yamlpath.exceptions import YAMLPathException
    try:
        if op in ("set", "mustexist", "check-ok", "saveto"):
            if op == "saveto":
                old = list(proc.get_nodes(path, mustexist=True))
                if len(old) != 1:
                    return ("fail",)
                from yamlpath.common import Nodes
                proc.set_value("/saved", Nodes.clone_node(old[0].node))
            proc.set_value(path, value, mustexist=(op != "set"))
        elif op == "null":
            proc.set_value(path, None)
        elif op == "delete":
            nodes = list(proc.get_nodes(path, mustexist=True))
            proc.delete_gathered_nodes(nodes)
        else:
            return ("fail",)
        return ("ok", corpus.canon(doc))
    except YAMLPathException:
        return ("fail",)
    except SystemExit:
        return ("fail",)


def set_argv(op, path, value, doc):
    argv = ["--change=" + path]
    if op in ("set", "mustexist", "check-ok", "check-bad", "saveto",
              "format-int-bad"):
        argv.append("--value=" + value)
    if op == "mustexist":
        argv.append("--mustexist")
    if op == "null":
        argv.append("--null")
    if op == "delete":
        argv.append("--delete")
    if op == "saveto":
        argv.append("--saveto=/saved")
    if op == "format-int-bad":
        argv.append("--format=int")
    if op in ("check-ok", "check-bad"):
        got = qrun.query(doc, path, mustexist=True)
        old = str(got.ncs[0].node) if got.kind == "nodes" and got.ncs else "?"
        argv.append("--check=" + (old if op == "check-ok" else old + "x"))
    return argv


def shard_set(st, wd, di):
    spec = SET_DOCS[di]
    for fmt in ("flow", "block"):
        text = corpus.render(spec) if fmt == "flow" else (
            corpus.render_block(spec) + "\n")
        try:
            corpus.load(text)
        except corpus.LoadError:
            continue
        for op, path, value in SET_OPS:
            doc = corpus.load(text)
            argv = set_argv(op, path, value, doc)
            lop = op if op not in ("check-ok",) else "set"
            if op in ("check-bad", "check-ok"):
                cur = qrun.query(corpus.load(text), path)
                if cur.kind != "nodes" or len(cur.ncs) != 1:
                    continue     # --check guards every existing match alike
            if op in ("check-bad", "format-int-bad"):
                want = ("fail",)
            else:
                want = lib_edit(corpus.load(text), lop, path, value)
            shp = corpus.shape(spec)
            # in place
            fname = os.path.join(wd, "target.yaml")
            cli.write(fname, text)
            res = cli.run("yaml-set", argv + [fname])
            case = {"tool": "yaml-set", "doc": text, "argv": argv,
                    "delivery": "file"}
            note(st, "yaml-set", res, (op, fmt, "file"), shp)
            if crashed(st, "yaml-set", res, case):
                continue
            after = cli.read(fname).decode()
            judge_set(st, case, want, res, after, text, spec, fmt)
            # document on stdin, result on stdout
            res2 = cli.run("yaml-set", argv + ["-"], stdin=text)
            case2 = dict(case, delivery="stdin")
            note(st, "yaml-set", res2, (op, fmt, "stdin"), shp)
            if crashed(st, "yaml-set", res2, case2):
                continue
            judge_set(st, case2, want, res2, res2.out if res2.code == 0
                      else text, text, spec, fmt)
    st.sample({"tool": "yaml-set", "doc": corpus.render(spec),
               "argv": ["--change=/a", "--value=new"]})


def judge_set(st, case, want, res, after, before, spec, fmt):
    if want[0] == "fail":
        if res.code == 0:
            st.fail("yaml-set|no-failure-status", case, "non-zero", "0")
        elif after != before:
            st.fail("yaml-set|failed-but-wrote", case, "unchanged",
                    after[:200])
        return
    if res.code != 0:
        st.fail("yaml-set|spurious-failure", case, "0", "%s %s" % (
            res.code, res.err[:160]))
        return
    try:
        back = corpus.load(after)
    except corpus.LoadError:
        st.fail("yaml-set|unloadable-result", case, "a loadable document",
                after[:200])
        return
    if corpus.canon(back) != want[1]:
        st.fail("yaml-set|wrong-document", case, repr(want[1])[:300],
                repr(corpus.canon(back))[:300])
        return
    if fmt == "flow" and isinstance(spec, tuple) and spec[0] in ("m", "l"):
        # a flow-style (JSON) root stays JSON when JSON can express it
        if not any(isinstance(x, tuple) and x[0] in ("&", "*")
                   for x in _walk(spec)):
            try:
                json.loads(after)
            except ValueError:
                st.fail("yaml-set|json-became-yaml", case, "JSON output",
                        after[:200])


def _walk(spec):
    out = [spec]
    if isinstance(spec, tuple) and spec[0] in ("m", "l"):
        for item in spec[1]:
            if spec[0] == "m":
                out += _walk(item[1])
            else:
                out += _walk(item)
    elif isinstance(spec, tuple) and spec[0] == "&":
        out += _walk(spec[2])
    return out


# ------------------------------------------------------------------ yaml-merge
MERGE_DOCS = [
    ("m", (("a", 1), ("b", ("l", (1, 2))))),
    ("m", (("a", 2), ("c", ("m", (("d", "x"),))))),
    ("m", (("b", ("l", (2, 3))), ("c", ("m", (("e", "y"),))))),
    ("l", (1, 2)), ("l", (("m", (("id", 1), ("v", "x"))),)),
    ("m", (("a", ("l", (1,))),)),
]
MERGE_POLS = [dict(hashes="deep", arrays="all", aoh="all", sets="unique"),
              dict(hashes="right", arrays="unique", aoh="deep",
                   sets="unique"),
              dict(hashes="left", arrays="right", aoh="all", sets="unique")]


def shard_merge(st, wd, li):
    lspec = MERGE_DOCS[li]
    ltext = corpus.render_block(lspec) + "\n"
    lfile = os.path.join(wd, "l.yaml")
    cli.write(lfile, ltext)
    for rspec in MERGE_DOCS:
        rtext = corpus.render_block(rspec) + "\n"
        rfile = os.path.join(wd, "r.yaml")
        cli.write(rfile, rtext)
        for pol in MERGE_POLS:
            res_lib, data = mergerun.merge(
                corpus.load(ltext), corpus.load(rtext),
                mergerun.make_config(pol))
            opts = ["--hashes=" + pol["hashes"], "--arrays=" + pol["arrays"],
                    "--aoh=" + pol["aoh"], "--sets=" + pol["sets"]]
            for docfmt in ("yaml", "json"):
                for delivery in ("files", "rhs-stdin", "output-file"):
                    argv = opts + ["--document-format=" + docfmt]
                    stdin = None
                    outfile = os.path.join(wd, "out." + docfmt)
                    if os.path.exists(outfile):
                        os.unlink(outfile)
                    if delivery == "files":
                        argv += ["--nostdin", lfile, rfile]
                    elif delivery == "rhs-stdin":
                        argv += [lfile, "-"]
                        stdin = rtext
                    else:
                        argv += ["--nostdin", "--output=" + outfile, lfile,
                                 rfile]
                    res = cli.run("yaml-merge", argv, stdin=stdin)
                    case = {"tool": "yaml-merge", "lhs": ltext, "rhs": rtext,
                            "argv": [a for a in argv if not a.startswith(wd)],
                            "delivery": delivery}
                    note(st, "yaml-merge", res, (pol["hashes"], docfmt,
                                                 delivery), "pair")
                    if crashed(st, "yaml-merge", res, case):
                        continue
                    produced = res.out
                    if delivery == "output-file" and os.path.exists(outfile):
                        produced = cli.read(outfile).decode()
                    judge_merge(st, case, res_lib, data, res, produced,
                                docfmt, delivery, outfile)
    st.sample({"tool": "yaml-merge", "lhs": ltext,
               "rhs": corpus.render_block(MERGE_DOCS[1]), "argv":
               ["--hashes=deep", "l.yaml", "r.yaml"]})


def judge_merge(st, case, res_lib, data, res, produced, docfmt, delivery,
                outfile):
    produced = produced.replace("Please try --help for more information.\n",
                                "")
    if res_lib != "ok":
        if res.code == 0:
            st.fail("yaml-merge|no-failure-status", case, "non-zero", "0")
        elif produced.strip() or (delivery == "output-file"
                                  and os.path.exists(outfile)):
            st.fail("yaml-merge|output-despite-failure", case, "no output",
                    produced[:200])
        return
    if res.code != 0:
        st.fail("yaml-merge|spurious-failure", case, "0", "%s %s" % (
            res.code, res.err[:160]))
        return
    try:
        if docfmt == "json":
            got = json.loads(produced)
            want = plain(data)
            same = got == want
        else:
            got = corpus.canon(corpus.load(produced))
            same = got == corpus.canon(data)
    except (ValueError, corpus.LoadError):
        st.fail("yaml-merge|unparsable-output:%s" % docfmt, case,
                "a %s document" % docfmt, produced[:200])
        return
    if not same:
        st.fail("yaml-merge|wrong-document:%s" % docfmt, case,
                repr(corpus.canon(data))[:300], repr(got)[:300])


# ------------------------------------------------------------------- yaml-diff
DIFF_DOCS = [
    ("m", (("a", 1), ("b", ("l", (1, 2))))),
    ("m", (("b", ("l", (1, 2))), ("a", 1))),
    ("m", (("a", 1), ("b", ("l", (2, 1))))),
    ("m", (("a", 2), ("b", ("l", (1, 2))), ("c", None))),
    ("l", (("m", (("id", 1), ("v", "x"))), ("m", (("id", 2), ("v", "y"))))),
    ("l", (("m", (("id", 2), ("v", "y"))), ("m", (("id", 1), ("v", "x"))))),
]


DIFF_FLAGS = ((), ("--quiet",), ("--same",), ("--onlysame",),
              ("--pathsep=/",), ("-q", "--pathsep=/"))


def diff_case(st, differ, differs, flags, arrays, aoh, lfile, rfile, ltext,
              rtext):
    """One option set of yaml-diff against the differ's own report."""
    sep = PathSeparators.FSLASH if "--pathsep=/" in flags \
        else PathSeparators.DOT
    blocks = []
    for e in differ.get_report():
        same = e.action is DiffActions.SAME
        if ("--same" in flags or (same and "--onlysame" in flags)
                or (not same and "--onlysame" not in flags)):
            e.pathsep = sep
            blocks.append(str(e))
    if "--quiet" in flags or "-q" in flags:
        blocks = []
    want_out = "\n\n".join(blocks) + ("\n" if blocks else "")
    for delivery in ("files", "rhs-stdin"):
        if flags and delivery != "files" and flags != ("--quiet",):
            continue
        argv = ["--arrays=" + arrays, "--aoh=" + aoh] + list(flags) + (
            [] if "--pathsep=/" in flags else ["--pathsep=."])
        if delivery == "files":
            res = cli.run("yaml-diff", argv + [lfile, rfile])
        else:
            res = cli.run("yaml-diff", argv + [lfile, "-"], stdin=rtext)
        case = {"tool": "yaml-diff", "lhs": ltext, "rhs": rtext,
                "argv": argv, "delivery": delivery}
        note(st, "yaml-diff", res, (arrays, aoh, delivery, flags), "pair")
        if crashed(st, "yaml-diff", res, case):
            continue
        if (res.code == 0) == differs or res.code not in (0, 1):
            st.fail("yaml-diff|exit-status|%s" % ",".join(flags), case,
                    "0 iff data-equal (differ=%s)" % differs, res.code)
            continue
        if res.out != want_out:
            st.fail("yaml-diff|stdout|%s" % ",".join(flags), case,
                    want_out[:300], res.out[:300])


def shard_diff(st, wd, li):
    lspec = DIFF_DOCS[li]
    ltext = corpus.render(lspec)
    lfile = os.path.join(wd, "l.yaml")
    cli.write(lfile, ltext)
    for rspec in DIFF_DOCS:
        rtext = corpus.render(rspec)
        rfile = os.path.join(wd, "r.yaml")
        cli.write(rfile, rtext)
        for arrays in C06.ARRAYS:
            for aoh in C06.AOH:
                ldoc, rdoc = corpus.load(ltext), corpus.load(rtext)
                if aoh in ("key", "deep") and not C06._all_aoh_pure(ldoc,
                                                                    rdoc):
                    continue
                differs = not C06.equal(ldoc, rdoc, arrays, aoh)
                cfg = DifferConfig(corpus.LOG, SimpleNamespace(
                    arrays=arrays, aoh=aoh))
                differ = Differ(cfg, corpus.LOG, ldoc)
                differ.compare_to(rdoc)
                for flags in DIFF_FLAGS:
                    diff_case(st, differ, differs, flags, arrays, aoh,
                              lfile, rfile, ltext, rtext)
    st.sample({"tool": "yaml-diff", "lhs": ltext, "rhs": corpus.render(
        DIFF_DOCS[3]), "argv": ["--arrays=position"]})
    if li == 0:
        diff_index_family(st, wd)
        diff_empty_family(st, wd)


# streams of one to three documents; -L / -R each given or not: the report is
# the library's for exactly the two documents named (an index left out names
# the only document of a one-document source and is demanded otherwise)
INDEX_STREAMS = [["a: 1\n"], ["a: 1\n", "a: 2\n"], ["a: 2\n", "a: 1\n"],
                 ["a: 1\n", "a: 2\n", "a: 3\n"], ["a: 3\n"]]


def diff_index_family(st, wd):
    lfile = os.path.join(wd, "li.yaml")
    rfile = os.path.join(wd, "ri.yaml")
    for lstream in INDEX_STREAMS:
        ltext = "---\n" + "---\n".join(lstream)
        cli.write(lfile, ltext)
        for rstream in INDEX_STREAMS:
            rtext = "---\n" + "---\n".join(rstream)
            cli.write(rfile, rtext)
            for lidx in [None] + list(range(len(lstream) + 1)):
                for ridx in [None] + list(range(len(rstream) + 1)):
                    for delivery in ("files", "rhs-stdin"):
                        argv = ["--pathsep=."]
                        if lidx is not None:
                            argv.append("-L%d" % lidx)
                        if ridx is not None:
                            argv.append("--right-document-index=%d" % ridx)
                        if delivery == "files":
                            res = cli.run("yaml-diff", argv + [lfile, rfile])
                        else:
                            res = cli.run("yaml-diff", argv + [lfile, "-"],
                                          stdin=rtext)
                        case = {"tool": "yaml-diff", "lhs": ltext,
                                "rhs": rtext, "argv": argv,
                                "delivery": delivery, "family": "index"}
                        note(st, "yaml-diff", res, ("index", lidx is None,
                                                    ridx is None, delivery),
                             "index")
                        if crashed(st, "yaml-diff", res, case):
                            continue
                        lpick = lidx if lidx is not None else (
                            0 if len(lstream) == 1 else None)
                        rpick = ridx if ridx is not None else (
                            0 if len(rstream) == 1 else None)
                        if lpick is None or rpick is None or lpick >= len(
                                lstream) or rpick >= len(rstream):
                            # no document is named: refused, nothing reported
                            if res.code in (0, None) or res.out:
                                st.fail("yaml-diff|index|not-refused", case,
                                        "an error status and no report",
                                        "%r %r" % (res.code, res.out[:120]))
                            continue
                        ldoc = corpus.load(lstream[lpick])
                        rdoc = corpus.load(rstream[rpick])
                        differ = Differ(DifferConfig(
                            corpus.LOG, SimpleNamespace()), corpus.LOG, ldoc)
                        differ.compare_to(rdoc)
                        blocks = []
                        for e in differ.get_report():
                            if e.action is not DiffActions.SAME:
                                e.pathsep = PathSeparators.DOT
                                blocks.append(str(e))
                        want_out = "\n\n".join(blocks) + (
                            "\n" if blocks else "")
                        differs = lstream[lpick] != rstream[rpick]
                        if (res.code == 0) == differs or res.code not in (0, 1):
                            st.fail("yaml-diff|index|exit-status", case,
                                    "0 iff documents %d and %d are equal "
                                    "(differ=%s)" % (lpick, rpick, differs),
                                    res.code)
                        elif res.out != want_out:
                            st.fail("yaml-diff|index|stdout", case,
                                    want_out[:300], res.out[:300])


# sources which hold no document at all (a zero-byte file, nothing but a
# comment) next to ones which do: such a source is the one empty document,
# from a file as from standard input
EMPTY_SOURCES = ["", "# only a comment\n", "---\n", "a: 1\n"]


def diff_empty_family(st, wd):
    lfile = os.path.join(wd, "le.yaml")
    rfile = os.path.join(wd, "re.yaml")
    for ltext in EMPTY_SOURCES:
        cli.write(lfile, ltext)
        for rtext in EMPTY_SOURCES:
            cli.write(rfile, rtext)
            differs = (ltext == "a: 1\n") != (rtext == "a: 1\n")
            outs = []
            for delivery in ("files", "rhs-stdin"):
                if delivery == "files":
                    res = cli.run("yaml-diff", [lfile, rfile])
                else:
                    res = cli.run("yaml-diff", [lfile, "-"], stdin=rtext)
                case = {"tool": "yaml-diff", "lhs": ltext, "rhs": rtext,
                        "argv": [], "delivery": delivery, "family": "empty"}
                note(st, "yaml-diff", res, ("empty", delivery), "empty")
                if crashed(st, "yaml-diff", res, case):
                    continue
                outs.append(res.out)
                if (res.code == 0) == differs or res.code not in (0, 1) or (
                        not differs and res.out):
                    st.fail("yaml-diff|empty-source|exit-status", case,
                            "0 and no report iff both sources hold the same "
                            "data (differ=%s)" % differs,
                            "%r %r %r" % (res.code, res.out[:80],
                                          res.err[:120]))
            if len(outs) == 2 and outs[0] != outs[1]:
                st.fail("yaml-diff|empty-source|delivery", {
                    "tool": "yaml-diff", "lhs": ltext, "rhs": rtext,
                    "argv": [], "delivery": "both", "family": "empty"},
                    "one report whatever the delivery", "%r / %r" % (
                        outs[0][:100], outs[1][:100]))


# --------------------------------------------------------------- yaml-validate
VALID = ["a: 1\n", "[1, 2]\n", "---\na: 1\n---\nb: 2\n", "{}\n",
         "a: &A x\nb: *A\n", '{"j": [1, null]}', "a:\n  - b\n  - c\n"]
INVALID = ["a: 1\n b: 2\n", "a: 1\na: 2\n", "a: &A 1\nb: &A 2\nc: *A\n",
           "a: *missing\n", 'a: "unterminated\n', "a: [1, 2\n",
           "---\na: 1\n---\nb: 1\nb: 2\n", "\ta: 1\n", "a: {b: 1\n"]


def shard_validate(st, wd):
    files = []
    for i, text in enumerate(VALID + INVALID):
        fname = os.path.join(wd, "v%d.yaml" % i)
        cli.write(fname, text)
        files.append((fname, text, i < len(VALID)))
    for fname, text, ok in files:
        for delivery in ("file", "dash", "implied"):
            if delivery == "file":
                res = cli.run("yaml-validate", ["--nostdin", fname])
            elif delivery == "dash":
                res = cli.run("yaml-validate", ["-"], stdin=text)
            else:
                res = cli.run("yaml-validate", [], stdin=text)
            case = {"tool": "yaml-validate", "doc": text,
                    "delivery": delivery}
            note(st, "yaml-validate", res, (delivery, ok), "text")
            if crashed(st, "yaml-validate", res, case):
                continue
            if (res.code == 0) != ok:
                st.fail("yaml-validate|exit-status", case,
                        "0 iff every document loads (valid=%s)" % ok,
                        "%s %s" % (res.code, res.out[:120]))
    # several files: one bad file fails the run whatever its position
    for i in range(len(VALID)):
        for j in range(len(INVALID)):
            good, bad = files[i][0], files[len(VALID) + j][0]
            for order in ((good, bad), (bad, good), (good, good)):
                res = cli.run("yaml-validate", ["--nostdin"] + list(order))
                note(st, "yaml-validate", res, ("multi",), "files")
                want_ok = bad not in order
                if (res.code == 0) != want_ok:
                    st.fail("yaml-validate|multi-file-exit-status",
                            {"tool": "yaml-validate", "files": [
                                os.path.basename(f) for f in order],
                             "bad": files[len(VALID) + j][1]},
                            "0 iff all valid (%s)" % want_ok, res.code)
    st.sample({"tool": "yaml-validate", "doc": INVALID[1]})


# ------------------------------------------------------------------ yaml-paths
def shard_paths(st, wd, half):
    docs = [("m", (("ka", "aa"), ("kb", ("l", ("ab", 1000))), ("kc", "xx"))),
            ("m", (("ka", ("&", "A", "aa")), ("kb", ("l", (("*", "A"),
                                                          "ab"))))),
            ("l", ("aa", ("m", (("ka", "ab"), ("kb", 1000))), "xx")),
            ("m", (("a.b", "aa"), ("k c", ("m", (("x/y", "ab"),)))))]
    exprs = C07.EXPRS or [(op, t, inv) for op in ("=", "^", "=~", ">")
                          for t in ("aa", "a", "1000", "k")
                          for inv in (False, True)]
    exprs = exprs[half::2][:24]
    for spec in docs:
        text = corpus.render_block(spec) + "\n"
        fname = os.path.join(wd, "p.yaml")
        cli.write(fname, text)
        doc = corpus.load(text)
        for expr in exprs:
            for what in ("values", "keys+values", "keys"):
                for alias in ((False, False), (True, True), (False, True),
                              (True, False)):
                    for expand in (False, True):
                        for sep in ("dot", "slash"):
                            mode = (what, alias[0], alias[1], expand, sep)
                            check_paths(st, wd, fname, text, doc, expr, mode)
    st.sample({"tool": "yaml-paths", "doc": corpus.render(docs[0]),
               "argv": ["--search==aa", "--nofile"]})


def _plain(node):
    if isinstance(node, dict):
        return {str(k): _plain(v) for k, v in node.items()}
    if isinstance(node, list):
        return [_plain(v) for v in node]
    val = corpus.plain_scalar(node)
    return val[1] if isinstance(val, tuple) and len(val) == 2 else val


def shard_paths_multi(st, wd):
    """Streams of several documents, several files, several expressions,
    --except and --values: every document is searched on its own, results
    are unique per document, and each line carries its own labels."""
    docs = [("m", (("ka", "aa"), ("kb", ("l", ("ab", 1000))), ("kc", "xx"))),
            ("m", (("ka", "ab"), ("kc", "aa"), ("kd", ("m", (("ka", "aa"),))))),
            ("l", ("aa", ("m", (("ka", "ab"), ("kb", 1000))), "xx")),
            ("m", (("kz", "zz"),)),
            # anchored values that match (what one expression has seen of an
            # anchor is no business of the next expression)
            ("m", (("ka", ("&", "A", "aa")),
                   ("kb", ("l", (("&", "B", "ab"), 1000))),
                   ("kc", ("*", "A"))))]
    texts = [corpus.render_block(d) + "\n" for d in docs]
    loaded = [corpus.load(t) for t in texts]
    searches = [[("=", "aa", False)], [("^", "a", False)],
                [("=", "aa", False), ("^", "a", False)],
                [("^", "a", False), ("=", "aa", False)],
                [("=", "1000", False), ("=~", "x", False)]]
    layouts = []
    for i in range(len(docs)):
        for j in range(len(docs)):
            layouts.append([[i, j]])            # one stream of two documents
            layouts.append([[i], [j]])          # two files
    layouts += [[[0, 1, 0]], [[0, 3], [1, 0]]]
    mode_of = lambda what, sep: (what, False, False, False, sep)
    for layout in layouts:
        names = []
        for fi, members in enumerate(layout):
            fname = os.path.join(wd, "multi%d.yaml" % fi)
            cli.write(fname, "---\n" + "---\n".join(
                texts[m] for m in members))
            names.append(fname)
        for exprs in searches:
            for what in ("values", "keys+values"):
                for sep in ("dot", "slash"):
                    for extra in ((), ("--nofile",), ("--values",),
                                  ("--except",)):
                        check_paths_multi(st, layout, names, texts, loaded,
                                          exprs, mode_of(what, sep), extra)


def check_paths_multi(st, layout, names, texts, loaded, exprs, mode, extra):
    what, _, _, _, sep = mode
    argv = ["--pathsep=" + ("." if sep == "dot" else "/")]
    if what != "values":
        argv.append("--keynames")
    expressions = []
    for expr in exprs:
        expression, _ = C07.run_search(loaded[0], expr, mode)
        expressions.append(expression)
        argv.append("--search=" + expression)
    excepted = None
    for flag in extra:
        if flag == "--except":
            excepted = ("$", "b", False)
            argv.append("--except=$b")
        else:
            argv.append(flag)
    want = []
    for fi, members in enumerate(layout):
        for di, m in enumerate(members):
            found = []
            for expr, expression in zip(exprs, expressions):
                _, results = C07.run_search(loaded[m], expr, mode)
                for p in results:
                    if str(p) not in [f[1] for f in found]:
                        found.append((expression, str(p), p))
            if excepted:
                _, drop = C07.run_search(loaded[m], excepted, mode)
                gone = set(str(p) for p in drop)
                found = [f for f in found if f[1] not in gone]
            for expression, ptext, pobj in found:
                line = ""
                if "--nofile" not in extra:
                    line += "%s/%d" % (names[fi], di)
                if len(exprs) > 1:
                    line += "[%s]" % expression
                if "--nofile" not in extra or len(exprs) > 1:
                    line += ": "
                line += ptext
                if "--values" in extra:
                    from yamlpath import Processor
                    node = list(Processor(corpus.LOG, loaded[m]).get_nodes(
                        ptext, mustexist=True))[0].node
                    line += ": " + (json.dumps(_plain(node)) if isinstance(
                        node, (dict, list)) else str(node))
                want.append(line)
    res = cli.run("yaml-paths", argv + ["--nostdin"] + names)
    case = {"tool": "yaml-paths", "argv": argv, "layout": layout,
            "doc": [texts[m] for ms in layout for m in ms]}
    note(st, "yaml-paths", res, ("multi", len(layout), len(exprs), extra,
                                 sep, what), "docs")
    if crashed(st, "yaml-paths", res, case):
        return
    got = [l for l in res.out.split("\n") if l != ""]
    if res.code != 0:
        st.fail("yaml-paths|multi|exit-status", case, 0, "%s %s" % (
            res.code, res.err[:120]))
    elif got != want:
        st.fail("yaml-paths|multi|stdout|%s" % ",".join(extra), case, want,
                got)


def check_paths(st, wd, fname, text, doc, expr, mode):
    what, ka, va, expand, sep = mode
    try:
        expression, results = C07.run_search(doc, expr, mode)
    except Exception:                     # pylint: disable=broad-except
        return
    if results is None:
        return
    seen = []
    for p in results:
        if str(p) not in seen:
            seen.append(str(p))
    argv = ["--nofile", "--pathsep=" + ("." if sep == "dot" else "/"),
            "--search=" + expression]
    if what == "keys":
        argv.append("--onlykeynames")
    elif what != "values":
        argv.append("--keynames")
    if ka and va:
        argv.append("--allowaliases")
    elif va:
        argv.append("--allowvaluealiases")
    elif ka:
        argv.append("--allowkeyaliases")
    if expand:
        argv.append("--expand")
    for delivery in ("file", "dash", "implied"):
        if delivery == "file":
            res = cli.run("yaml-paths", argv + ["--nostdin", fname])
        elif delivery == "dash":
            res = cli.run("yaml-paths", argv + ["-"], stdin=text)
        else:
            # no YAML_FILE at all: the document waiting on stdin is read
            res = cli.run("yaml-paths", argv, stdin=text)
        case = {"tool": "yaml-paths", "doc": text, "argv": argv,
                "delivery": delivery}
        note(st, "yaml-paths", res, (what, ka, va, expand, sep, delivery),
             "doc")
        if crashed(st, "yaml-paths", res, case):
            continue
        got = [l for l in res.out.split("\n") if l != ""]
        if res.code != 0:
            st.fail("yaml-paths|exit-status", case, 0, "%s %s" % (
                res.code, res.err[:120]))
        elif got != seen:
            st.fail("yaml-paths|stdout", case, seen, got)


# ---------------------------------------------------- subprocess conformance
def shard_conform(st, wd):
    """The in-process driver against the real executables."""
    doc = "a: 1\nb:\n  - x\n  - y\nc: {d: null}\n"
    other = "a: 2\nb:\n  - x\nz: new\n"
    f1, f2 = os.path.join(wd, "one.yaml"), os.path.join(wd, "two.yaml")
    cases = []
    for q in ("/a", "/b", "/b[1]", "/c/d", "/nope", "/**", "b.*", "/b[.=x]",
              "/[", "/c"):
        cases.append(("yaml-get", ["--query=" + q, f1], None))
        cases.append(("yaml-get", ["--query=" + q, "-"], doc))
    for extra in ([], ["--hashes=right"], ["--arrays=unique"],
                  ["--document-format=json"], ["--mergeat=/c"]):
        cases.append(("yaml-merge", extra + ["--nostdin", f1, f2], None))
        cases.append(("yaml-merge", extra + [f1, "-"], other))
    for extra in ([], ["--arrays=value"], ["--same"], ["--onlysame"],
                  ["--quiet"]):
        cases.append(("yaml-diff", extra + [f1, f2], None))
        cases.append(("yaml-diff", extra + [f1, f1], None))
    for s in ("=x", "^a", "=~/./", "!=1"):
        cases.append(("yaml-paths", ["--search=" + s, "--nostdin", f1], None))
        cases.append(("yaml-paths", ["--search=" + s, "--keynames", "-"],
                      doc))
    cases.append(("yaml-validate", ["--nostdin", f1, f2], None))
    cases.append(("yaml-validate", ["-"], "a: 1\na: 2\n"))
    for argv in (["--change=/a", "--value=9"], ["--change=/b[0]", "--delete"],
                 ["--change=/q/r", "--value=n"], ["--change=/a", "--mustexist",
                                                  "--value=1", "--check=2"]):
        cases.append(("yaml-set", argv + ["-"], doc))
    n = 0
    for tool, argv, stdin in cases:
        cli.write(f1, doc)
        cli.write(f2, other)
        a = cli.run(tool, argv, stdin=stdin)
        cli.write(f1, doc)
        cli.write(f2, other)
        b = cli.run_subprocess(tool, argv, stdin=stdin)
        n += 1
        st.evaluations += 1
        st.transitions += 1
        if (a.code, a.out, a.err) != (b.code, b.out, b.err) or a.exc:
            st.fail("conformance|%s" % tool, {"tool": tool, "argv": [
                x.replace(wd, "") for x in argv], "stdin": stdin},
                    "in-process == subprocess",
                    "in-process %r vs subprocess %r" % (a, b))
    st.extra["subprocess_conformance"] += n


def replay(case):
    """Re-decide by re-running the shard family the case came from (cases
    depend on scratch files, so the family is small and re-run whole)."""
    st = core.Stats(None)
    tool = case.get("tool")
    with cli.workdir() as wd:
        if tool == "yaml-validate":
            shard_validate(st, wd)
        elif tool == "yaml-paths":
            shard_paths(st, wd, 0)
            shard_paths(st, wd, 1)
            shard_paths_multi(st, wd)
        elif tool == "yaml-diff":
            for i in range(len(DIFF_DOCS)):
                shard_diff(st, wd, i)
        elif tool == "yaml-merge":
            for i in range(len(MERGE_DOCS)):
                shard_merge(st, wd, i)
            shard_get_raw(st, wd)
        elif tool == "yaml-set":
            for i in range(len(SET_DOCS)):
                shard_set(st, wd, i)
        else:
            plan("quick")
            shard_get(st, wd, 0, len(GET_DOCS))
            shard_conform(st, wd)
            shard_get_raw(st, wd)
    for lst in st.fails.values():
        for f in lst:
            if f["case"].get("argv") == case.get("argv") or True:
                return f
    return None


def repro(case):
    return "# %s %s   (document: %r)\n" % (
        case.get("tool"), " ".join(case.get("argv", [])),
        case.get("doc", case.get("lhs")))
