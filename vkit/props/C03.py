"""
C03 - a set changes exactly the matched nodes (and their aliases), nothing
else; the document still dumps and strictly reloads; this stays true along
every bounded history of set / create / delete edits.

(1) single step: documents (repeated equal scalars, values equal to key names,
    anchored scalars aliased from map values, list elements and map keys) x
    paths x new values, compared with the plain-data model;
(2) histories: breadth-first search over canonical document states, every
    transition applied to the real Processor and to the model in lock-step,
    every state dumped and strictly reloaded.
"""
import collections

from vkit import core, corpus, editrun, paths, refedit
from vkit.props import C01

ID = "C03"
LEVEL = "model_checking"
RULE = ("single step: documents <= N nodes over a repeat-forcing alphabet + "
        "all anchor/alias decorations of base documents x paths (1 segment, "
        "navigator + segment) x new values of each scalar type; histories: "
        "BFS to depth d over {set, create, delete} x path menu x 2 values "
        "from seed documents, states deduplicated by canonical form + alias "
        "classes; non-trivial = the model changed >= 1 position; distinct = "
        "distinct (document shape, path signature, #matched, value type) "
        "resp. distinct canonical states")
ASSUMPTIONS = [
    "the set of matched nodes is the reference evaluator's (C01); cases it "
    "leaves unspecified are skipped and counted",
    "new values are given as typed Python values (str, int, float, bool, "
    "None), so the library's text-to-type guessing is not involved",
]

VALUES = ["z", 7, 2.5, True, None, -7.5, -3, 0, "", 10.0, 2.0, "None"]
DOCS = []
PATHS1 = []
PATHS2 = []
SEEDS = []
MENU = []


def rp(segs):
    return (segs, paths.render(segs, "/"))


def base_specs():
    return [
        ("m", (("a", "x"), ("b", ("l", ("y", 1000))), ("c", "z9"))),
        ("l", ("x", ("m", (("a", "y"), ("b", 1000))), "w")),
        ("m", (("a", ("l", ("x", "y"))), ("b", ("m", (("a", 1000),))))),
        ("l", (("l", ("x", "y")), ("l", ("w", 1000)))),
        ("m", (("a", 1), ("b", ("l", (1, 1, "b"))))),
    ]


def twin_pack():
    """Sibling containers that compare equal and hold interned scalars (small
    ints, booleans, nulls, one-character strings are shared objects): only
    identity of the *parent* tells the addressed node from its twin."""
    out = []
    for inner in (("m", (("x", 1), ("y", True))), ("l", (1, None, "b")),
                  ("m", (("x", ("l", (1, 2))),)), ("l", (("m", (("x", 1),)),))):
        out.append(("m", (("a", inner), ("b", inner))))
        out.append(("l", (inner, inner)))
        out.append(("m", (("a", inner), ("b", ("m", (("a", inner),))))))
        out.append(("l", (inner, "sep", inner, inner)))
    return out


def set_pack():
    """Sets elsewhere in the document: holding a member equal to the value
    being replaced, not holding it, next to lists holding it, and two sets
    with a common member."""
    return [
        ("m", (("a", "x"), ("s", ("s", ("x", "y"))),
               ("b", ("l", ("x", 1000))))),
        ("m", (("s", ("s", ("p", "q"))), ("a", 1), ("b", "p"))),
        ("l", ("x", ("s", ("x", "w")), "w")),
        ("m", (("a", ("s", ("x", "y"))), ("b", ("s", ("x",))), ("c", "x"))),
        ("m", (("a", 1000), ("b", ("m", (("a", ("s", ("b", "1000"))),))))),
    ]


def anchored_container_pack():
    """Anchored Hashes / Arrays holding several scalars which one path matches
    together, and anchored scalars aliased inside them.  (The containers
    themselves are not aliased: the plain-data model keeps one copy per
    position.)"""
    return [
        ("m", (("a", ("&", "A", ("m", (("a", 3), ("b", 3))))), ("b", "x"))),
        ("m", (("a", ("&", "A", ("l", ("x", "y", "x")))), ("b", 1))),
        ("m", (("a", ("&", "B", "z9")),
               ("b", ("&", "A", ("m", (("a", ("*", "B")), ("b", "w"))))),
               ("c", ("*", "B")))),
        ("l", (("&", "A", ("m", (("a", 1), ("b", 1)))), ("m", (("a", 1),)))),
        ("m", (("a", ("&", "A", ("l", (("&", "B", "y"), "x", ("*", "B"))))),
               ("b", ("l", (("*", "B"), "w"))))),
    ]


def build(tier):
    nmax = 4
    docs = corpus.docs(nmax, (1, 1000, "b", "a"), ("a", "b"), sets=False)
    for base in base_specs():
        docs += corpus.decorations(base, key_alias=False)
    docs += twin_pack()
    docs += set_pack()
    docs += anchored_container_pack()
    voc = paths.vocab("c01-quick")
    p1 = [rp((s,)) for s in voc]
    navs = [("key", "a"), ("key", "b"), ("idx", 0), ("idx", 1), ("all",),
            ("trav",)]
    p2 = [rp((n, s)) for n in navs for s in voc if s[0] != "trav"
          or n[0] != "trav"]
    extra = [rp((("anchor", "A"),)), rp((("key", "b"), ("anchor", "A")))]
    for first in (("key", "b"), ("idx", 1), ("idx", -1), ("idx", 2)):
        for second in (("key", "x"), ("key", "y"), ("idx", 0), ("idx", 1),
                       ("idx", 2)):
            extra.append(rp((first, second)))
            for third in (("idx", 0), ("key", "x"), ("idx", 1)):
                extra.append(rp((first, second, third)))
    extra.append(rp((("key", "b"), ("key", "a"), ("key", "x"))))
    extra.append(rp((("key", "b"), ("key", "a"), ("idx", 0))))
    return docs, p1 + extra, p2


def plan(tier):
    global DOCS, PATHS1, PATHS2, SEEDS, MENU
    DOCS, PATHS1, PATHS2 = build(tier)
    bounds = {"single_step": {"documents": len(DOCS),
                              "paths_1seg": len(PATHS1),
                              "paths_2seg": len(PATHS2),
                              "values": [repr(v) for v in VALUES]}}
    shards = [("step", lo, min(len(DOCS), lo + 15))
              for lo in range(0, len(DOCS), 15)]
    SEEDS, MENU = history_setup()
    depth = 2 if tier == "quick" else 3
    bounds["histories"] = {"seeds": [corpus.render(s) for s in SEEDS],
                           "menu": len(MENU), "depth": depth}
    for si in range(len(SEEDS)):
        shards.append(("hist", si, depth))
    return shards, bounds


def run_shard(shard):
    if shard[0] == "hist":
        return history(shard[1], shard[2])
    _, lo, hi = shard
    st = core.Stats(ID)
    for di in range(lo, hi):
        spec = DOCS[di]
        text = corpus.render(spec)
        doc0 = corpus.load(text)
        shp = corpus.shape(spec)
        for segs, ptext in PATHS1:
            for value in VALUES:
                check_set(st, doc0, text, shp, segs, ptext, value)
        for segs, ptext in PATHS2:
            for value in VALUES[:2]:
                check_set(st, doc0, text, shp, segs, ptext, value)
        for base in (("key", "a"), ("key", "b"), ("idx", 0), ("idx", 1)):
            for sub in ((), (("key", "a"),), (("key", "b"),), (("key", "x"),)):
                for newname in ("z", "a", "b"):
                    check_rename(st, doc0, text, shp, (base,) + sub, newname)
        collector_family(st, doc0, text, shp)
        if di == lo:
            st.sample({"doc": text, "op": "set", "path": PATHS2[7][1],
                       "value": "z"})
    if lo == 0:
        formats_family(st)
        alias_key_family(st)
    return st


ALIAS_KEY_DOCS = [
    # (document, path set, key list of the mapping holding the aliased key
    #  - "NEW" stands for the new value -, where that mapping is)
    ("cur: &E prod\nrep:\n  *E : 3\n  staging: 2\n  dev: 1\nl: [*E, x]\n",
     "/cur", ["NEW", "staging", "dev"], ("rep",)),
    ("cur: &E prod\nrep:\n  first: 0\n  *E : 3\n  dev: 1\n",
     "/cur", ["first", "NEW", "dev"], ("rep",)),
    ("l: [&E prod, {*E : 3, z: 1}, *E]\n",
     "/l[0]", ["NEW", "z"], ("l", 1)),
]


def alias_key_family(st):
    """An alias of the changed scalar used as a mapping KEY is renamed in
    place: the mapping keeps the order of its keys (in memory - and after a
    dump and reload where the unedited document survives one)."""
    from yamlpath import Processor
    for text, ptext, keys, where in ALIAS_KEY_DOCS:
        for value in ("blue", "a b", 7):
            st.evaluations += 1
            st.transitions += 1
            st.validated += 1
            doc = corpus.load(text)
            case = {"doc": text, "op": "set-alias-key", "path": ptext,
                    "segs": None, "value": value}
            try:
                Processor(corpus.LOG, doc).set_value(ptext, value,
                                                     mustexist=True)
            except Exception as ex:       # pylint: disable=broad-except
                st.fail("set-alias-key|%s" % type(ex).__name__, case,
                        "the value is set", repr(ex)[:200])
                continue
            st.states += 1
            st.sig("set-alias-key", text, type(value).__name__)
            want = [value if k == "NEW" else k for k in keys]
            stages = [("in memory", doc)]
            try:
                stages.append(("after dump and reload",
                               corpus.load(editrun.dump(doc))))
            except Exception:             # pylint: disable=broad-except
                st.extra["alias_key_document_not_dumpable"] += 1
            for stage, data in stages:
                node = data
                for ref in where:
                    node = node[ref]
                got = [_pv(k) for k in node.keys()]
                if got != want:
                    st.fail("set-alias-key|key-order|%s" % stage, case,
                            repr(want), repr(got))
                    break


COLL_NAV = (("key", "a"), ("key", "b"), ("idx", 0), ("idx", 1))
COLL_LAST = (("key", "a"), ("idx", 0), ("idx", -1), ("slice", 0, 2),
             ("slice", 1, 3), ("all",))


def collector_family(st, doc0, text, shp):
    """A path wrapped in a Collector, (P), names the nodes P names - so a set
    through it changes exactly those (P matching scalars only); and an index
    applied to a Collector which gathered one Array, (P)[i], names that
    Array's element."""
    singles = [(last,) for last in COLL_LAST]
    doubles = [(nav, last) for nav in COLL_NAV for last in COLL_LAST]
    for segs in singles + doubles:
        if not scalars_only(doc0, segs):
            continue
        check_set(st, doc0, text, shp, segs,
                  "(%s)" % paths.render(segs, "/"), "z")
    for head in [(nav,) for nav in COLL_NAV] + [
            (nav, nav2) for nav in COLL_NAV for nav2 in COLL_NAV[:3]]:
        try:
            ctxs = refedit.matched(doc0, head)
        except Exception:                 # pylint: disable=broad-except
            continue
        if len(ctxs) != 1 or not corpus.is_list(ctxs[0].node):
            continue
        for idx in (0, 1, -1):
            segs = head + (("idx", idx),)
            if not scalars_only(doc0, segs):
                continue
            check_set(st, doc0, text, shp, segs,
                      "(%s)[%d]" % (paths.render(head, "/"), idx), "z")


FORMAT_DOC = "a: &A old\nb: *A\nc: [*A, x]\nd: old\ne: &E 5\nf: *E\n"
FORMAT_VALUES = [("BARE", "new", "new"), ("DQUOTE", "new", "new"),
                 ("SQUOTE", "new", "new"),
                 ("FOLDED", "new text here", "new text here"),
                 ("FOLDED", "ends in a blank ", "ends in a blank "),
                 ("LITERAL", "l1\nl2", "l1\nl2"), ("INT", "12", 12),
                 ("FLOAT", "1.5", 1.5), ("BOOLEAN", "true", True),
                 ("DEFAULT", "new", "new"),
                 # whole, negative, tiny and huge floats keep their value
                 ("FLOAT", "1000.0", 1000.0), ("FLOAT", "-100.0", -100.0),
                 ("FLOAT", "2", 2.0), ("FLOAT", "0.0000001", 1e-07),
                 ("FLOAT", "1e20", 1e20), ("DEFAULT", 10.0, 10.0),
                 # text that looks like another type stays text when quoted
                 ("SQUOTE", "5", "5"), ("DQUOTE", "true", "true"),
                 ("SQUOTE", "1.5", "1.5")]
FORMAT_PATHS = [("/a", "a"), ("b", "a"), ("/c[0]", "a"),
                ("(/a)+(/d)", "ad"), ("/e", "e"), ("/*[.=old]", "ad"),
                ("/d", "d"), ("(/e)+(/d)", "ed"), ("/**[.=5]", "e")]


def formats_family(st):
    """Every value format of set_value on anchored scalars with aliases: the
    new value at every alias site, the anchor kept, nothing else touched, and
    all of it still true after a dump and a strict reload."""
    from yamlpath import Processor
    from yamlpath.enums import YAMLValueFormats
    from vkit.corpus import anchor_of
    for ptext, touched in FORMAT_PATHS:
        for fmt, value, want in FORMAT_VALUES:
            st.evaluations += 1
            st.transitions += 1
            st.validated += 1
            doc = corpus.load(FORMAT_DOC)
            case = {"doc": FORMAT_DOC, "op": "set-format", "path": ptext,
                    "segs": None, "value": value, "format": fmt}
            try:
                Processor(corpus.LOG, doc).set_value(
                    ptext, value, value_format=YAMLValueFormats[fmt],
                    mustexist=True)
            except Exception as ex:       # pylint: disable=broad-except
                st.fail("set-format|%s|%s" % (fmt, type(ex).__name__), case,
                        "the value is set", repr(ex)[:200])
                continue
            st.states += 1
            st.sig("set-format", ptext, fmt)
            exp = {"a": "old", "b": "old", "c": ["old", "x"], "d": "old",
                   "e": 5, "f": 5}
            if "a" in touched:
                exp["a"] = exp["b"] = want
                exp["c"] = [want, "x"]
            if "d" in touched:
                exp["d"] = want
            if "e" in touched:
                exp["e"] = exp["f"] = want
            bad = None
            for stage in ("in memory", "after dump and reload"):
                if stage != "in memory":
                    try:
                        doc = corpus.load(editrun.dump(doc))
                    except Exception as ex:  # pylint: disable=broad-except
                        bad = "%s: %s" % (stage, type(ex).__name__)
                        break
                got = {k: ([_pv(x) for x in v] if isinstance(v, list)
                           else _pv(v)) for k, v in doc.items()}
                if got != exp or any(type(got[k]) is not type(exp[k])
                                     for k in "abdef"):
                    bad = "%s: data %r" % (stage, got)
                elif not (doc["a"] is doc["b"] is doc["c"][0]) or \
                        doc["e"] is not doc["f"]:
                    bad = "%s: aliases no longer share one node" % stage
                elif anchor_of(doc["a"]) != "A" or anchor_of(doc["e"]) != "E" \
                        or anchor_of(doc["d"]):
                    bad = "%s: anchors %r %r %r" % (
                        stage, anchor_of(doc["a"]), anchor_of(doc["e"]),
                        anchor_of(doc["d"]))
                if bad:
                    break
            if bad:
                st.fail("set-format|%s|%s" % (fmt, bad.split(":")[0]), case,
                        repr(exp), bad)


def _pv(node):
    val = corpus.plain_scalar(node)
    return val[1] if isinstance(val, tuple) and len(val) == 2 else val


def dup_set_members(canon):
    if isinstance(canon, tuple) and canon:
        if canon[0] == "s" and len(canon) > 1 and isinstance(canon[1], tuple):
            members = list(canon[1])
            if len(set(map(repr, members))) != len(members):
                return True
        return any(dup_set_members(c) for c in canon
                   if isinstance(c, tuple))
    return False


def check_set(st, doc0, text, shp, segs, ptext, value, doc=None):
    """One set on a fresh copy of doc0; returns the edited copy or None."""
    st.evaluations += 1
    model = editrun.model_set(doc0, segs, value)
    if model[0] == "unspecified":
        st.extra["unspecified"] += 1
        return None
    if model[0] in ("error", "nomatch"):
        st.extra["no_match_or_error"] += 1
        return None
    if dup_set_members(model[1]):
        # two members of one set given the same value: a set cannot hold
        # both, and which one survives is nowhere stated
        st.extra["unspecified"] += 1
        return None
    doc = editrun.fresh(doc0)
    before_alias = refedit.alias_signature(doc)
    st.transitions += 1
    st.validated += 1
    sig = paths.sig(segs)
    case = {"doc": text, "op": "set", "path": ptext, "segs": segs,
            "value": value}
    res, detail = editrun.apply_set(doc, ptext, value, mustexist=True)
    st.outcomes[res] += 1
    if res != "ok":
        st.fail("set|%s|%s:%s" % (sig, res, detail), case,
                "%d nodes set" % model[2], "%s %s" % (res, detail))
        return None
    st.states += 1
    st.sig(shp, sig, model[2], type(value).__name__)
    got = corpus.canon(doc, anchors=True)
    if got != model[1]:
        st.fail("set|%s|%s" % (sig, classify(doc0, got, model[1])), case,
                short(model[1]), short(got))
        return None
    if value is not None and scalars_only(doc0, segs) and \
            refedit.alias_signature(doc) != before_alias:
        st.fail("set|%s|alias-sharing" % sig, case,
                "aliases still share one node", "sharing changed")
        return None
    bad = editrun.reload_check(doc)
    if bad:
        st.fail("set|%s|reload" % sig, case, "dump reloads to the same data",
                bad)
        return None
    return doc


def check_rename(st, doc0, text, shp, segs, newname):
    """Setting <path>[name()] renames the key the node is held under: same
    value, same position among its siblings, nothing else changed; a name that
    already exists in the parent is refused and changes nothing."""
    try:
        ctxs = refedit.matched(doc0, segs)
    except Exception:                     # pylint: disable=broad-except
        return
    if len(ctxs) != 1 or not corpus.is_map(ctxs[0].parent) \
            or not isinstance(ctxs[0].ref, str):
        return
    ctx = ctxs[0]
    st.evaluations += 1
    st.transitions += 1
    st.validated += 1
    ptext = paths.render(segs + (("kw", "name", (), False),), "/")
    case = {"doc": text, "op": "rename", "path": ptext, "segs": segs,
            "value": newname}
    doc = editrun.fresh(doc0)
    before = corpus.canon(doc, anchors=True)
    res, detail = editrun.apply_set(doc, ptext, newname, mustexist=True)
    got = corpus.canon(doc, anchors=True)
    st.outcomes["rename:" + res] += 1
    if newname in ctx.parent:
        if res != "ype":
            st.fail("rename|existing-name-not-refused", case,
                    "a YAML Path error", "%s %s" % (res, detail))
        elif got != before:
            st.fail("rename|refused-but-changed", case, "unchanged", "changed")
        return
    if res != "ok":
        st.fail("rename|%s:%s" % (res, detail), case, "key renamed",
                "%s %s" % (res, detail))
        return
    st.states += 1
    st.sig(shp, "rename", len(segs), newname)

    def renamed(node, pos):
        if corpus.is_map(node):
            items = []
            for k, v in node.items():
                kc = corpus.canon(k, True)
                if pos == ctx.pos[:-1] and k == ctx.ref:
                    kc = ("str", newname)
                items.append((kc, renamed(v, pos + (k,))))
            return refedit.wrap(node, ("m", tuple(items)), True)
        if corpus.is_list(node):
            return refedit.wrap(node, ("l", tuple(
                renamed(v, pos + (i,)) for i, v in enumerate(node))), True)
        return corpus.canon(node, True)
    want = renamed(doc0, ())
    if got != want:
        st.fail("rename|wrong-document", case, short(want), short(got))
        return
    bad = editrun.reload_check(doc)
    if bad:
        st.fail("rename|reload", case, "dump reloads to the same data", bad)


def scalars_only(doc0, segs):
    """Sharing among aliases is only comparable when no container (which may
    itself hold aliases) was replaced."""
    try:
        return all(corpus.is_scalar(c.node)
                   for c in refedit.matched(doc0, segs, expand_slices=True))
    except Exception:                     # pylint: disable=broad-except
        return False


def classify(doc0, got, exp):
    g, e = repr(got), repr(exp)
    if len(g) == len(e):
        return "wrong-nodes"
    return "structure"


def short(c):
    text = repr(c)
    return text if len(text) < 400 else text[:400] + "..."


# ------------------------------------------------------------------ histories
def history_setup():
    seeds = [
        ("m", (("a", 1), ("b", ("l", (1, 1, "b"))))),
        ("m", (("a", ("&", "A", "x")), ("b", ("l", (("*", "A"), "y"))),
               ("c", ("*", "A")))),
        ("l", (("m", (("a", "b"), ("b", "x"))), ("m", (("a", "b"),)))),
        ("m", (("a", ("&", "A", "x")), ("d", ("l", (("*", "A"), "x"))))),
        ("l", (("l", ()), 1000, ("l", (1000,)))),
    ]
    menu = []
    for p in ((("key", "a"),), (("key", "b"), ("idx", 0)),
              (("key", "b"), ("idx", 1)), (("idx", 0), ("key", "a")),
              (("idx", 0),), (("all",),),
              (("search", ".", "=", "x", False),),
              (("key", "b"), ("search", ".", "=", "1", False)),
              (("trav",),), (("key", "c"),)):
        for v in ("q", 1):
            menu.append(("set", p, v))
        menu.append(("delete", p, None))
    for p in ((("key", "n"),), (("key", "b"), ("idx", 3)),
              (("key", "n"), ("key", "m"))):
        menu.append(("create", p, "q"))
    return seeds, menu


def history(seed_index, depth):
    """BFS over canonical states reachable from one seed."""
    from vkit.props import C04
    st = core.Stats(ID)
    spec = SEEDS[seed_index]
    text = corpus.render(spec)

    def build(hist):
        doc = corpus.load(text)
        for op, segs, val in hist:
            ptext = paths.render(segs, "/")
            if op == "delete":
                editrun.apply_delete(doc, ptext)
            else:
                editrun.apply_set(doc, ptext, val, mustexist=(op == "set"))
        return doc

    def key(doc):
        return (corpus.canon(doc, anchors=True), refedit.alias_signature(doc))

    root = build([])
    seen = {key(root): []}
    frontier = collections.deque([[]])
    while frontier:
        hist = frontier.popleft()
        if len(hist) >= depth:
            continue
        cur = build(hist)
        if key(cur) not in seen:
            raise core.HarnessError("replayed history reached another state")
        for op, segs, val in MENU:
            ptext = paths.render(segs, "/")
            step = hist + [(op, segs, val)]
            label = {"seed": text, "history": [
                [o, paths.render(s, "/"), v] for o, s, v in step]}
            nxt = None
            if op == "set":
                nxt = check_set(st, cur, label, "hist", segs, ptext, val)
            elif op == "delete":
                nxt = C04.check_delete(st, cur, label, "hist", segs, ptext)
            elif editrun.model_set(cur, segs, val)[0] == "doc":
                # the path already exists: creating is a plain set
                nxt = check_set(st, cur, label, "hist", segs, ptext, val)
            else:
                from vkit.props import C09
                nxt = C09.check_create(st, cur, label, "hist", segs, ptext,
                                       val)
            if nxt is None:
                continue
            k = key(nxt)
            if k not in seen:
                seen[k] = step
                frontier.append(step)
    st.states += len(seen)
    for k in seen:
        st.sig("state", k)
    st.extra["history_states"] += len(seen)
    st.sample({"seed": text, "deepest_history": [
        [o, paths.render(s, "/"), v] for o, s, v in
        max(seen.values(), key=len)]})
    return st


def replay(case):
    st = core.Stats(None)
    if case.get("op") == "set-alias-key":
        alias_key_family(st)
        for lst in st.fails.values():
            for f in lst:
                if f["case"]["doc"] == case["doc"] and \
                        f["case"]["value"] == case["value"]:
                    return f
        return None
    if case.get("op") == "set-format":
        formats_family(st)
        for lst in st.fails.values():
            for f in lst:
                if f["case"]["path"] == case["path"] and \
                        f["case"]["format"] == case["format"]:
                    return f
        return None
    segs = C01.tup(case["segs"])
    if isinstance(case["doc"], dict):
        # a history: rebuild the state before the last step
        doc = corpus.load(case["doc"]["seed"])
        steps = case["doc"]["history"]
        for op, ptext, val in steps[:-1]:
            if op == "delete":
                editrun.apply_delete(doc, ptext)
            else:
                editrun.apply_set(doc, ptext, val, mustexist=(op == "set"))
    else:
        doc = corpus.load(case["doc"])
    if case["op"] == "rename":
        check_rename(st, doc, case["doc"], "?", segs, case["value"])
    elif case["op"] == "set":
        check_set(st, doc, case["doc"], "?", segs, case["path"],
                  case["value"])
    elif case["op"] == "delete":
        from vkit.props import C04
        C04.check_delete(st, doc, case["doc"], "?", segs, case["path"])
    else:
        from vkit.props import C09
        C09.check_create(st, doc, case["doc"], "?", segs, case["path"],
                         case["value"])
    for lst in st.fails.values():
        return lst[0]
    return None


def repro(case):
    if isinstance(case["doc"], dict):
        return "# history: %r" % (case["doc"],)
    return (
        "import sys\n"
        "from types import SimpleNamespace\n"
        "from yamlpath import Processor\n"
        "from yamlpath.common import Parsers\n"
        "from yamlpath.wrappers import ConsolePrinter\n"
        "log = ConsolePrinter(SimpleNamespace(verbose=False, quiet=True, "
        "debug=False))\n"
        "yaml = Parsers.get_yaml_editor()\n"
        "doc, _ = Parsers.get_yaml_data(yaml, log, %r, literal=True)\n"
        "p = Processor(log, doc)\n"
        "%s\n"
        "yaml.dump(doc, sys.stdout)\n" % (
            case["doc"],
            "p.set_value(%r, %r, mustexist=True)" % (case["path"],
                                                     case["value"])
            if case["op"] != "delete" else
            "list(p.delete_nodes(%r))" % case["path"]))
