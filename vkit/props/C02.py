"""
C02 - every result locates its node: coordinates and reported path re-resolve.

For every result of every query of the explored product (C01 fragment plus
keyword segments; documents additionally keyed with every escapable
punctuation character) the result's parent/parentref/ancestry/path must
designate the very node returned, and the reported path - as printed, and
re-stringified in the other notation - must resolve to that node and no other.
No reference evaluator is involved: the invariants are self-consistency of the
real engine's answers against the real document.
"""
from yamlpath import YAMLPath
from yamlpath.enums import PathSeparators, PathSegmentTypes

from vkit import core, corpus, paths, qrun

ID = "C02"
LEVEL = "model_checking"
RULE = ("documents <= N nodes + collision pack + punctuation-keyed documents "
        "(one key per escapable character, alone and embedded) x paths of "
        "1..2 segments over the C01 vocabulary plus keyword segments; every "
        "non-virtual result is checked (parent[ref] is node, ancestry chain "
        "from the root, path objects not shared, reported path re-resolves "
        "in both notations); non-trivial = a result was checked; distinct = "
        "distinct (document shape, path signature, result count)")
ASSUMPTIONS = [
    "virtual results (slices, collectors, name()) designate no single node "
    "and are excluded, as the property states",
    "keys containing characters the path syntax has no escape for (& * ! = "
    "...) are outside the property's domain",
]

CASES = []


def rp(segs, style="bs"):
    return (segs, paths.render(segs, ".", style),
            paths.render(segs, "/", style))


def kw_vocab():
    out = []
    for kw, params in (("has_child", ("a",)), ("max", ()), ("max", ("a",)),
                       ("min", ()), ("min", ("a",)), ("unique", ()),
                       ("unique", ("a",)), ("distinct", ()),
                       ("distinct", ("a",)), ("parent", ()),
                       ("parent", ("2",)), ("parent", ("0",))):
        out.append(("kw", kw, params, False))
        if kw in ("has_child", "max", "min", "unique"):
            out.append(("kw", kw, params, True))
    return out


PUNCT = ["\\", ".", "/", "(", ")", "[", "]", "^", "$", "%", " ", "'", '"']


def punct_keys():
    keys = []
    for ch in PUNCT:
        keys.append(ch)
        keys.append("a" + ch + "b")
    keys += ["a.b/c", "x y.z", "[a]", "(a)", "a'b\"c", "^a$", "50%", "a\\.b",
             "/x", ".x", "x/", "x.", "//", "/a/b", " x", "'q'"]
    return keys


def punct_cases():
    out = []
    for key in punct_keys():
        skeletons = [
            ("m", ((key, 1000),)),
            ("m", ((key, ("m", (("a", 1000),))),)),
            ("m", (("a", ("m", ((key, 1000),))),)),
            ("l", (("m", ((key, 1000),)),)),
            ("m", ((key, ("l", (1000, "a"))),)),
            ("m", ((key, 1000), ("b", ("m", ((key, "a"),))))),
            ("m", (("a", ("m", ((key, ("m", (("a", 1000),))),))),)),
            ("m", ((key, ("m", (("a", 1000),))), ("zz", ("m", (("a", 2000),))))),
            ("s", (key,)),
            ("m", (("a", ("s", (key, "b"))),)),
        ]
        plist = []
        for style in ("bs", "q"):
            plist.append(rp((("key", key),), style))
            plist.append(rp((("key", "a"), ("key", key)), style))
            plist.append(rp((("idx", 0), ("key", key)), style))
            plist.append(rp((("key", key), ("key", "a")), style))
            plist.append(rp((("key", key), ("idx", 1)), style))
            plist.append(rp((("key", "b"), ("key", key)), style))
        for segs in ((("all",),), (("trav",),), (("all",), ("all",)),
                     (("trav",), ("all",)),
                     (("search", ".", "=", "zz", True),),
                     (("search", ".", "=~", ".", False),),
                     (("trav",), ("search", ".", "=", "zz", True)),
                     (("all",), ("search", ".", "=", "zz", True)),
                     (("kw", "has_child", (key,), False),),
                     (("all",), ("kw", "parent", (), False)),
                     (("trav",), ("kw", "parent", (), False)),
                     (("key", "a"), ("all",), ("kw", "parent", (), False)),
                     (("all",), ("all",), ("kw", "parent", (), False)),
                     (("all",), ("all",), ("kw", "parent", ("2",), False)),
                     (("trav",), ("all",), ("kw", "parent", (), False)),
                     (("all",), ("kw", "max", ("a",), False)),
                     (("all",), ("kw", "has_child", ("a",), False)),
                     (("all",), ("kw", "unique", ("a",), False)),
                     (("kw", "max", ("a",), False),),
                     (("kw", "min", ("a",), True),),
                     (("kw", "distinct", ("a",), False),)):
            plist.append(rp(segs))
        for sk in skeletons:
            out.append((sk, plist))
    return out


def climb_cases():
    """parent(n) after every kind of segment that hands it coordinates:
    slices (virtual lists), anchors, indexes, wildcards and traversal, landing
    at every depth from the root to the node itself."""
    docs = [
        ("m", (("a", ("l", ("p", "q", "r", "s"))), ("b", 1000))),
        ("l", ("p", "q", "r")),
        ("m", (("a", ("m", (("b", ("l", (("m", (("a", 1000),)),
                                          ("m", (("a", "a"),)), "r"))),))),)),
        ("l", (("l", ("p", "q", "r")), ("l", ("s",)))),
        ("m", (("a", ("l", (("&", "A", ("m", (("a", 1000), ("b", "q")))),
                            ("*", "A"), ("m", (("a", "z"),))))),
               ("b", ("&", "B", "q")), ("c", ("*", "B")))),
        ("m", (("a", ("m", (("p", 1), ("q", 2), ("r", 3)))),)),
    ]
    heads = [(("key", "a"),), (), (("key", "a"), ("key", "b")), (("idx", 0),)]
    mids = [("slice", 0, 2), ("slice", 1, 3), ("slice", -3, -1),
            ("slice", 1, 1), ("slice", "p", "q"), ("anchor", "A"),
            ("anchor", "B"), ("idx", 0), ("idx", -1), ("all",), ("trav",)]
    tails = [(), (("key", "a"),), (("idx", 0),)]
    plist = []
    for head in heads:
        for mid in mids:
            for tail in tails:
                for n in ((), ("0",), ("1",), ("2",), ("3",)):
                    segs = head + (mid,) + tail + (
                        ("kw", "parent", n, False),)
                    plist.append(rp(segs))
                    if n in ((), ("2",)):
                        plist.append(rp(segs + (("kw", "parent", (), False),)))
    return [(d, plist) for d in docs]


def anchored_child_cases():
    """has_child(&anchor) over Arrays-of-Hashes with null elements before,
    between and after the hashes (the keyword has a code path of its own for
    each container kind), plain and inverted, alone and followed by a key."""
    rec_a = ("m", (("a", ("&", "A", "x")), ("n", 1000)))
    rec_b = ("m", (("b", ("*", "A")), ("n", "a")))
    rec_c = ("m", (("c", 1000), ("n", "b")))
    lists = [
        ("l", (None, rec_a, None, rec_b, rec_c)),
        ("l", (rec_a, None, rec_b, None)),
        ("l", (None, None, rec_c, rec_a)),
        ("l", (rec_a, rec_b, rec_c)),
    ]
    out = []
    for lst in lists:
        for spec, head in ((lst, ()), (("m", (("l", lst), ("z", 1))),
                                       (("key", "l"),))):
            plist = []
            for inv in (False, True):
                kw = ("kw", "has_child", ("&A",), inv)
                plist.append(rp(head + (kw,)))
                plist.append(rp(head + (kw, ("key", "n"))))
                plist.append(rp(head + (kw, ("kw", "parent", (), False))))
            out.append((spec, plist))
    return out


def plan(tier):
    global CASES
    voc = paths.vocab("c01-quick")
    kws = kw_vocab()
    p1 = [rp((s,)) for s in voc + kws]
    p2 = [rp(p) for p in paths.upto(voc, 2) if len(p) == 2]
    p2 += [rp((s, k)) for s in voc for k in kws]
    small = 3 if tier == "quick" else 4
    CASES = []
    for spec in corpus.docs(4 if tier == "quick" else 5,
                            (None, 1000, "a"), ("a", "b")):
        if corpus.size(spec) <= small:
            CASES.append((spec, p1 + p2))
        else:
            CASES.append((spec, p1))
    for spec in corpus.collision_pack() + corpus.merge_pack():
        CASES.append((spec, p1 + p2))
    # integer keys WITHOUT a text twin (reached by the key segment's
    # text-to-integer fall-back), alone and above further levels
    for spec in (("m", (("a", ("m", ((0, "a"), (1, ("m", (("a", 1000),)))))),)),
                 ("m", ((0, ("m", (("a", 1000), ("b", "a")))), (1, "a"))),
                 ("l", (("m", ((1, ("l", ("a", 1000))),)),))):
        CASES.append((spec, p1 + p2 + [
            rp((("key", "a"), ("key", "1"), ("key", "a"))),
            rp((("key", "0"), ("key", "a"), ("kw", "parent", (), False))),
            rp((("key", "a"), ("key", "1"), ("kw", "parent", (), False))),
            rp((("idx", 0), ("key", "1"), ("idx", 0)))]))
    CASES += punct_cases()
    CASES += climb_cases()
    CASES += anchored_child_cases()
    bounds = {"documents": len(CASES),
              "queries": sum(len(p) for _, p in CASES),
              "two_segment_paths_on_documents_up_to_nodes": small,
              "punctuation_keys": punct_keys()}
    step = 20
    shards = [(lo, min(len(CASES), lo + step))
              for lo in range(0, len(CASES), step)]
    return shards, bounds


def warm_up():
    for wtext in ("1.0: a\n2.0: b\n0.0: c\n", "true: d\nfalse: e\n"):
        warm = corpus.load(wtext)
        for ptxt in ("**", "*", "/*"):
            qrun.query(warm, ptxt, mustexist=True)


def run_shard(shard):
    lo, hi = shard
    st = core.Stats(ID)
    # process history: a document whose keys are floats and booleans equal to
    # small integers has been listed before (whatever the library remembers
    # of it must not colour the paths of the documents that follow)
    warm_up()
    for ci in range(lo, hi):
        spec, plist = CASES[ci]
        text = corpus.render(spec)
        doc = corpus.load(text)
        shp = corpus.shape(spec)
        cache = {}
        for segs, dot, slash in plist:
            for ptxt in (dot, slash):
                check_query(st, doc, text, shp, segs, ptxt, cache)
        if ci == lo:
            st.sample({"doc": text, "path": plist[len(plist) // 2][2]})
    return st


def holds(parent, ref, node):
    """parent[ref] is node (set: the member is in the set)."""
    if parent is None:
        return ref is None
    try:
        if corpus.is_set(parent):
            return node in parent and (ref == node or ref is node)
        return parent[ref] is node
    except (KeyError, IndexError, TypeError):
        return False


def resolve(doc, pathtext, cache):
    if pathtext not in cache:
        out = qrun.query(doc, pathtext, mustexist=True)
        cache[pathtext] = out
    return cache[pathtext]


def check_query(st, doc, text, shp, segs, ptxt, cache):
    st.evaluations += 1
    out = qrun.query(doc, ptxt, mustexist=True)
    st.outcomes[out.kind] += 1
    if out.kind != "nodes":
        return
    sig = paths.sig(segs)
    case = {"doc": text, "path": ptxt}
    real = []
    for nc in out.ncs:
        if isinstance(nc, list) or qrun.is_virtual(nc) \
                or qrun.is_name_result(nc):
            st.extra["virtual_results_skipped"] += 1
            continue
        if type(nc.parent) is list:
            # an element addressed *inside* a virtual list ([1:3][0]): its
            # coordinates are relative to that virtual result
            st.extra["virtual_results_skipped"] += 1
            continue
        real.append(nc)
    if real:
        st.sig(shp, sig, len(real))
    seen_paths = {}
    for ri, nc in enumerate(real):
        st.states += 1
        st.transitions += 1
        # 1. parent / parentref (only the document root has no parent)
        if not holds(nc.parent, nc.parentref, nc.node) or (
                nc.parent is None and nc.node is not doc):
            st.fail("%s|parentref" % sig, case,
                    "parent[parentref] is the returned node",
                    "result %d: parentref=%r in %s" % (
                        ri, nc.parentref, type(nc.parent).__name__))
            continue
        # 2. ancestry chain from the root
        bad = check_ancestry(doc, nc)
        if bad:
            st.fail("%s|ancestry" % sig, case, "chain from root to node",
                    "result %d: %s" % (ri, bad))
            continue
        # 3. path objects are not shared between results
        if nc.path is not None:
            if id(nc.path) in seen_paths and \
                    seen_paths[id(nc.path)].node is not nc.node:
                st.fail("%s|shared-path-object" % sig, case,
                        "one YAMLPath per result", "result %d shares" % ri)
                continue
            seen_paths[id(nc.path)] = nc
        # 4. the reported path re-resolves, in both notations
        if twin_keyed(nc):
            # {1: x, "1": y}: the path syntax cannot tell an integer key from
            # its string spelling, so no path can designate the int-keyed one
            st.extra["twin_key_results_skipped"] += 1
            continue
        if nc.path is None:
            st.fail("%s|no-path" % sig, case, "a concrete path", "None")
            continue
        try:
            printed = str(nc.path)
            other = YAMLPath(nc.path)
            other.separator = (PathSeparators.DOT
                               if printed.startswith("/") or printed == ""
                               else PathSeparators.FSLASH)
            str(other)
            esc = nc.path.escaped
        except Exception as ex:           # pylint: disable=broad-except
            # the reported path is not even a path (it cannot be read back)
            st.fail("%s|reported-path-unreadable" % sig, case,
                    "a path which parses", "%s: %s" % (
                        type(ex).__name__, str(ex)[:120]))
            continue
        # a path naming the node - or one of its ancestors - by an anchor
        # resolves once per place that anchor is aliased
        ends_anchor = any(seg[0] is PathSegmentTypes.ANCHOR for seg in esc)
        for how, ptext in (("as-printed", printed), ("other", str(other))):
            if how == "other" and ptext.startswith("/") and \
                    not printed.startswith("/") and False:
                continue
            st.validated += 1
            back = resolve(doc, ptext, cache)
            if back.kind != "nodes":
                st.fail("%s|reresolve-%s:%s" % (sig, how, back.kind), case,
                        "the node", "%r -> %s" % (ptext, back.brief()))
                break
            nodes = [b for b in back.ncs]
            if ends_anchor:
                if not nodes or any(
                        isinstance(b, list) or b.node is not nc.node
                        for b in nodes):
                    st.fail("%s|reresolve-%s:anchor" % (sig, how), case,
                            "the node once per alias site",
                            "%r -> %d results" % (ptext, len(nodes)))
                    break
                continue
            if len(nodes) != 1 or isinstance(nodes[0], list) or \
                    nodes[0].node is not nc.node or \
                    not same_place(nodes[0], nc):
                st.fail("%s|reresolve-%s" % (sig, how), case,
                        "exactly the node",
                        "%r -> %d results%s" % (
                            ptext, len(nodes),
                            "" if len(nodes) != 1 else " (another node)"))
                break


def twin_keyed(nc):
    for cont, ref in nc.ancestry:
        if corpus.is_map(cont) and isinstance(ref, int) \
                and not isinstance(ref, bool) and str(ref) in cont:
            return True
    return False


def same_place(a, b):
    if a.parent is not b.parent:
        return False
    if a.parent is None:
        return True
    if corpus.is_list(a.parent):
        try:
            n = len(a.parent)
            return (a.parentref % n) == (b.parentref % n)
        except (TypeError, ZeroDivisionError):
            return False
    return a.parentref == b.parentref


def check_ancestry(doc, nc):
    anc = nc.ancestry
    if nc.parent is None:
        return None if not anc else "root result with ancestry %d" % len(anc)
    if not anc:
        return "empty ancestry for a non-root node"
    if anc[0][0] is not doc:
        return "ancestry does not start at the document root"
    for i in range(len(anc) - 1):
        cont, ref = anc[i]
        nxt = anc[i + 1][0]
        if not holds(cont, ref, nxt):
            return "link %d broken (ref %r)" % (i, ref)
    last_c, last_r = anc[-1]
    if last_c is not nc.parent:
        return "last ancestor is not the parent"
    if not holds(last_c, last_r, nc.node):
        return "last ancestry reference %r does not hold the node" % (last_r,)
    return None


def replay(case):
    st = core.Stats(None)
    warm_up()
    doc = corpus.load(case["doc"])
    check_query(st, doc, case["doc"], "?", (), case["path"], {})
    for lst in st.fails.values():
        return lst[0]
    return None


def repro(case):
    return (
        "from types import SimpleNamespace\n"
        "from yamlpath import Processor\n"
        "from yamlpath.common import Parsers\n"
        "from yamlpath.wrappers import ConsolePrinter\n"
        "log = ConsolePrinter(SimpleNamespace(verbose=False, quiet=True, "
        "debug=False))\n"
        "doc, _ = Parsers.get_yaml_data(Parsers.get_yaml_editor(), log, %r, "
        "literal=True)\n"
        "p = Processor(log, doc)\n"
        "for r in p.get_nodes(%r, mustexist=True):\n"
        "    print(repr(r.node), repr(r.parentref), str(r.path), "
        "[a[1] for a in r.ancestry])\n"
        "    print('  re-query:', [n.node for n in p.get_nodes(str(r.path), "
        "mustexist=True)])\n" % (case["doc"], case["path"]))
